# -*- coding: utf-8 -*-
"""Shared checks for the C07 demos (trailing-slash redirects, one hop)."""
import re
import sys

from werkzeug.test import create_environ
from werkzeug.urls import url_quote, url_unquote, url_parse
from werkzeug.wrappers import Response

from clastic import Application, SubApplication, Route, GET, POST
from clastic import S_REDIRECT, S_REWRITE, S_STRICT
from clastic.route import normalize_path, NullRoute, BoundRoute

MODES = (S_REDIRECT, S_REWRITE, S_STRICT)
METHODS = ('GET', 'HEAD', 'POST', 'PUT', 'DELETE', 'OPTIONS', 'TRACE',
           'CONNECT', 'PATCH')

# decoded path segments with URL-significant characters
SEGMENTS = [u'a', u'a?b', u'a#b', u'100%', u'%41', u'a b', u'a;b', u'a&b=c',
            u'caf\xe9', u'中', u'+', u'a:b@c', u'.', u'..', u'0']
QUERIES = ['', 'x=1', 'x=1&y=%2F', 'a=b?c', 'q=caf%C3%A9', 'e=', '=',
           'x=%zz', 'a=1&a=2', 'sp=a+b%20c']


def ep(request):
    return Response(u'|'.join([request.method, request.path]))


def ep_single(request, name):
    return Response(u'|'.join([request.method, request.path, name]))


def ep_multi(request, parts):
    return Response(u'|'.join([request.method, request.path] + list(parts)))


def spec_normalize(path, is_branch):
    """Independent statement of the canonical form."""
    segs = [s for s in re.split('/+', path) if s != '']
    if not segs:
        return '/'
    out = ''
    for s in segs:
        out += '/' + s
    if is_branch:
        out += '/'
    return out


def call(app, path, query='', method='GET'):
    """Run one request with a *decoded* path; returns (status, headers, body)."""
    environ = create_environ(path=url_quote(path, safe='/'), base_url='http://h.test/',
                             query_string=query, method=method)
    # make sure the decoded path is exactly what we asked for
    environ['PATH_INFO'] = path.encode('utf8').decode('latin1')
    environ['QUERY_STRING'] = query
    captured = {}

    def start_response(status, headers, exc_info=None):
        captured['status'] = int(status.split()[0])
        captured['headers'] = dict(headers)
    body = b''.join(app(environ, start_response))
    return captured['status'], captured['headers'], body.decode('utf8')


def split_location(location):
    """-> (decoded path, raw query) of an absolute Location."""
    assert location.startswith('http://h.test/'), location
    rest = location[len('http://h.test'):]
    assert '#' not in rest, location
    raw_path, sep, query = rest.partition('?')
    return url_unquote(raw_path), query


def check_redirect_one_hop(app, path, query, method, is_branch=True):
    """path must be non-canonical for a branch route admitted for method."""
    status, headers, body = call(app, path, query, method)
    assert 300 <= status < 400, (path, query, method, status)
    loc_path, loc_query = split_location(headers['Location'])
    canonical = spec_normalize(path, True)
    assert loc_path == canonical, (path, loc_path, canonical)
    assert loc_query == query, (query, loc_query)
    # fixed point
    assert normalize_path(loc_path, True) == loc_path
    # second hop: no more redirects, same resource
    status2, headers2, body2 = call(app, loc_path, loc_query, method)
    assert status2 == 200, (path, loc_path, status2)
    if method != 'HEAD':
        assert body2.split(u'|')[:2] == [method, canonical], body2
    return canonical


def noncanonical_variants(segs):
    """Non-canonical spellings of the branch path made of segs.

    (werkzeug's request.path collapses *leading* slashes itself, so the
    doubled slashes are put elsewhere.)"""
    body = u'/'.join(segs)
    ret = [u'/' + body,                 # missing trailing slash
           u'/' + body + u'//',         # doubled trailing slash
           u'/' + body + u'////']
    if len(segs) > 1:
        ret.append(u'/' + u'//'.join(segs) + u'/')
        ret.append(u'/' + u'///'.join(segs))
    return ret


def finish():
    print('PASS')
    sys.exit(0)


# ---------------------------------------------------------------- demo 1
# normalize_path: canonical form, fixed point, types; and the redirect built
# from it (Location = canonical path + untouched query, one hop).

def main():
    import itertools

    # 1. normalize_path against the independent spec, exhaustively over short
    #    strings of an alphabet with slashes and awkward characters
    alphabet = [u'/', u'a', u'?', u'%', u' ', u'\xe9']
    count = 0
    for n in range(0, 6):
        for tup in itertools.product(alphabet, repeat=n):
            path = u''.join(tup)
            for is_branch in (True, False, 1, 0, None, 'yes', '', [], [0]):
                got = normalize_path(path, is_branch)
                want = spec_normalize(path, bool(is_branch))
                assert got == want, (path, is_branch, got, want)
                assert type(got) is type(want)
                # fixed point, for the same kind of route
                assert normalize_path(got, is_branch) == got
                count += 1
    assert count > 80000

    # edge cases spelled out
    assert normalize_path('', True) == '/'
    assert normalize_path('', False) == '/'
    assert normalize_path('/', True) == '/'
    assert normalize_path('////', False) == '/'
    assert normalize_path('a', True) == '/a/'
    assert normalize_path('a', False) == '/a'
    assert normalize_path('/a//b///', False) == '/a/b'
    assert normalize_path('/a//b', True) == '/a/b/'
    assert normalize_path('/0/', True) == '/0/'
    assert normalize_path(u'/caf\xe9//', True) == u'/caf\xe9/'
    # wrong types fail the same way as ever
    for bad in (None, 5, b'/a/b', ['/a']):
        try:
            normalize_path(bad, True)
        except (AttributeError, TypeError) as e:
            kind = type(e)
        else:
            raise AssertionError('no error for %r' % (bad,))
        assert kind is (TypeError if isinstance(bad, bytes) else AttributeError), (bad, kind)
    # a str subclass comes back as a plain str
    class MyStr(str):
        pass
    assert type(normalize_path(MyStr('/a//b'), True)) is str
    assert type(normalize_path(MyStr('//'), True)) is str

    # 2. redirects: static / single / multi bindings, every segment, every query
    app = Application([('/s/t/', ep),
                       ('/one/<name>/', ep_single),
                       ('/m/<parts+>/', ep_multi),
                       ('/leaf/<name>', ep_single)])
    hops = 0
    for q in QUERIES:
        for v in noncanonical_variants([u's', u't']):
            check_redirect_one_hop(app, v, q, 'GET')
            hops += 1
    for seg in SEGMENTS:
        for q in QUERIES:
            for v in noncanonical_variants([u'one', seg]):
                check_redirect_one_hop(app, v, q, 'GET')
                hops += 1
    for seg_a, seg_b in zip(SEGMENTS, reversed(SEGMENTS)):
        for q in QUERIES[:4]:
            for v in noncanonical_variants([u'm', seg_a, seg_b]):
                check_redirect_one_hop(app, v, q, 'POST')
                hops += 1
    assert hops > 900

    # 3. canonical paths and leaf routes are never redirected
    for seg in SEGMENTS:
        status, headers, body = call(app, u'/one/%s/' % seg, 'x=1')
        assert status == 200 and 'Location' not in headers, (seg, status)
        assert body == u'GET|/one/%s/|%s' % (seg, seg)
        for path in (u'/leaf/%s' % seg, u'/leaf//%s' % seg, u'/leaf/%s//' % seg):
            status, headers, body = call(app, path, 'x=1')
            assert status == 200 and 'Location' not in headers, (path, status)
            assert body == u'GET|%s|%s' % (path, seg), body
    assert call(app, u'/', '')[0] == 404
    finish()


if __name__ == '__main__':
    main()
