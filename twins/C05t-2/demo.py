# -*- coding: utf-8 -*-
"""demo2: URL patterns match exactly the paths their mini-language describes.

Focus: the conversion half of the mechanism -- build_converter (single vs
multi, optional -> None / []) and BoundRoute.match_path (converted values,
"conversion failure means no match", which exceptions are swallowed).
A frozen reference copy of the original converter / matcher is compared with
the live one over an enumerated space of raw captures and of pattern x path
pairs.

Prints PASS and exits 0 when every assertion holds.
"""
from __future__ import print_function

import re
import sys
import random
import itertools

from clastic import Application, Route
from clastic import route as route_mod
from clastic.route import (InvalidPattern, S_STRICT, S_REDIRECT, S_REWRITE,
                           build_converter, _compile_path_pattern)

MODES = (S_STRICT, S_REDIRECT, S_REWRITE)

# --------------------------------------------------------------------------
# frozen reference implementation
# --------------------------------------------------------------------------
REF_BINDING = re.compile(r'<(?P<name>[A-Za-z_]\w*)(?P<op>\W*)(?P<type>\w+)*>')
REF_FLOAT = r'[+-]?\ *(\d+(\.\d*)?|\.\d+)([eE][+-]?\d+)?'
REF_INT = r'[+-]?\ *[0-9]+'
REF_STR = r'[^/]+'
REF_CONV = {'int': int, 'float': float, 'str': str, 'unicode': str}
REF_PATT = {'int': REF_INT, 'float': REF_FLOAT, 'str': REF_STR,
            'unicode': REF_STR}
REF_MULTI = {'': False, '?': False, ':': False, '+': True, '*': True}
REF_OPT = {'': False, '?': True, ':': False, '+': False, '*': True}


def ref_build_converter(converter, optional=False, multi=False):
    if multi:
        def multi_converter(value):
            if not value and optional:
                return []
            return [converter(v) for v in value.split('/')[1:]]
        return multi_converter

    def single_converter(value):
        if not value and optional:
            return None
        return converter(value.replace('/', ''))
    return single_converter


def ref_compile(pattern, mode):
    processed = []
    convs = {}
    assert pattern.startswith('/') and '//' not in pattern
    sep = '/' if mode == 'strict' else '/+'
    for part in pattern.split('/'):
        m = REF_BINDING.match(part)
        if not m:
            processed.append(part)
            continue
        name, type_name, op = m.group('name'), m.group('type'), m.group('op')
        assert name not in convs
        if op == ':':
            op = ''
        if not type_name:
            type_name = 'unicode'
        convs[name] = ref_build_converter(REF_CONV[type_name],
                                          REF_OPT[op], REF_MULTI[op])
        processed[-1] += '(?P<%s>(%s%s)%s)' % (name, sep,
                                               REF_PATT[type_name], op)
    if mode != 'strict' and not processed[-1]:
        processed = processed[:-1]
    full = '^' + sep.join(processed)
    if mode != 'strict':
        full += '/*'
    return re.compile(full + '$'), convs


def ref_match(regex, convs, path):
    m = regex.match(path)
    if not m:
        return None
    groups = m.groupdict()
    ret = {}
    try:
        for name, conv in convs.items():
            ret[name] = conv(groups[name])
    except (KeyError, TypeError, ValueError):
        return None
    return ret


# --------------------------------------------------------------------------
# live side helpers
# --------------------------------------------------------------------------
APP = Application()


def endpoint():
    return None


def live_route(pattern, mode):
    rt = Route(pattern, endpoint, slash_mode=mode)
    return rt.bind(APP, inherit_slashes=False)


def canon(result):
    if result is None:
        return None
    return repr(list(result.items()))


def outcome(func, *args):
    """('ok', repr(value)) or ('exc', type name, str(exc))."""
    try:
        return ('ok', repr(func(*args)))
    except Exception as exc:  # noqa
        return ('exc', type(exc).__name__, str(exc))


CHECKS = [0]


def expect(pattern, mode, path, expected):
    got = live_route(pattern, mode).match_path(path)
    assert canon(got) == canon(expected), (pattern, mode, path, got, expected)
    CHECKS[0] += 1


# --------------------------------------------------------------------------
# 1. build_converter in isolation
# --------------------------------------------------------------------------
class Recorder(object):
    """A converter which remembers what it was called with."""
    def __init__(self, func=None):
        self.calls = []
        self.func = func or (lambda text: ('conv', text))

    def __call__(self, text):
        self.calls.append(text)
        return self.func(text)


def check_build_converter():
    # signature: (converter, optional=False, multi=False), keywords accepted
    rec = Recorder()
    conv = build_converter(rec)
    assert conv('/abc') == ('conv', 'abc') and rec.calls == ['abc']
    assert conv('///a') == ('conv', 'a')
    assert conv('') == ('conv', '')            # not optional: converter runs
    assert rec.calls == ['abc', 'a', '']
    assert build_converter(rec, False, False)('/q') == ('conv', 'q')
    assert build_converter(converter=rec, multi=False,
                           optional=False)(value='/k') == ('conv', 'k')

    # optional single: empty capture -> None, converter not called
    rec = Recorder()
    conv = build_converter(rec, optional=True)
    assert conv('') is None and rec.calls == []
    assert conv('/0') == ('conv', '0') and rec.calls == ['0']
    assert conv('/') == ('conv', '')           # non-empty capture converts

    # multi: one converted value per segment, in order
    rec = Recorder()
    conv = build_converter(rec, multi=True)
    assert conv('/a/b/c') == [('conv', 'a'), ('conv', 'b'), ('conv', 'c')]
    assert rec.calls == ['a', 'b', 'c']
    assert conv('') == []                       # ''.split('/')[1:] == []
    assert conv('/') == [('conv', '')]
    assert conv('//a///b') == [('conv', t) for t in ['', 'a', '', '', 'b']]
    assert conv('x/a') == [('conv', 'a')]       # text before 1st slash dropped
    assert build_converter(rec, multi=True)(value='/v') == [('conv', 'v')]

    # optional multi: empty capture -> a fresh [] each time
    rec = Recorder()
    conv = build_converter(rec, optional=True, multi=True)
    first, second = conv(''), conv('')
    assert first == [] and second == [] and first is not second
    assert rec.calls == []
    assert conv('/1/2') == [('conv', '1'), ('conv', '2')]
    one, two = conv('/1'), conv('/1')
    assert one == two and one is not two
    assert type(one) is list

    # truthiness corner cases of the flags
    for truthy in (True, 1, 'yes', [0]):
        for falsy in (False, 0, '', None, []):
            assert build_converter(int, truthy, falsy)('') is None
            assert build_converter(int, truthy, truthy)('') == []
            assert outcome(build_converter(int, falsy, falsy), '')[:2] == \
                ('exc', 'ValueError')
            assert build_converter(int, falsy, truthy)('') == []
            assert build_converter(int, falsy, truthy)('/5/6') == [5, 6]
            assert build_converter(int, truthy, falsy)('/5') == 5

    # exceptions of the converter pass through unchanged, conversion stops
    # at the first failing segment
    rec = Recorder(int)
    conv = build_converter(rec, multi=True)
    assert outcome(conv, '/1/x/3') == \
        ('exc', 'ValueError', "invalid literal for int() with base 10: 'x'")
    assert rec.calls == ['1', 'x']

    def stop(text):
        raise StopIteration('stop:' + text)
    assert outcome(build_converter(stop, multi=True), '/a') == \
        ('exc', 'StopIteration', 'stop:a')
    assert outcome(build_converter(stop), '/a') == \
        ('exc', 'StopIteration', 'stop:a')
    # a non-text capture is not silently accepted
    assert outcome(build_converter(str), None)[:2] == ('exc', 'AttributeError')
    assert outcome(build_converter(str, multi=True), None)[:2] == \
        ('exc', 'AttributeError')
    assert build_converter(str, optional=True)(None) is None
    assert build_converter(str, optional=True, multi=True)(None) == []

    # differential: live vs reference over many raw captures
    alphabet = ['/', '1', 'a', '.', '-', ' ']
    captures = [''.join(t) for n in range(0, 5)
                for t in itertools.product(alphabet, repeat=n)]
    n = 0
    for converter in (int, float, str):
        for optional in (False, True):
            for multi in (False, True):
                live = build_converter(converter, optional=optional,
                                       multi=multi)
                ref = ref_build_converter(converter, optional, multi)
                for text in captures:
                    assert outcome(live, text) == outcome(ref, text), \
                        (converter, optional, multi, text)
                    n += 1
    return n


# --------------------------------------------------------------------------
# 2. match_path: converted values and failures
# --------------------------------------------------------------------------
def check_match_path_values():
    for mode in MODES:
        # absent optional bindings
        expect('/a/<n?int>', mode, '/a', {'n': None})
        expect('/a/<n?int>', mode, '/a/0', {'n': 0})
        expect('/a/<n?float>/z', mode, '/a/z', {'n': None})
        expect('/a/<n?float>/z', mode, '/a/0/z', {'n': 0.0})
        expect('/a/<n?>', mode, '/a', {'n': None})
        expect('/a/<n*int>', mode, '/a', {'n': []})
        expect('/a/<n*int>/z', mode, '/a/z', {'n': []})
        expect('/a/<n*>', mode, '/a/0', {'n': ['0']})
        expect('/a/<n+float>', mode, '/a/0/1', {'n': [0.0, 1.0]})
        expect('/a/<n+>', mode, '/a', None)
        expect('/<p?>/<q*>/<r?int>/<s*float>', mode, '/a',
               {'p': 'a', 'q': [], 'r': None, 's': []})
        # lexical forms accepted by the regex and by the conversion
        expect('/<i:int>', mode, '/0012', {'i': 12})
        expect('/<i:int>', mode, '/-0', {'i': 0})
        expect('/<i:int>', mode, '/+7', {'i': 7})
        expect('/<i:int>', mode, '/  7', {'i': 7})
        expect('/<f:float>', mode, '/1.', {'f': 1.0})
        expect('/<f:float>', mode, '/1E-2', {'f': 0.01})
        expect('/<f:float>', mode, '/+1.5e+1', {'f': 15.0})
        expect('/<f:float>', mode, '/ 2', {'f': 2.0})
        # accepted by the regex, refused by the conversion: no match
        expect('/<i:int>', mode, '/+ 7', None)
        expect('/<i:int>', mode, '/- 7', None)
        expect('/<f:float>', mode, '/- 1.5', None)
        expect('/<f:float>', mode, '/+  .5e3', None)
        expect('/<l+int>', mode, '/1/2/- 3', None)
        expect('/<l+int>/<m*>', mode, '/1/- 3/x', None)
        # ... even if an earlier binding converted fine (no partial dict)
        expect('/<a:int>/<b:int>', mode, '/1/+ 2', None)
        expect('/<a:int>/<b:int>', mode, '/+ 1/2', None)
        expect('/<a:int>/<b:int>', mode, '/1/2', {'a': 1, 'b': 2})
        # refused by the regex already
        expect('/<i:int>', mode, '/1_0', None)
        expect('/<i:int>', mode, '/0x1', None)
        expect('/<f:float>', mode, '/inf', None)
        expect('/<f:float>', mode, '/1e', None)
        expect('/<f:float>', mode, '/1_0.0', None)
        expect('/<f:float>', mode, '/1,5', None)
    # repeated slashes inside a capture (non-strict modes only)
    expect('/a/<x:int>', S_STRICT, '/a//5', None)
    for mode in (S_REDIRECT, S_REWRITE):
        expect('/a/<x:int>', mode, '/a//5', {'x': 5})
        expect('/a/<x?int>', mode, '/a///5//', {'x': 5})
        expect('/a/<x>', mode, '/a//v/', {'x': 'v'})
        # multi captures keep the empty pieces between repeated slashes,
        # which int/float refuse and str keeps (behaviour pinned as is)
        expect('/a/<x*>', mode, '/a//b///c/', {'x': ['', 'b', '', '', 'c']})
        expect('/a/<x*int>', mode, '/a//5', None)
        expect('/a/<x+float>', mode, '/a/1//2', None)
        expect('/a/<x*int>', mode, '/a/5/6//', {'x': [5, 6]})

    # the result is a new plain dict per call, in pattern order
    bound = live_route('/<z>/<a*int>/<m?float>', S_STRICT)
    first = bound.match_path('/q/1/2')
    second = bound.match_path('/q/1/2')
    assert type(first) is dict and first == second and first is not second
    assert first['a'] is not second['a']
    assert list(first) == ['z', 'a', 'm'] == list(bound.converters)
    assert bound.match_path('nope') is None
    assert bound.match_path('') is None


# --------------------------------------------------------------------------
# 3. match_path: which converter exceptions mean "no match"
# --------------------------------------------------------------------------
class Boom(Exception):
    pass


def check_match_path_exceptions():
    calls = []

    def make_raiser(exc_type):
        def raiser(text):
            calls.append((exc_type.__name__, text))
            raise exc_type('from converter: ' + text)
        return raiser

    # UnicodeError is a ValueError and hence swallowed; LookupError (the base
    # class of KeyError) and IndexError are not
    swallowed = [KeyError, TypeError, ValueError, UnicodeError]
    propagated = [LookupError, IndexError, AttributeError, RuntimeError,
                  StopIteration, ArithmeticError, Boom]
    registered = []
    try:
        for exc_type in swallowed + propagated:
            type_name = 'x' + exc_type.__name__.lower()
            route_mod._register_converter(type_name, make_raiser(exc_type),
                                          r'[^/]+')
            registered.append(type_name)
        route_mod._register_converter('tracer',
                                      lambda t: calls.append(('ok', t)) or t,
                                      r'[^/]+')
        registered.append('tracer')

        for mode in MODES:
            for exc_type in swallowed:
                type_name = 'x' + exc_type.__name__.lower()
                for op in (':', '?', '*', '+'):
                    del calls[:]
                    bound = live_route('/<a:tracer>/<b%s%s>/<c:tracer>'
                                       % (op, type_name), mode)
                    assert bound.match_path('/1/2/3') is None
                    # conversion runs in pattern order and stops at the
                    # failing binding
                    assert calls == [('ok', '1'), (exc_type.__name__, '2')], \
                        calls
            for exc_type in propagated:
                type_name = 'x' + exc_type.__name__.lower()
                for op in (':', '?', '*', '+'):
                    del calls[:]
                    bound = live_route('/<a:tracer>/<b%s%s>/<c:tracer>'
                                       % (op, type_name), mode)
                    try:
                        bound.match_path('/1/2/3')
                    except exc_type as exc:
                        assert type(exc) is exc_type, (type(exc), exc_type)
                        assert exc.args == ('from converter: 2',)
                    else:
                        raise AssertionError('%s swallowed' % exc_type)
                    assert calls == [('ok', '1'), (exc_type.__name__, '2')]
                # an absent optional binding never reaches the converter
                bound = live_route('/k/<b?%s>' % type_name, mode)
                assert bound.match_path('/k') == {'b': None}
                bound = live_route('/k/<b*%s>' % type_name, mode)
                assert bound.match_path('/k') == {'b': []}

        # a converters entry without a regex group (KeyError on lookup)
        bound = live_route('/<a:int>', S_STRICT)
        bound.converters['ghost'] = int
        assert bound.match_path('/1') is None
        del bound.converters['ghost']
        assert bound.match_path('/1') == {'a': 1}
        # a non-callable converter (TypeError on call)
        bound.converters['a'] = None
        assert bound.match_path('/1') is None
    finally:
        for type_name in registered:
            route_mod.TYPE_CONV_MAP.pop(type_name, None)
            route_mod.TYPE_PATT_MAP.pop(type_name, None)
    assert sorted(route_mod.TYPE_CONV_MAP) == ['float', 'int', 'str',
                                               'unicode']
    assert sorted(route_mod.TYPE_PATT_MAP) == ['float', 'int', 'str',
                                               'unicode']


# --------------------------------------------------------------------------
# 4. differential enumeration of pattern x path pairs
# --------------------------------------------------------------------------
LITERALS = ['a', '12']
TYPES = ['', 'int', 'float', 'str']
ELEMENTS = LITERALS + ['<%s>'] + ['<%s' + op + t + '>'
                                  for op in ':?*+' for t in TYPES]
NAMES = ['x', 'y', 'z']


def make_pattern(elements, trailing):
    parts = [e % NAMES[i] if '%s' in e else e for i, e in enumerate(elements)]
    return '/' + '/'.join(parts) + ('/' if trailing else '')


ALPHABET = [u'/', u'a', u'1', u'.', u'-', u'+', u' ', u'e', u'\xe9']
SEGMENT_POOL = [u'a', u'12', u'1', u'-2', u'+ 5', u' 7', u'1.5', u'.5',
                u'1e3', u'\xe9', u'a b', u'0', u'', u'+', u'.', u'1e', u'- 1']


def all_paths(seed=3, n_random=400):
    for n in range(0, 4):
        for tup in itertools.product(ALPHABET, repeat=n):
            yield u''.join(tup)
    for tup in itertools.product(ALPHABET, repeat=3):
        yield u'/' + u''.join(tup)
    rng = random.Random(seed)
    for _ in range(n_random):
        segs = [rng.choice(SEGMENT_POOL) for _ in range(rng.randint(1, 6))]
        path = u''
        for seg in segs:
            path += rng.choice([u'/', u'/', u'/', u'//']) + seg
        yield path + rng.choice([u'', u'', u'/', u'//'])


def check_differential():
    paths = list(all_paths())
    patterns = []
    for n in (1, 2):
        for combo in itertools.product(ELEMENTS, repeat=n):
            patterns.append(make_pattern(combo, False))
            patterns.append(make_pattern(combo, True))
    rng = random.Random(8)
    for _ in range(200):
        combo = [rng.choice(ELEMENTS) for _ in range(3)]
        patterns.append(make_pattern(combo, rng.random() < 0.5))
    sample = patterns[:2 * len(ELEMENTS)] + rng.sample(patterns, 220)
    n_pairs = n_hits = 0
    for pattern in sample:
        mode = rng.choice(MODES)
        ref_regex, ref_convs = ref_compile(pattern, mode)
        bound = live_route(pattern, mode)
        assert bound.regex.pattern == ref_regex.pattern, (pattern, mode)
        assert list(bound.converters) == list(ref_convs)
        for path in paths:
            want = ref_match(ref_regex, ref_convs, path)
            got = bound.match_path(path)
            assert canon(got) == canon(want), (pattern, mode, path, got, want)
            n_pairs += 1
            n_hits += got is not None
    assert n_hits > 1000, n_hits
    return n_pairs, n_hits


# --------------------------------------------------------------------------
# 5. end to end
# --------------------------------------------------------------------------
def check_end_to_end():
    from werkzeug.wrappers import Response

    def show(one, many, maybe):
        return Response(repr((one, many, maybe)))

    for mode in MODES:
        app = Application([('/v/<one:float>/<maybe?int>/m/<many*int>', show)],
                          slash_mode=mode)
        client = app.get_local_client()
        resp = client.get('/v/1e1/m/3/4')
        assert resp.status_code == 200 and resp.data == b'(10.0, [3, 4], None)'
        resp = client.get('/v/.5/9/m')
        assert resp.status_code == 200 and resp.data == b'(0.5, [], 9)'
        assert client.get('/v/x/9/m').status_code == 404
        assert client.get('/v/1/9/m/3/x').status_code == 404
        assert client.get('/v/1/- 9/m').status_code == 404


def main():
    n_caps = check_build_converter()
    check_match_path_values()
    check_match_path_exceptions()
    n_pairs, n_hits = check_differential()
    check_end_to_end()
    print('explicit match checks: %d; raw captures compared: %d; '
          'pattern x path pairs: %d (%d matches)'
          % (CHECKS[0], n_caps, n_pairs, n_hits))
    print('PASS')


if __name__ == '__main__':
    main()
    sys.exit(0)
