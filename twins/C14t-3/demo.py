# -*- coding: utf-8 -*-
"""demo3: the '/<path*>' binding (multi-segment conversion), StaticFileRoute
and the glue between requests and build_file_response.

Checks the segment lists produced for tricky URLs (an empty first segment
is what turns '//etc/passwd' into a refused absolute path), serving under
several prefixes and all three slash modes, the server-provided
wsgi.file_wrapper, StaticFileRoute's construction-time check and its
request-time behaviour (200 / 304 / soft 404), and overlapping apps.
Prints PASS and a digest of all observations.
"""
import os
import re
import sys
import errno
import shutil
import hashlib
import builtins
import itertools
import mimetypes
import posixpath
import tempfile
from datetime import datetime

sys.path.insert(0, os.path.dirname(os.path.abspath(__file__)))

from werkzeug.http import http_date
from werkzeug.wsgi import FileWrapper

from clastic import Application, StaticApplication, StaticFileRoute
from clastic.route import build_converter
from clastic.static import DEFAULT_MAX_AGE

mimetypes.init()
MTIME = 1450000000
LOG = []


def log(*a):
    LOG.append(repr(a))


def write(path, data, mtime=MTIME):
    d = os.path.dirname(path)
    if not os.path.isdir(d):
        os.makedirs(d)
    with open(path, 'wb') as f:
        f.write(data)
    os.utime(path, (mtime, mtime))


def raises(exc_type, func, *a, **kw):
    try:
        func(*a, **kw)
    except Exception as e:
        assert isinstance(e, exc_type), (type(e), exc_type)
        return type(e).__name__
    raise AssertionError('%r not raised' % (exc_type,))


def model(roots, path):
    norm = posixpath.normpath(path)
    if norm.startswith('/') or norm.startswith('..'):
        return 403, None
    for r in roots:
        full = os.path.join(r, norm)
        if os.path.isfile(full):
            return 200, full
    return 404, None


def check_converters():
    # ---- multi (the one behind '/<path*>') ------------------------------
    conv = build_converter(str, optional=True, multi=True)
    assert conv.__name__ == 'multi_converter'
    cases = {
        '': [],
        '/a': ['a'],
        '/a/b/c': ['a', 'b', 'c'],
        '//etc/passwd': ['', 'etc', 'passwd'],
        '///x': ['', '', 'x'],
        '/a//b': ['a', '', 'b'],
        '/a/': ['a', ''],
        '/': [''],
        '//': ['', ''],
        '/../..': ['..', '..'],
        '/./a b/\xfc': ['.', 'a b', '\xfc'],
        'noslash': [],
        'x/y': ['y'],
    }
    for text, exp in sorted(cases.items()):
        got = conv(text)
        assert got == exp and type(got) is list, (text, got)
        assert all(type(s) is str for s in got)
        log('multi', text, got)
    # a fresh list every time
    first = conv('')
    first.append('junk')
    assert conv('') == []
    first = conv('/a')
    first.append('junk')
    assert conv('/a') == ['a']
    # not optional: the empty match still converts to an empty list
    strict = build_converter(str, optional=False, multi=True)
    assert strict('') == [] and strict('/a//b') == ['a', '', 'b']
    # typed segments: converted in order, first failure propagates untouched
    seen = []

    def noisy_int(s):
        seen.append(s)
        return int(s)
    iconv = build_converter(noisy_int, optional=True, multi=True)
    assert iconv('/1/2/3') == [1, 2, 3] and seen == ['1', '2', '3']
    del seen[:]
    assert raises(ValueError, iconv, '/1/x/3') == 'ValueError'
    assert seen == ['1', 'x']
    del seen[:]
    assert raises(ValueError, iconv, '//1') == 'ValueError' and seen == ['']
    del seen[:]
    assert iconv('') == [] and seen == []
    assert raises(AttributeError, strict, None) == 'AttributeError'
    assert conv(None) == []
    assert raises(AttributeError, conv, 5) == 'AttributeError'
    assert conv(0) == []       # falsy => optional default, as before

    # ---- single ---------------------------------------------------------
    sconv = build_converter(str, optional=True, multi=False)
    assert sconv.__name__ == 'single_converter'
    assert sconv('') is None and sconv(None) is None
    assert sconv('/abc') == 'abc' and sconv('//a/b') == 'ab'
    req = build_converter(int, optional=False)
    assert req('/12') == 12 and req('///7') == 7
    assert raises(ValueError, req, '') == 'ValueError'
    assert raises(ValueError, req, '/x') == 'ValueError'
    assert raises(AttributeError, req, None) == 'AttributeError'
    assert build_converter(str)('') == ''
    log('single ok')


class CountingWrapper(FileWrapper):
    made = 0

    def __init__(self, *a, **kw):
        CountingWrapper.made += 1
        FileWrapper.__init__(self, *a, **kw)


def get(client, url, **kw):
    if url.startswith('//'):
        raw = url.encode('utf-8').decode('latin-1')
        kw.setdefault('environ_overrides', {})['PATH_INFO'] = raw
        return client.get('/', **kw)
    return client.get(url, **kw)


def main():
    check_converters()
    base = tempfile.mkdtemp(prefix='c14demo3_')
    try:
        r1 = os.path.join(base, 'r1')
        r2 = os.path.join(base, 'r2')
        files1 = {'a.txt': b'r1 a', 'sub/b.js': b'var b;', 'sub/deep/c': b'\x00\x01',
                  'sub/deep/d e.txt': b'd e', 'x..y': b'xy', '..z': b'refused',
                  u'\xe9.txt': b'e-acute', 'empty': b''}
        files2 = {'a.txt': b'r2 a', 'two.txt': b'two', 'sub/deep/two.html': b'<p>'}
        for rel, data in files1.items():
            write(os.path.join(r1, *rel.split('/')), data)
        for rel, data in files2.items():
            write(os.path.join(r2, *rel.split('/')), data)
        write(os.path.join(base, 'secret.txt'), b'SECRET')
        write(os.path.join(base, 'r1x', 'secret.txt'), b'SECRET')
        roots = [r1, r2]
        abs_pieces = [p for p in base.split('/') if p]

        # ---- the bound route really hands over segment lists ------------------
        sapp = StaticApplication(roots)
        assert len(sapp.routes) == 1
        broute = sapp.routes[0]
        assert broute.pattern == '/<path*>'
        assert broute.match_path('/') == {'path': []}
        assert broute.match_path('') == {'path': []}
        assert broute.match_path('/a/b') == {'path': ['a', 'b']}
        assert broute.match_path('//etc/hosts') == {'path': ['', 'etc', 'hosts']}
        assert broute.match_path('/a//b///') == {'path': ['a', '', 'b']}
        assert broute.match_path('/../x/') == {'path': ['..', 'x']}
        assert StaticApplication(r1).search_paths == [r1]
        assert StaticApplication(b'/x').search_paths == [b'/x']
        t = (r1, r2)
        assert StaticApplication(t).search_paths is t
        assert sapp.cache_timeout == DEFAULT_MAX_AGE == 360

        # ---- prefixes x slash modes ----------------------------------------------
        segs = ['a.txt', 'sub', 'deep', 'c', '.', '..', '', 'two.txt',
                'secret.txt', abs_pieces[0], abs_pieces[1]]
        strict_re = re.compile(r'^(/[^/]+)*$')
        for mode in ('redirect', 'rewrite', 'strict'):
            for prefix, mount in (('/static', '/static/'), ('/s/t', '/s/t'),
                                  ('/\xfc', '/\xfc/')):
                app = Application([(mount, StaticApplication(roots))],
                                  slash_mode=mode)
                client = app.get_local_client()
                urls = []
                for depth in range(0, 4):
                    for combo in itertools.product(segs, repeat=depth):
                        urls.append(prefix + '/' + '/'.join(combo))
                urls.append(prefix)
                urls.append(prefix + '/' + base + '/secret.txt')
                urls.append(prefix + '//' + base + '/secret.txt')
                urls.append(prefix + '/sub/deep/d e.txt')
                urls.append(prefix + '/\xe9.txt')
                urls.append(prefix + '/..z')
                urls.append(prefix + '/x..y')
                urls.append(prefix + '/../r1x/secret.txt')
                urls.append(prefix + '/sub/../../secret.txt')
                counts = {}
                for url in urls:
                    resp = get(client, url)
                    st = resp.status_code
                    body = resp.get_data()
                    assert st in (200, 403, 404), (mode, url, st)
                    assert b'SECRET' not in body
                    tail = url[len(prefix):]
                    if mode == 'strict':
                        if strict_re.match(tail):
                            exp, full = model(roots, tail[1:])
                        else:
                            exp, full = 404, None
                    else:
                        exp, full = model(roots, tail.rstrip('/')[1:])
                    assert st == exp, (mode, url, st, exp)
                    if st == 200:
                        with open(full, 'rb') as f:
                            assert body == f.read()
                        assert int(resp.headers['Content-Length']) == len(body)
                        assert resp.headers['Last-Modified'] == http_date(MTIME)
                        assert resp.headers['Cache-Control'] == 'max-age=360'
                    counts[st] = counts.get(st, 0) + 1
                    log(mode, prefix, url, st,
                        hashlib.sha1(body).hexdigest()[:8] if st == 200 else '')
                assert counts.get(200) and counts.get(403) and counts.get(404), counts
                # first search path wins, second is reachable
                assert get(client, prefix + '/a.txt').get_data() == b'r1 a'
                assert get(client, prefix + '/two.txt').get_data() == b'two'

        # ---- server-provided file wrapper, conditional requests ------------------
        app = Application([('/static', StaticApplication(roots, cache_timeout=77,
                                                         default_text_mime='text/x-t',
                                                         default_binary_mime='app/x-b')),
                           StaticFileRoute('/one', os.path.join(r1, 'sub', 'b.js')),
                           StaticFileRoute('/typed', os.path.join(r1, 'sub', 'deep', 'c'),
                                           mimetype='image/x-demo', cache_timeout=5),
                           StaticFileRoute('/nocache', os.path.join(r1, 'a.txt'),
                                           cache_timeout=0)])
        client = app.get_local_client()
        for url, data in (('/static/a.txt', b'r1 a'), ('/static/sub/deep/c', b'\x00\x01'),
                          ('/one', b'var b;'), ('/typed', b'\x00\x01'),
                          ('/nocache', b'r1 a'), ('/static/empty', b'')):
            before = CountingWrapper.made
            resp = client.get(url, environ_overrides={
                'wsgi.file_wrapper': CountingWrapper})
            assert resp.status_code == 200 and resp.get_data() == data, url
            assert CountingWrapper.made == before + 1, url
            resp = client.get(url)
            assert resp.status_code == 200 and resp.get_data() == data
            assert CountingWrapper.made == before + 1
            lm = resp.headers['Last-Modified']
            assert lm == http_date(MTIME)
            cc = resp.headers.get('Cache-Control')
            sts = []
            for since in (http_date(MTIME - 1), lm, http_date(MTIME + 1)):
                r = client.get(url, headers={'If-Modified-Since': since})
                sts.append(r.status_code)
                if r.status_code == 304:
                    assert r.get_data() == b''
                    assert 'public' in r.headers['Cache-Control']
                else:
                    assert r.get_data() == data
            exp = [200, 200, 200] if url == '/nocache' else [200, 304, 304]
            assert sts == exp, (url, sts)
            log('cond', url, resp.mimetype, cc, sts)
        assert client.get('/static/sub/deep/c').mimetype == 'app/x-b'
        assert client.get('/static/empty').mimetype == 'text/x-t'
        assert client.get('/typed').mimetype == 'image/x-demo'
        assert client.get('/one').mimetype == mimetypes.guess_type('b.js')[0]
        assert client.get('/static/a.txt').headers['Cache-Control'] == 'max-age=77'
        assert client.get('/typed').headers['Cache-Control'] == 'max-age=5'

        # ---- StaticFileRoute: checked at construction -----------------------------
        good = os.path.join(r1, 'a.txt')
        missing = os.path.join(r1, 'missing.txt')
        route = StaticFileRoute('/f', good)
        assert route.file_path == good and route.cache_timeout == 360
        assert route.mimetype is None and route.pattern == '/f'
        route = StaticFileRoute('/f', good, cache_timeout=None, mimetype='a/b')
        assert route.cache_timeout is None and route.mimetype == 'a/b'
        log('ctor', raises(IOError, StaticFileRoute, '/f', missing))
        assert raises(OSError, StaticFileRoute, '/f', missing) == 'FileNotFoundError'
        assert raises(OSError, StaticFileRoute, '/f', r1) == 'IsADirectoryError'
        assert raises(OSError, StaticFileRoute, '/f', good + '/x') == 'NotADirectoryError'
        assert raises(ValueError, StaticFileRoute, '/f', r1 + '/a\0b') == 'ValueError'
        assert raises(TypeError, StaticFileRoute, '/f', None) == 'TypeError'
        # the check opens (and closes) the file, then stats it
        real_open, real_stat = builtins.open, os.stat
        events = []

        class Spy(object):
            def __init__(self, f):
                self.f = f

            def close(self):
                events.append('close')
                return self.f.close()

            def __enter__(self):
                return self

            def __exit__(self, *exc):
                self.close()

        def spy_open(path, *a, **kw):
            if path == good:
                events.append(('open', a, sorted(kw)))
                return Spy(real_open(path, *a, **kw))
            return real_open(path, *a, **kw)

        def spy_stat(path, *a, **kw):
            if path == good:
                events.append('stat')
            return real_stat(path, *a, **kw)

        def deny_open(path, *a, **kw):
            if path == good:
                raise OSError(errno.EACCES, 'denied', path)
            return real_open(path, *a, **kw)

        def fail_stat(path, *a, **kw):
            if path == good:
                raise OSError(errno.EIO, 'io error', path)
            return real_stat(path, *a, **kw)
        builtins.open, os.stat = spy_open, spy_stat
        try:
            StaticFileRoute('/f', good)
            assert events == [('open', (), []), 'close', 'stat'], events
            del events[:]
            StaticFileRoute('/f', good, check_file=False)
            assert events == []
            builtins.open = deny_open
            assert raises(OSError, StaticFileRoute, '/f', good) == 'PermissionError'
            StaticFileRoute('/f', good, check_file=False)
            builtins.open, os.stat = real_open, fail_stat
            assert raises(OSError, StaticFileRoute, '/f', good) == 'OSError'
        finally:
            builtins.open, os.stat = real_open, real_stat

        # unchecked route to a file that appears / vanishes: soft 404, then 200
        late = os.path.join(base, 'late.txt')
        app = Application([StaticFileRoute('/late', late, check_file=False),
                           ('/', StaticApplication(r2))])
        client = app.get_local_client()
        assert client.get('/late').status_code == 404
        write(late, b'now here')
        resp = client.get('/late')
        assert resp.status_code == 200 and resp.get_data() == b'now here'
        resp = client.get('/late', headers={'If-Modified-Since': http_date(MTIME)})
        assert resp.status_code == 304 and resp.get_data() == b''
        os.remove(late)
        assert client.get('/late').status_code == 404
        resp = client.get('/late', headers={'If-Modified-Since': http_date(MTIME)})
        assert resp.status_code in (403, 404)
        log('late', resp.status_code)
        # a static file route in front of a static app: falls through softly
        write(os.path.join(r2, 'late'), b'from the app')
        resp = client.get('/late')
        assert resp.status_code == 200 and resp.get_data() == b'from the app'
        resp = client.get('/late', headers={'If-Modified-Since': http_date(MTIME - 5)})
        assert resp.status_code == 200 and resp.get_data() == b'from the app'

        # ---- overlapping static applications are tried in order --------------------
        app = Application([('/s', StaticApplication(r1)),
                           ('/s', StaticApplication([r2]))])
        client = app.get_local_client()
        for rel, data in sorted(files1.items()):
            resp = client.get('/s/' + rel)
            if rel.startswith('..'):
                assert resp.status_code in (403, 404) and data not in resp.get_data()
            else:
                assert resp.status_code == 200 and resp.get_data() == data, rel
            log('overlap', rel, resp.status_code)
        for rel, data in sorted(files2.items()):
            resp = client.get('/s/' + rel)
            exp = files1.get(rel, data)
            assert resp.status_code == 200 and resp.get_data() == exp, rel
        for url in ('/s/../secret.txt', '/s//' + base + '/secret.txt', '/s/nope',
                    '/s/sub', '/s/sub/deep/', '/s'):
            resp = client.get(url)
            assert resp.status_code in (403, 404) and b'SECRET' not in resp.get_data()
            log('overlap-miss', url.replace(base, '<BASE>'), resp.status_code)

        digest = hashlib.sha1('\n'.join(LOG).replace(base, '<BASE>')
                              .replace(os.path.basename(base), '<TMP>')
                              .encode('utf-8')).hexdigest()
        print('observations: %d  digest: %s' % (len(LOG), digest))
    finally:
        shutil.rmtree(base, ignore_errors=True)
    print('PASS')


if __name__ == '__main__':
    main()
