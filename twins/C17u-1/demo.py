# -*- coding: utf-8 -*-
"""demo1: BasicRender content sniffing of already-serialized results (text / bytes).

Exercises render_basic on str / bytes endpoint results and checks status, Content-Type and
body; checks BasicRender._guess_json directly on a spread of byte strings (incl. bytes
subclasses, bytearray-free edge cases, single bytes, empty, whitespace padded).
Prints PASS and exits 0 when every assertion holds.
"""
import json
import sys

from clastic import Application, render_basic
from clastic.render import BasicRender


def reference_guess(bs):
    # independent oracle: "looks like a serialized JSON object or array"
    if len(bs) == 0:
        return False
    first, last = bs[0:1], bs[len(bs) - 1:]
    return (first == b'{' and last == b'}') or (first == b'[' and last == b']')


class MyBytes(bytes):
    pass


GUESS_CASES = [
    b'', b'{', b'}', b'[', b']', b'{}', b'[]', b'{]', b'[}', b'}{', b'][',
    b'{"a": 1}', b'[1, 2, 3]', b' {"a": 1}', b'{"a": 1} ', b'{"a": 1}\n', b'\n[1]',
    b'[1, 2', b'1, 2]', b'{{', b'[[', b'}}', b']]', b'{x', b'x}', b'"{}"', b'null', b'0',
    b'{' + b'x' * 1000 + b'}', b'[' + b'<html>' + b']', b'\x00', b'{\x00}', b'\xff[]',
    '{"k": "é"}'.encode('utf8'), '[☃]'.encode('utf8'),
    MyBytes(b'{}'), MyBytes(b''), MyBytes(b'[1]'), MyBytes(b'{1]'),
]


def check_guess_json():
    for bs in GUESS_CASES:
        for target in (BasicRender, render_basic, BasicRender()):
            got = target._guess_json(bs)
            assert got is reference_guess(bs), (bs, got)
            assert type(got) is bool, (bs, got)


HTML_DOC = '<!doctype html>\n<html><body><p>hi</p></body></html>'
LATE_HTML = (' ' * 200) + '<html><body>late</body></html>'
EDGE_HTML_IN = (' ' * 163) + '<html>'      # '<html' ends exactly at offset 168
EDGE_HTML_OUT = (' ' * 164) + '<html>'     # '<html' is cut by the 168 window

TEXT_CASES = [
    # (endpoint result, expected mimetype)
    ('{"a": 1, "b": [1, 2]}', 'application/json'),
    ('[1, 2, 3]', 'application/json'),
    ('{}', 'application/json'),
    ('[]', 'application/json'),
    ('["<html>"]', 'application/json'),          # JSON wins over HTML sniffing
    ('{"k": "é☃"}', 'application/json'),
    (' {"a": 1}', 'text/plain'),
    ('{"a": 1}\n', 'text/plain'),
    ('{', 'text/plain'),
    ('[', 'text/plain'),
    ('{]', 'text/plain'),
    ('', 'text/plain'),
    ('0', 'text/plain'),
    ('null', 'text/plain'),
    ('Hello, world!', 'text/plain'),
    ('héllo wörld ☃', 'text/plain'),
    (HTML_DOC, 'text/html'),
    ('<html></html>', 'text/html'),
    ('<HTML></HTML>', 'text/plain'),             # sniffing is case sensitive
    (LATE_HTML, 'text/plain'),
    (EDGE_HTML_IN, 'text/html'),
    (EDGE_HTML_OUT, 'text/plain'),
    (b'{"raw": true}', 'application/json'),
    (b'[null]', 'application/json'),
    (b'', 'text/plain'),
    (b'\xff\xfe binary', 'text/plain'),
    (b'<html>bytes</html>', 'text/html'),
    (MyBytes(b'{"sub": 1}'), 'application/json'),
]


def check_text_results():
    routes = []
    for i, (value, _mime) in enumerate(TEXT_CASES):
        routes.append(('/case/%d' % i, (lambda v=value: v), render_basic))
    app = Application(routes)
    client = app.get_local_client()
    for i, (value, mime) in enumerate(TEXT_CASES):
        for suffix, headers in [('', {}),
                                ('?format=json', {}),
                                ('?format=html', {}),
                                ('?format=bogus', {}),   # format is irrelevant for text
                                ('', {'Accept': 'text/html'}),
                                ('', {'Accept': 'application/json'}),
                                ('', {'Accept': 'image/png'})]:
            resp = client.get('/case/%d%s' % (i, suffix), headers=headers)
            assert resp.status_code == 200, (value, suffix, resp.status_code)
            assert resp.mimetype == mime, (value, suffix, resp.mimetype, mime)
            expected_body = value.encode('utf8') if isinstance(value, str) else bytes(value)
            assert resp.get_data() == expected_body, (value, suffix)
            if mime == 'application/json':
                json.loads(resp.get_data(True))


def check_non_text_still_ok():
    # the neighbouring branches: unsized -> text/plain, sized -> JSON
    app = Application([('/none', lambda: None, render_basic),
                       ('/int', lambda: 0, render_basic),
                       ('/float', lambda: 1.5, render_basic),
                       ('/true', lambda: True, render_basic),
                       ('/dict', lambda: {'a': [1, {'b': None}]}, render_basic),
                       ('/list', lambda: [1, 'two', 3.0, None, True], render_basic)])
    client = app.get_local_client()
    for path, body in [('/none', b'None'), ('/int', b'0'), ('/float', b'1.5'), ('/true', b'True')]:
        resp = client.get(path)
        assert (resp.status_code, resp.mimetype, resp.get_data()) == (200, 'text/plain', body)
    resp = client.get('/dict')
    assert resp.status_code == 200 and resp.mimetype == 'application/json'
    assert json.loads(resp.get_data(True)) == {'a': [1, {'b': None}]}
    resp = client.get('/list')
    assert resp.status_code == 200 and resp.mimetype == 'application/json'
    assert json.loads(resp.get_data(True)) == [1, 'two', 3.0, None, True]


def main():
    check_guess_json()
    check_text_results()
    check_non_text_still_ok()
    print('PASS')
    return 0


if __name__ == '__main__':
    sys.exit(main())
