# -*- coding: utf-8 -*-
"""demo3: built-in middlewares never change what the client receives.

Focus: HTTPCacheMiddleware (default and configured) and SimpleProfileMiddleware
(pass-through without its trigger parameter, unchanged behaviour with it), plus
the with/without comparison of the scenario application for every middleware.
Prints PASS and exits 0 when the property holds.
"""
import gzip
import io
import random
import re
import sys

from werkzeug.test import EnvironBuilder
from werkzeug.wrappers import Request

from clastic import Application, GET, Response, redirect, render_basic
from clastic.errors import NotFound, Forbidden, BadRequest, HTTPException
from clastic.middleware import (client_cache, compress, context, cookie,
                                form, profile, stats, url)
from clastic.middleware.client_cache import HTTPCacheMiddleware
from clastic.middleware.profile import SimpleProfileMiddleware


# -- scenario application ----------------------------------------------------

def _text(n):
    return ('lorem ipsum dolor sit amet ' * (n // 27 + 1))[:n]


def _rand(n):
    rng = random.Random(n)
    return bytes(bytearray(rng.getrandbits(8) for _ in range(n)))


def ep_text(size):
    return Response(_text(int(size)), mimetype='text/plain')


def ep_rand(size):
    return Response(_rand(int(size)), mimetype='application/octet-stream')


def ep_ctx():
    return {'greeting': 'hello', 'items': list(range(50)), 'pad': _text(600)}


def ep_redirect():
    return redirect('/text/10')


def ep_raise_404():
    raise NotFound()


def ep_return_403():
    return Forbidden()


def ep_raise_400_detail():
    raise BadRequest('please do not ' + 'x' * 900)


def ep_nonbreaking():
    raise NotFound(is_breaking=False)


def ep_boom():
    raise ValueError('uncaught on purpose')


def ep_empty():
    return Response('', mimetype='text/plain')


def ep_cached():
    resp = Response(_text(800), mimetype='text/plain')
    resp.cache_control.max_age = 77
    resp.cache_control.private = True
    return resp


def ep_stream():
    return Response((chunk for chunk in [_text(1500), _text(1500)]),
                    mimetype='text/plain')


def make_routes():
    return [GET('/text/<size>', ep_text),
            GET('/rand/<size>', ep_rand),
            GET('/ctx', ep_ctx, render_basic),
            GET('/redir', ep_redirect),
            GET('/raise404', ep_raise_404),
            GET('/ret403', ep_return_403),
            GET('/raise400', ep_raise_400_detail),
            GET('/nonbreaking', ep_nonbreaking),
            GET('/boom', ep_boom),
            GET('/empty', ep_empty),
            GET('/cached', ep_cached),
            GET('/stream', ep_stream)]


MW_FACTORIES = {
    'gzip': lambda: compress.GzipMiddleware(),
    'cache': lambda: client_cache.HTTPCacheMiddleware(),
    'stats': lambda: stats.StatsMiddleware(),
    'profile': lambda: profile.SimpleProfileMiddleware(),
    'cookie': lambda: cookie.SignedCookieMiddleware(),
    'ctxproc': lambda: context.ContextProcessor(),
    'simplectx': lambda: context.SimpleContextProcessor(),
    'getparam': lambda: url.GetParamMiddleware({}),
    'postdata': lambda: form.PostDataMiddleware({'lol': str}),
    'scriptroot': lambda: url.ScriptRootMiddleware(),
    # non-default configurations of the two middlewares in focus
    'cache-cfg': lambda: client_cache.HTTPCacheMiddleware(max_age=30, public=True, must_revalidate=True),
    'cache-noetag': lambda: client_cache.HTTPCacheMiddleware(use_etags=False, no_store=True),
    'profile-cfg': lambda: profile.SimpleProfileMiddleware('sortby', 'profileme', raise_exc=False),
}
DEFAULT_NAMES = sorted(n for n in MW_FACTORIES if '-' not in n)

PATHS = ['/text/0', '/text/1', '/text/300', '/text/20000', '/rand/1',
         '/rand/3000', '/ctx', '/redir', '/raise404', '/ret403', '/raise400',
         '/nonbreaking', '/boom', '/empty', '/cached', '/stream',
         '/no/such/url', '/text',
         # query strings that must NOT trigger the profiler
         '/text/300?_prof=', '/text/300?prof=1&_prof_sort=bogus',
         '/ctx?_prof_sort=bogus', '/boom?_prof=', '/nope?_prof=']

ACCEPT_ENCODINGS = [None, 'gzip', 'gzip;q=0', '*', 'identity']

_FRAME_COUNT_RE = re.compile(br'\(\d+ frames, ')


def gunzip(data):
    return gzip.GzipFile(fileobj=io.BytesIO(data)).read()


def fetch(client, method, path, accept_encoding=None):
    headers = {}
    if accept_encoding is not None:
        headers['Accept-Encoding'] = accept_encoding
    resp = client.open(path, method=method, headers=headers)
    return resp, resp.get_data()


def decoded(resp, raw):
    if resp.headers.get('Content-Encoding') == 'gzip':
        raw = gunzip(raw)
    if resp.status_code == 500:
        # the default 500 page mentions the depth of the call stack, which
        # naturally grows by one frame per installed middleware
        raw = _FRAME_COUNT_RE.sub(b'(N frames, ', raw)
    return raw


checked = [0]


def compare(mw_names):
    plain = Application(make_routes()).get_local_client()
    mws = [MW_FACTORIES[n]() for n in mw_names]
    wrapped = Application(make_routes(), middlewares=mws).get_local_client()
    has_gzip = 'gzip' in mw_names
    for path in PATHS:
        for method in ('GET', 'HEAD', 'POST'):
            for enc in ACCEPT_ENCODINGS:
                base_resp, base_raw = fetch(plain, method, path)
                resp, raw = fetch(wrapped, method, path, enc)
                label = (mw_names, method, path, enc)
                assert resp.status_code == base_resp.status_code, label
                assert decoded(resp, raw) == decoded(base_resp, base_raw), label
                if resp.headers.get('Content-Encoding') == 'gzip':
                    assert has_gzip and enc in ('gzip', '*'), label
                    if method != 'HEAD':
                        assert int(resp.headers['Content-Length']) == len(raw), label
                    assert 'accept-encoding' in resp.headers['Vary'].lower(), label
                elif resp.status_code != 500:
                    assert raw == base_raw, label
                checked[0] += 1


# -- direct checks on HTTPCacheMiddleware.request ----------------------------

def make_request(path='/', query_string=None, headers=None):
    builder = EnvironBuilder(path=path, query_string=query_string,
                             headers=headers or {})
    return Request(builder.get_environ())


def directives(resp):
    header = resp.headers.get('Cache-Control')
    if header is None:
        return None
    return set(part.strip() for part in header.split(','))


def direct_cache_checks():
    body = _text(500).encode('utf-8')

    # default configuration: only an ETag is added, nothing else changes
    mw = HTTPCacheMiddleware()
    resp = Response(body, mimetype='text/plain')
    out = mw.request(lambda: resp, make_request())
    assert out is resp and out.status_code == 200 and out.get_data() == body
    assert directives(out) is None
    etag = out.headers['ETag']
    assert etag and out.get_etag()[0] == etag.strip('"')

    # a conditional request with that ETag is answered 304, as before
    resp = Response(body, mimetype='text/plain')
    out = mw.request(lambda: resp, make_request(headers={'If-None-Match': etag}))
    assert out is resp and out.status_code == 304
    resp = Response(body, mimetype='text/plain')
    out = mw.request(lambda: resp, make_request(headers={'If-None-Match': '"other"'}))
    assert out.status_code == 200 and out.get_data() == body

    # configured directives are copied over; falsy ones (0, False, None) are not
    mw = HTTPCacheMiddleware(max_age=30, s_maxage=0, public=True, private=False,
                             no_cache=None, must_revalidate=True)
    resp = Response(body, mimetype='text/plain')
    out = mw.request(lambda: resp, make_request())
    assert directives(out) == set(['max-age=30', 'public', 'must-revalidate']), directives(out)
    assert out.cache_control.max_age == 30 and out.cache_control.s_maxage is None
    assert 'ETag' in out.headers and out.get_data() == body

    # ... and merged with what the endpoint already said
    resp = Response(body, mimetype='text/plain')
    resp.cache_control.no_transform = True
    resp.cache_control.max_age = 5
    out = mw.request(lambda: resp, make_request())
    assert directives(out) == set(['max-age=30', 'public', 'must-revalidate',
                                   'no-transform']), directives(out)

    # every directive at once
    all_on = dict((attr, True) for attr in HTTPCacheMiddleware.cache_attrs)
    all_on.update(max_age=1, s_maxage=2)
    mw = HTTPCacheMiddleware(**all_on)
    resp = Response(body, mimetype='text/plain')
    out = mw.request(lambda: resp, make_request())
    assert directives(out) == set(['max-age=1', 's-maxage=2', 'no-cache', 'no-store',
                                   'no-transform', 'must-revalidate',
                                   'proxy-revalidate', 'public', 'private']), directives(out)
    for attr in HTTPCacheMiddleware.cache_attrs:
        assert getattr(mw, attr) == all_on[attr]

    # use_etags=False: directives only
    mw = HTTPCacheMiddleware(no_store=True, use_etags=False)
    resp = Response(body, mimetype='text/plain')
    out = mw.request(lambda: resp, make_request(headers={'If-None-Match': etag}))
    assert out.status_code == 200 and 'ETag' not in out.headers
    assert directives(out) == set(['no-store'])

    # streamed responses get directives but no ETag, and are not consumed
    consumed = []

    def gen():
        consumed.append(1)
        yield body
    mw = HTTPCacheMiddleware(public=True)
    resp = Response(gen(), mimetype='text/plain')
    out = mw.request(lambda: resp, make_request())
    assert out is resp and 'ETag' not in out.headers and not consumed
    assert directives(out) == set(['public'])
    assert out.get_data() == body

    # empty bodies, redirects
    for resp in (Response(b''), redirect('/x')):
        before = resp.get_data()
        status = resp.status_code
        out = HTTPCacheMiddleware().request(lambda: resp, make_request())
        assert out is resp and out.status_code == status and out.get_data() == before

    # HTTPExceptions and arbitrary objects are handed back untouched
    for obj in (NotFound(), Forbidden('nope'), HTTPException(code=418),
                {'a': 1}, None, 'a string', 0):
        is_exc = isinstance(obj, HTTPException)
        before = (obj.get_data(), obj.status_code, list(obj.headers)) if is_exc else None
        out = HTTPCacheMiddleware(max_age=9, public=True).request(lambda: obj, make_request())
        assert out is obj
        if is_exc:
            assert (obj.get_data(), obj.status_code, list(obj.headers)) == before

    # exceptions from next() propagate unchanged
    def raiser():
        raise Forbidden()
    try:
        HTTPCacheMiddleware().request(raiser, make_request())
    except Forbidden:
        pass
    else:
        raise AssertionError('expected Forbidden')


# -- direct checks on SimpleProfileMiddleware.request ------------------------

def direct_profile_checks():
    body = _text(300)

    def counting_next(result, calls):
        def next_():
            calls.append(1)
            return result
        return next_

    # without the trigger: next() exactly once, result by identity, any object
    mw = SimpleProfileMiddleware()
    for query in (None, '', 'x=1', '_prof=', '_prof_sort=bogus', 'prof=1', '_PROF=1'):
        for obj in (Response(body), NotFound(), {'ctx': 1}, None):
            calls = []
            out = mw.request(counting_next(obj, calls), make_request(query_string=query))
            assert out is obj and calls == [1], (query, obj)
            if isinstance(obj, Response):
                assert obj.get_data(True) == body
    # exceptions pass straight through, too
    def raiser():
        raise ValueError('pass me on')
    for query in (None, '_prof=', '_prof=1', '_prof=1&_prof_sort=name'):
        try:
            mw.request(raiser, make_request(query_string=query))
        except ValueError as ve:
            assert ve.args == ('pass me on',)
        else:
            raise AssertionError('expected ValueError')

    # with the trigger (any non-empty value): profile page, same object
    for query in ('_prof=1', '_prof=true', '_prof=0', '_prof=1&_prof_sort=time',
                  '_prof=&_prof=1'):
        calls = []
        resp = Response(body)
        out = mw.request(counting_next(resp, calls), make_request(query_string=query))
        expect_profiled = not query.startswith('_prof=&')
        assert out is resp and calls == [1]
        text = out.get_data(True)
        if expect_profiled:
            assert text.startswith('<html><body><pre>'), text[:40]
            assert text.endswith('</pre></body</html>'), text[-40:]
            assert 'function calls' in text and 'Ordered by: internal time' in text
            assert out.status_code == 200
        else:
            assert text == body

    # every documented sort key works; an undocumented one is refused up front
    ordered_by = {'cumulative': 'cumulative time', 'file': 'file name',
                  'line': 'line number', 'name': 'function name',
                  'module': 'file name', 'nfl': 'name/file/line',
                  'pcalls': 'primitive call count', 'stdname': 'standard name',
                  'time': 'internal time'}
    assert set(ordered_by) == set(profile._sort_keys)
    for key in sorted(profile._sort_keys):
        resp = Response(body)
        out = mw.request(lambda: resp, make_request(query_string='_prof=1&_prof_sort=' + key))
        assert 'Ordered by: ' + ordered_by[key] in out.get_data(True), key
    for bad in ('bogus', '', 'TIME', 'calls', 'tottime'):
        calls = []
        try:
            mw.request(counting_next(Response(body), calls),
                       make_request(query_string='_prof=1&_prof_sort=' + bad))
        except KeyError as ke:
            expected = ('%s is not a supported sort_key. choose from: %r'
                        % (bad, profile._sort_keys))
            assert ke.args == (expected,), ke.args
            assert calls == []
        else:
            raise AssertionError('expected KeyError for %r' % bad)

    # custom parameter names; the default names then mean nothing
    mw = SimpleProfileMiddleware(sort_param_name='by', get_param_name='go')
    resp = Response(body)
    assert mw.request(lambda: resp, make_request(query_string='_prof=1')).get_data(True) == body
    out = mw.request(lambda: resp, make_request(query_string='go=1&by=pcalls&_prof_sort=bogus'))
    assert 'Ordered by: primitive call count' in out.get_data(True)

    # raise_exc=False swallows the endpoint's exception, then has no response
    mw = SimpleProfileMiddleware(raise_exc=False)
    try:
        mw.request(raiser, make_request(query_string='_prof=1'))
    except UnboundLocalError:
        pass
    else:
        raise AssertionError('expected UnboundLocalError')
    try:
        mw.request(raiser, make_request())
    except ValueError:
        pass
    else:
        raise AssertionError('expected ValueError')

    # a profiled HTTPException keeps its status and gets the profile body
    nf = NotFound()
    out = SimpleProfileMiddleware().request(lambda: nf, make_request(query_string='_prof=1'))
    assert out is nf and out.status_code == 404 and 'function calls' in out.get_data(True)


def profile_app_check():
    mws = [SimpleProfileMiddleware(), HTTPCacheMiddleware(), compress.GzipMiddleware()]
    cl = Application(make_routes(), middlewares=mws).get_local_client()
    resp = cl.get('/text/300?_prof=1')
    assert resp.status_code == 200 and 'function calls' in resp.get_data(True)
    resp = cl.get('/text/300?_prof=1&_prof_sort=bogus')
    assert resp.status_code == 500
    assert 'bogus is not a supported sort_key' in resp.get_data(True)
    resp = cl.get('/boom?_prof=1')
    assert resp.status_code == 500 and 'uncaught on purpose' in resp.get_data(True)
    resp = cl.get('/raise404?_prof=1')
    assert resp.status_code == 404


def main():
    direct_cache_checks()
    direct_profile_checks()
    profile_app_check()
    for name in sorted(MW_FACTORIES):
        compare((name,))
    rng = random.Random(153)
    for _ in range(10):
        stack = rng.sample(DEFAULT_NAMES, rng.randint(2, len(DEFAULT_NAMES)))
        compare(tuple(stack))
    compare(tuple(DEFAULT_NAMES))
    assert checked[0] > 5000, checked[0]
    print('PASS (%d comparisons)' % checked[0])


if __name__ == '__main__':
    main()
    sys.exit(0)
