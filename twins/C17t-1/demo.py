# -*- coding: utf-8 -*-
"""C17 demo 1: render_basic accepts every endpoint result.

Focus: BasicRender.render_response dispatch (str / bytes / Sized / other),
content sniffing (_guess_json, <html within the first 168 bytes), and
_serialize_to_resp (format query parameter, Accept negotiation, default).
"""
import json
import datetime
import collections

from werkzeug.test import EnvironBuilder
from werkzeug.wrappers import Request
from werkzeug.http import parse_accept_header
from werkzeug.datastructures import MIMEAccept

from clastic import Application, Response, render_basic
from clastic.render import BasicRender, JSONRender, TabularRender

CHECKS = [0]


def check(cond, msg):
    CHECKS[0] += 1
    assert cond, msg


def mime(resp):
    return resp.headers['Content-Type'].split(';')[0].strip()


def make_client(value, render=render_basic):
    def endpoint():
        "demo endpoint, see https://example.com/docs"
        return value
    app = Application([('/', endpoint, render)])
    return app.get_local_client()


def get(value, path='/', accept=None, render=render_basic):
    headers = {}
    if accept is not None:
        headers['Accept'] = accept
    return make_client(value, render).get(path, headers=headers)


# ---------------------------------------------------------------- text / bytes

JSON_TEXTS = ['{}', '[]', '{"a": 1}', '[1, 2, 3]', '{"k": "é中"}',
              '[{"a": [1, {"b": null}]}]', '{<html>}', '[<html>]']
HTML_TEXTS = ['<html></html>', '<!doctype html>\n<html><body>hi</body></html>',
              ' ' * 163 + '<html>',           # '<html' ends exactly at byte 168
              '<html>x', 'say <html lang="en"> ok',
              'é' * 81 + '<html>']        # 162 bytes of prefix, 81 chars
PLAIN_TEXTS = ['', ' ', 'hello', 'Hello, wörld 中文', '{', '}', '[', ']',
               '{]', '[}', ' {}', '{} ', '{"a": 1}\n', '\n[1]', '<HTML>', '<htm',
               ' ' * 164 + '<html>',           # '<html' ends at byte 169: too far
               'é' * 82 + '<html>',       # 164 bytes of prefix
               '0', 'null', 'true', '"{}"x', '}{', '][']

for text in JSON_TEXTS + HTML_TEXTS + PLAIN_TEXTS:
    if text in JSON_TEXTS:
        expected = 'application/json'
    elif text in HTML_TEXTS:
        expected = 'text/html'
    else:
        expected = 'text/plain'
    encoded = text.encode('utf8')
    for value in (text, encoded):
        for path, accept in [('/', None), ('/?format=json', None),
                             ('/?format=html', 'text/html'),
                             ('/', 'text/html'), ('/', 'application/json'),
                             ('/?format=xml', None)]:  # format is ignored for text
            resp = get(value, path, accept)
            check(resp.status_code == 200, (text, path, resp.status_code))
            check(mime(resp) == expected, (text, path, mime(resp), expected))
            check(resp.data == encoded, (text, path, resp.data))

# the JSON guess looks at exactly the first and the last byte
for first in b'{[ x':
    for last in b'}] x':
        body = bytes([first]) + b'"<html>"' + bytes([last])
        is_json = (first, last) in [(ord('{'), ord('}')), (ord('['), ord(']'))]
        resp = get(body)
        check(resp.status_code == 200, body)
        check(mime(resp) == ('application/json' if is_json else 'text/html'),
              (body, mime(resp)))
        check(resp.data == body, body)
check(BasicRender._guess_json(b'') is False, 'empty')
check(BasicRender._guess_json(b'{') is False, 'lone brace')
check(BasicRender._guess_json(b'[') is False, 'lone bracket')
check(BasicRender._guess_json(b'{}') is True, 'obj')
check(BasicRender._guess_json(b'[]') is True, 'arr')
check(render_basic._guess_json(b'[}') is False, 'mixed')

# ---------------------------------------------------------- unsized -> str()


class Plain(object):
    def __repr__(self):
        return '<Plain über>'


class Stringy(object):
    def __str__(self):
        return '{"looks": "like json"}'


def gen():
    yield 1


unsized = [0, 1, -7, 2 ** 70, 0.0, 1.5, -2.5e-7, True, False, None, 3 + 4j,
           datetime.datetime(2020, 1, 2, 3, 4, 5), datetime.date(1999, 12, 31),
           Plain(), Stringy(), gen(), iter([1, 2]), len, Plain, Ellipsis]
for value in unsized:
    wanted = str(value).encode('utf8')
    for path, accept in [('/', None), ('/?format=html', None),
                         ('/?format=json', 'text/html'), ('/?format=bogus', None),
                         ('/', 'text/html,application/xhtml+xml;q=0.9,*/*;q=0.8')]:
        resp = get(value, path, accept)
        check(resp.status_code == 200, (value, path))
        # not sniffed: even JSON-looking str() output stays text/plain
        check(mime(resp) == 'text/plain', (value, path, mime(resp)))
        check(resp.data == wanted, (value, path, resp.data))

# a Response goes through untouched
passthru = get(Response('{"a": 1}', status=202, mimetype='text/x-custom'))
check(passthru.status_code == 202 and mime(passthru) == 'text/x-custom', 'resp')

# ------------------------------------------------- sized -> negotiated format


class Sizeable(object):  # Sized but neither Mapping nor Iterable
    def __len__(self):
        return 3

    def __repr__(self):
        return 'Sizeable()'


flat = {'name': 'wörld', 'n': 1, 'pi': 3.25, 'none': None, 'flag': True}
SIZED = [
    ({}, {}), ([], []), ((), []), (flat, flat),
    ([1, 2, 3], [1, 2, 3]), ((1, 'a', None), [1, 'a', None]),
    ([flat, flat], [flat, flat]), ([[1, 2], [3, 4]], [[1, 2], [3, 4]]),
    ({'a': {'b': [1, {'c': None}]}, 'e': []}, {'a': {'b': [1, {'c': None}]}, 'e': []}),
    (collections.OrderedDict([('z', 1), ('a', 2)]), {'z': 1, 'a': 2}),
    ({1, }, [1]), (frozenset(['x']), ['x']), (range(3), [0, 1, 2]),
    (collections.deque([1, 2]), [1, 2]),
    ({'when': datetime.datetime(2020, 1, 2, 3, 4, 5)}, {'when': '2020-01-02T03:04:05'}),
    ({'obj': Plain()}, {'obj': '<Plain über>'}),
    (Sizeable(), 'Sizeable()'),
]
JSON_REQUESTS = [('/', None), ('/?format=json', None), ('/?format=', None),
                 ('/?format=json', 'text/html'), ('/', 'application/json'),
                 ('/', ''), ('/', 'image/png'), ('/', 'text/plain'),
                 ('/', 'application/json, text/html;q=0.9'),
                 ('/', 'text/html;q=0.5, application/json;q=0.6'),
                 ('/?other=html', None)]
for value, parsed in SIZED:
    for path, accept in JSON_REQUESTS:
        resp = get(value, path, accept)
        check(resp.status_code == 200, (value, path, accept))
        check(mime(resp) == 'application/json', (value, path, accept, mime(resp)))
        check(json.loads(resp.get_data(True)) == parsed, (value, path, resp.data))

TABULAR = [flat, {}, [1, 2, 3], ['a', 'b'], [flat, flat], [[1, 2], [3, 4]],
           (1, 2), [{'a': 1, 'b': 2}, {'a': 3, 'b': 4}]]
HTML_REQUESTS = [('/?format=html', None), ('/?format=html', 'application/json'),
                 ('/', 'text/html'), ('/', 'text/html, application/json;q=0.9'),
                 ('/', 'text/html,application/xhtml+xml,application/xml;q=0.9,*/*;q=0.8'),
                 ('/', 'application/json;q=0.1, text/html;q=0.2')]
for value in TABULAR:
    for path, accept in HTML_REQUESTS:
        resp = get(value, path, accept)
        body = resp.get_data(True)
        check(resp.status_code == 200, (value, path, accept))
        check(mime(resp) == 'text/html', (value, path, accept, mime(resp)))
        check(body.startswith('<html>') and body.rstrip().endswith('</html>'), body[:40])
        check('<table class="clastic-atr-table">' in body, (value, path))
        check('<a href="https://example.com/docs">' in body, 'docstring title')

# Accept headers whose outcome hinges on werkzeug's matching rules: compare
# with werkzeug's own negotiation over the two supported types
for accept in ['*/*', 'text/*', 'application/*', 'text/html;q=0', '*/*;q=0.1',
               'application/json;q=0.5, */*', 'text/html;q=0.3, text/*;q=0.9',
               'application/xml, text/x-foo', 'TEXT/HTML', 'garbage', ';;;', 'a/b;q=x']:
    accepted = parse_accept_header(accept, MIMEAccept)
    want = accepted.best_match(['text/html', 'application/json'])
    if want is None:
        want = 'application/json'
    for value in ([flat, flat], [1, 2, 3]):
        resp = get(value, '/', accept)
        check(resp.status_code == 200, (value, accept))
        check(mime(resp) == want, (value, accept, mime(resp), want))
        if want == 'application/json':
            check(json.loads(resp.get_data(True)) == value, (value, accept))
        else:
            check('<table class="clastic-atr-table">' in resp.get_data(True), accept)

# unsupported format -> ValueError naming the known formats (500 via the app;
# raised as such when the renderer is called directly)
for bad in ['xml', 'HTML', 'Json', 'text', 'html,json']:
    resp = get(flat, '/?format=' + bad)
    check(resp.status_code == 500, (bad, resp.status_code))
    request = Request(EnvironBuilder(path='/', query_string={'format': bad}).get_environ())
    try:
        render_basic(flat, request, None)
    except ValueError as ve:
        check(str(ve) == "format expected one of dict_keys(['html', 'json']), not %r" % bad,
              str(ve))
    else:
        check(False, 'no ValueError for %r' % bad)

# direct calls (no app): same object under both names, request only used if Sized
check(BasicRender.__call__ is BasicRender.render_response, 'alias')
resp = render_basic('plain', None, None)
check(resp.mimetype == 'text/plain' and resp.data == b'plain', 'direct str')
resp = render_basic(7, None, None)
check(resp.mimetype == 'text/plain' and resp.data == b'7', 'direct int')
request = Request(EnvironBuilder(path='/', headers={'Accept': 'text/html'}).get_environ())
resp = render_basic([1, 2], request, None)  # no route: no title
check(resp.mimetype == 'text/html' and '<h2>' not in resp.get_data(True), 'direct html')

# configuration: custom query parameter, custom sub-renderers, subclass maps
custom = BasicRender(qp_name='fmt', json_render=JSONRender(dev_mode=False),
                     tabular_render=TabularRender(max_depth=2))
check(mime(get(flat, '/?fmt=html', render=custom)) == 'text/html', 'fmt html')
check(mime(get(flat, '/?format=html', render=custom)) == 'application/json', 'fmt ignored')
check(get({'o': Plain()}, '/', render=custom).status_code == 500, 'non-dev encoder')
check(get(flat, '/?fmt=nope', render=custom).status_code == 500, 'fmt bad')
check(sorted(custom.formats) == ['html', 'json'], 'formats')
check(sorted(custom.mimetypes) == ['application/json', 'text/html'], 'mimetypes')
check(custom._mime_format_map == {'application/json': 'json', 'text/html': 'html'}, 'inverse')
try:
    BasicRender(bogus=1)
except TypeError:
    check(True, '')
else:
    check(False, 'unexpected kwarg accepted')


class TextyRender(BasicRender):
    _default_mime = 'text/plain'
    _format_mime_map = dict(BasicRender._format_mime_map, text='text/plain')


texty = TextyRender()
for path, accept, want in [('/', None, 'text/plain'), ('/?format=text', None, 'text/plain'),
                           ('/?format=json', None, 'application/json'),
                           ('/', 'text/plain', 'text/plain'), ('/', 'image/png', 'text/plain'),
                           ('/', 'text/html', 'text/html')]:
    resp = get([1, 2], path, accept, render=texty)
    check(resp.status_code == 200 and mime(resp) == want, (path, accept, mime(resp)))
    if want == 'text/plain':
        check(resp.data == b'[1, 2]', resp.data)

print('PASS (%d checks)' % CHECKS[0])
