# -*- coding: utf-8 -*-
"""demo2: property C06 with the focus on clastic/route.py: Route method
normalisation (GET implies HEAD, case-insensitivity), BoundRoute.match_method,
BoundRoute.match_path and NullRoute.handle_sentinel_condition (last
non-breaking error, else 405, else 404).
"""
import itertools
import sys

from werkzeug.wrappers import Response

from clastic import Application, Route
from clastic.application import DispatchState
from clastic.route import InvalidMethod, NullRoute, HTTP_METHODS
from clastic.errors import (Forbidden, NotFound, MethodNotAllowed,
                            ErrorHandler)


def ok(marker):
    def endpoint():
        return Response(marker, headers={'X-Route': marker})
    return endpoint


def nb(exc_type, marker, raising=True):
    def endpoint():
        exc = exc_type(marker, headers={'X-Route': marker}, is_breaking=False)
        if raising:
            raise exc
        return exc
    return endpoint


def method_normalisation():
    ep = ok('x')
    assert Route('/x', ep).methods is None
    assert Route('/x', ep, methods=None).methods is None
    empty_list, empty_tuple = [], ()
    assert Route('/x', ep, methods=empty_list).methods is empty_list
    assert Route('/x', ep, methods=empty_tuple).methods is empty_tuple
    assert Route('/x', ep, methods='').methods == ''

    cases = [(['get'], {'GET', 'HEAD'}),
             (['GET'], {'GET', 'HEAD'}),
             (('Get', 'HEAD'), {'GET', 'HEAD'}),
             (['post', 'Put'], {'POST', 'PUT'}),
             (['HEAD'], {'HEAD'}),
             ({'delete'}, {'DELETE'}),
             (frozenset(['patch', 'get']), {'PATCH', 'GET', 'HEAD'}),
             (['GET', 'get', 'GeT'], {'GET', 'HEAD'}),
             (sorted(HTTP_METHODS), set(HTTP_METHODS))]
    for given, expected in cases:
        got = Route('/x', ep, methods=given).methods
        assert type(got) is set and got == expected, (given, got)
        assert got is not given

    # generators are truthy, even when exhausted / empty
    got = Route('/x', ep, methods=(m for m in ['get'])).methods
    assert type(got) is set and got == {'GET', 'HEAD'}
    got = Route('/x', ep, methods=iter([])).methods
    assert type(got) is set and got == set()

    # the caller's collection is not modified
    given = {'get'}
    Route('/x', ep, methods=given)
    assert given == {'get'}

    for bad in (['FOO'], ['GET', 'BREW'], 'GET', ['G E T'], [''], ['get ']):
        try:
            Route('/x', ep, methods=bad)
        except InvalidMethod as im:
            assert isinstance(im, ValueError)
            assert str(im).startswith('unrecognized HTTP method(s): [')
        else:
            raise AssertionError('expected InvalidMethod for %r' % (bad,))
    try:
        Route('/x', ep, methods=['FOO', 'GET'])
    except InvalidMethod as im:
        assert str(im) == "unrecognized HTTP method(s): ['FOO']"
    for bad, exc_type in (([1], AttributeError), ([None], AttributeError), (5, TypeError)):
        try:
            Route('/x', ep, methods=bad)
        except exc_type:
            pass
        else:
            raise AssertionError('expected %r for %r' % (exc_type, bad))
    # unexpected kwargs are reported before methods are looked at
    try:
        Route('/x', ep, methods=['FOO'], bogus=1)
    except InvalidMethod:
        raise AssertionError('kwargs check comes first')
    except TypeError:
        pass


def match_method_unit():
    combos = [(None, 'GET', True), (None, 'FOO', True), (None, None, True),
              ([], 'GET', True), (iter([]), 'PUT', True),
              (['GET'], 'GET', True), (['GET'], 'get', True),
              (['GET'], 'HEAD', True), (['GET'], 'head', True),
              (['GET'], 'POST', False), (['GET'], 'FOO', False),
              (['GET'], '', True), (['GET'], None, True),
              (['HEAD'], 'GET', False), (['HEAD'], 'hEaD', True),
              (['post', 'put'], 'Put', True), (['post', 'put'], 'GET', False),
              (['post', 'put'], 'HEAD', False), (['post'], 'POSTX', False),
              (['post'], ' post', False)]
    for methods, method, expected in combos:
        app = Application([Route('/x', ok('x'), methods=methods)])
        bound = app.routes[0]
        assert bound.methods is bound.unbound_route.methods
        got = bound.match_method(method)
        assert got is expected, (methods, method, got)
    # the null route admits everything
    null_route = Application()._null_route
    assert null_route.methods is None
    for method in ('GET', 'FOO', '', None):
        assert null_route.match_method(method) is True


def match_path_unit():
    app = Application([Route('/<name>', ok('a')),
                       Route('/n/<num:int>', ok('b')),
                       Route('/a', ok('c')),
                       Route('/p/<rest*>', ok('d'))])
    named, num, lit, rest = app.routes
    assert named.match_path('/c') == {'name': 'c'}
    assert named.match_path('/a/b') is None
    first, second = lit.match_path('/a'), lit.match_path('/a')
    assert first == {} and second == {} and first is not second
    assert lit.match_path('/b') is None
    assert num.match_path('/n/12') == {'num': 12}
    assert num.match_path('/n/abc') is None
    assert num.match_path('/n/') is None
    assert rest.match_path('/p/x/y') == {'rest': ['x', 'y']}
    assert app._null_route.match_path('/anything/at/all') is not None
    assert app._null_route.match_path('/') is not None


def sentinel_unit():
    class MyNotFound(NotFound):
        pass

    class MyMNA(MethodNotAllowed):
        pass

    class MyHandler(ErrorHandler):
        not_found_type = MyNotFound
        method_not_allowed_type = MyMNA

    for handler, nf_type, mna_type in ((None, NotFound, MethodNotAllowed),
                                       (MyHandler(), MyNotFound, MyMNA)):
        app = Application(error_handler=handler)
        bound_null = app._null_route
        null_route = bound_null.unbound_route
        assert isinstance(null_route, NullRoute)
        sentinel = null_route.handle_sentinel_condition
        assert null_route.endpoint == sentinel

        def call(ds):
            return sentinel(request='REQ', _application=app,
                            _route=bound_null, _dispatch_state=ds)

        # 1. exceptions win, most recent first -- even when methods were collected
        ds = DispatchState()
        e1, e2 = Forbidden(is_breaking=False), NotFound(is_breaking=False)
        ds.add_exception(e1)
        assert call(ds) is e1
        ds.add_exception(e2)
        ds.update_methods({'GET'})
        assert call(ds) is e2
        assert ds.exceptions == [e1, e2]

        # 2. otherwise 405 with a copy of the collected methods
        ds = DispatchState()
        ds.update_methods({'GET', 'HEAD'})
        ds.update_methods({'PUT'})
        ret = call(ds)
        assert type(ret) is mna_type and ret.code == 405
        assert ret.allowed_methods == {'GET', 'HEAD', 'PUT'}
        assert ret.allowed_methods is not ds.allowed_methods
        assert ret.headers['Allow'] == 'GET, HEAD, PUT'
        assert ret.is_breaking is True

        # 3. otherwise 404 which remembers the dispatch state
        ds = DispatchState()
        ret = call(ds)
        assert type(ret) is nf_type and ret.code == 404
        assert ret.dispatch_state is ds
        assert 'Allow' not in ret.headers
        assert ret.is_breaking is True

        # through the WSGI callable
        app.add(Route('/a', ok('r0'), methods=['post']))
        app.add(Route('/<x>', ok('r1'), methods=['DELETE', 'get']))
        cl = app.get_local_client()
        resp = cl.put('/a')
        assert resp.status_code == 405 and resp.headers['Allow'] == 'DELETE, GET, HEAD, POST'
        resp = cl.put('/b')
        assert resp.status_code == 405 and resp.headers['Allow'] == 'DELETE, GET, HEAD'
        resp = cl.put('/a/b')
        assert resp.status_code == 404 and 'Allow' not in resp.headers


def exhaustive_small_tables():
    """every table of <= 3 routes over a small catalogue, all requests"""
    catalogue = [('/a', None, 'ok'), ('/a', ['get'], 'ok'), ('/<x>', ['POST'], 'ok'),
                 ('/<x>', None, 'nb403'), ('/a', ['PUT', 'post'], 'nb404ret'),
                 ('/b', ['GET'], 'ok')]
    requests = [(p, m) for p in ('/a', '/b', '/a/a') for m in
                ('GET', 'head', 'POST', 'put', 'BREW')]

    def pattern_matches(pattern, path):
        if pattern == '/<x>':
            return path.count('/') == 1 and len(path) > 1
        return pattern == path

    def expected(table, path, method):
        last_nb, allowed = None, set()
        for i, (pattern, methods, kind) in enumerate(table):
            if not pattern_matches(pattern, path):
                continue
            if methods:
                mset = set(m.upper() for m in methods)
                if 'GET' in mset:
                    mset.add('HEAD')
                if method.upper() not in mset:
                    allowed |= mset
                    continue
            if kind == 'ok':
                return (200, 'r%d' % i, None)
            last_nb = (403 if kind == 'nb403' else 404, 'r%d' % i, None)
        if last_nb:
            return last_nb
        if allowed:
            return (405, None, ', '.join(sorted(allowed)))
        return (404, None, None)

    def endpoint_for(kind, marker):
        if kind == 'ok':
            return ok(marker)
        if kind == 'nb403':
            return nb(Forbidden, marker)
        return nb(NotFound, marker, raising=False)

    count = 0
    for size in range(0, 4):
        for table in itertools.product(catalogue, repeat=size):
            app = Application()
            for i, (pattern, methods, kind) in enumerate(table):
                app.add(Route(pattern, endpoint_for(kind, 'r%d' % i), methods=methods))
            cl = app.get_local_client()
            for path, method in requests:
                resp = cl.open(path, method=method)
                got = (resp.status_code, resp.headers.get('X-Route'), resp.headers.get('Allow'))
                assert got == expected(table, path, method), (table, path, method, got)
                count += 1
    assert count == (1 + 6 + 36 + 216) * len(requests)


def main():
    method_normalisation()
    match_method_unit()
    match_path_unit()
    sentinel_unit()
    exhaustive_small_tables()
    print('PASS')
    return 0


if __name__ == '__main__':
    sys.exit(main())
