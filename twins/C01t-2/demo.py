# -*- coding: utf-8 -*-
"""demo2: hand-written scenarios for the per-phase availability sets of
make_middleware_chain (request / endpoint / render), the three "unresolved"
NameErrors, the reserved-'next' NameError, their relative order, and the
catch-all route that runs application-level middlewares without URL bindings.
"""
import ast
import sys

from clastic import Application, Route, Middleware, Response, BaseResponse
from clastic.errors import ErrorHandler
from clastic.middleware.core import make_middleware_chain

LOG = []


def reraiser():
    return ErrorHandler(reraise_uncaught=True)


def build(routes, resources=None, middlewares=None):
    return Application(routes, resources, middlewares, error_handler=reraiser())


def expect_name_error(func, *fragments):
    try:
        func()
    except NameError as ne:
        assert type(ne) is NameError, type(ne)
        msg = str(ne)
        for frag in fragments:
            assert frag in msg, (frag, msg)
        return msg
    raise AssertionError('expected NameError mentioning %r' % (fragments,))


def unresolved_names(msg):
    return sorted(ast.literal_eval(msg.split(': ', 1)[1]))


def get(app, path='/x/uval'):
    del LOG[:]
    resp = app.get_local_client().get(path)
    return resp.status_code, resp.get_data(as_text=True), list(LOG)


# ---------------------------------------------------------------- middlewares

class ProvP(Middleware):
    provides = ('p',)

    def request(self, next):
        LOG.append(('ProvP.request',))
        return next(p='P')


class NeedP(Middleware):
    def request(self, next, p):
        LOG.append(('NeedP.request', p))
        return next()


class ProvQFromP(Middleware):
    provides = ('q',)

    def request(self, next, p):
        LOG.append(('ProvQFromP.request', p))
        return next(q=p + 'Q')


class EpProvE(Middleware):
    endpoint_provides = ('e',)

    def endpoint(self, next, p='nop'):
        LOG.append(('EpProvE.endpoint', p))
        return next(e='E')


class RnProvT(Middleware):
    render_provides = ('t',)

    def render(self, next, context, request):
        LOG.append(('RnProvT.render', context))
        return next(t='T')


class OnlyDeclares(Middleware):
    # declares provides but has no request function: nothing is provided
    provides = ('p',)


class NeedU(Middleware):
    def request(self, next, u):
        LOG.append(('NeedU.request', u))
        return next()


class NeedCtxInRequest(Middleware):
    def request(self, next, context):
        return next()


class OptLater(Middleware):
    # optional parameter that only a *later* endpoint middleware provides
    def endpoint(self, next, e='unset', *, request):
        LOG.append(('OptLater.endpoint', e, type(request).__name__))
        return next()


class AllPhases(Middleware):
    provides = ('a1',)
    endpoint_provides = ('a2',)
    render_provides = ('a3',)

    def request(self, next, request, res='nores'):
        LOG.append(('AllPhases.request', res))
        return next(a1=1)

    def endpoint(self, next, a1, *, u):
        LOG.append(('AllPhases.endpoint', a1, u))
        return next(a2=a1 + 1)

    def render(self, next, a1, context, zzz=0):
        LOG.append(('AllPhases.render', a1, zzz))
        return next(a3=a1 + 2)


# ------------------------------------------------------ endpoints and renders

def ep_plain():
    LOG.append(('ep_plain',))
    return {'k': 'v'}


def ep_p(p):
    LOG.append(('ep_p', p))
    return {'p': p}


def ep_pq(p, q, u):
    LOG.append(('ep_pq', p, q, u))
    return {'p': p, 'q': q, 'u': u}


def ep_e(e, p='dflt_p'):
    LOG.append(('ep_e', e, p))
    return {'e': e}


def ep_t(t):
    return {}


def ep_context(context):
    return {}


def ep_next(next):
    return {}


def ep_next_opt(u, next=None):
    return {}


def ep_next_kw(*, next):
    return {}


def ep_next_and_missing(next, missing):
    return {}


def ep_response(request):
    LOG.append(('ep_response',))
    return Response('direct')


def ep_all(a1, a2, u, res, a3='no-a3'):
    LOG.append(('ep_all', a1, a2, u, res, a3))
    return {'sum': a1 + a2}


def rn_plain(context):
    LOG.append(('rn_plain', context))
    return Response('rendered')


def rn_p(context, p):
    LOG.append(('rn_p', p))
    return Response('p=' + p)


def rn_e(context, e):
    return Response('e')


def rn_t(context, t, q='noq'):
    LOG.append(('rn_t', t, q))
    return Response('t=' + t)


def rn_nocontext():
    LOG.append(('rn_nocontext',))
    return Response('nocontext')


def rn_next(context, next):
    return Response('x')


def rn_missing(context, missing_rn):
    return Response('x')


def rn_all(context, a1, a3, a2='no-a2', *, _route):
    LOG.append(('rn_all', a1, a3, a2))
    return Response('all')


def main():
    R = Route

    # --- 'next' is reserved in endpoint and render, whatever its kind
    for ep in (ep_next, ep_next_opt, ep_next_kw, ep_next_and_missing):
        expect_name_error(lambda: build([R('/x/<u>', ep, rn_plain)]), "'next' reserved", ep.__name__)
    expect_name_error(lambda: build([R('/x/<u>', ep_plain, rn_next)]), "'next' reserved", 'rn_next')
    # endpoint is checked before render
    expect_name_error(lambda: build([R('/x/<u>', ep_next, rn_next)]), "'next' reserved", 'ep_next')

    # --- request phase: order matters
    app = build([R('/x/<u>', ep_plain, rn_plain)], middlewares=[ProvP(), NeedP()])
    assert get(app) == (200, 'rendered', [('ProvP.request',), ('NeedP.request', 'P'),
                                            ('ep_plain',), ('rn_plain', {'k': 'v'})])
    msg = expect_name_error(lambda: build([R('/x/<u>', ep_plain, rn_plain)],
                                          middlewares=[NeedP(), ProvP()]),
                            'unresolved request middleware arguments')
    assert unresolved_names(msg) == ['p']
    msg = expect_name_error(lambda: build([R('/x/<u>', ep_plain, rn_plain)], middlewares=[NeedP()]),
                            'unresolved request middleware arguments')
    assert unresolved_names(msg) == ['p']

    # chained provides; endpoint sees request provides + url; render sees request provides
    app = build([R('/x/<u>', ep_pq, rn_p)], middlewares=[ProvP(), ProvQFromP()])
    assert get(app) == (200, 'p=P', [('ProvP.request',), ('ProvQFromP.request', 'P'),
                                     ('ep_pq', 'P', 'PQ', 'uval'), ('rn_p', 'P')])
    msg = expect_name_error(lambda: build([R('/x/<u>', ep_pq, rn_p)], middlewares=[ProvP()]),
                            'unresolved endpoint middleware arguments')
    assert unresolved_names(msg) == ['q']
    msg = expect_name_error(lambda: build([R('/y', ep_pq, rn_p)], middlewares=[]),
                            'unresolved endpoint middleware arguments')
    assert unresolved_names(msg) == ['p', 'q', 'u']

    # --- provides without the phase function provide nothing
    msg = expect_name_error(lambda: build([R('/x/<u>', ep_p, rn_plain)], middlewares=[OnlyDeclares()]),
                            'unresolved endpoint middleware arguments')
    assert unresolved_names(msg) == ['p']

    # --- endpoint_provides: visible to the endpoint, not to render
    app = build([R('/x/<u>', ep_e, rn_plain)], middlewares=[EpProvE()])
    assert get(app) == (200, 'rendered', [('EpProvE.endpoint', 'nop'), ('ep_e', 'E', 'dflt_p'),
                                            ('rn_plain', {'e': 'E'})])
    app = build([R('/x/<u>', ep_e, rn_plain)], middlewares=[EpProvE(), ProvP()])
    assert get(app) == (200, 'rendered', [('ProvP.request',), ('EpProvE.endpoint', 'P'),
                                            ('ep_e', 'E', 'P'), ('rn_plain', {'e': 'E'})])
    msg = expect_name_error(lambda: build([R('/x/<u>', ep_e, rn_e)], middlewares=[EpProvE()]),
                            'unresolved render middleware arguments')
    assert unresolved_names(msg) == ['e']

    # --- render_provides: visible to render only
    app = build([R('/x/<u>', ep_plain, rn_t)], middlewares=[RnProvT()])
    assert get(app) == (200, 't=T', [('ep_plain',), ('RnProvT.render', {'k': 'v'}), ('rn_t', 'T', 'noq')])
    app = build([R('/x/<u>', ep_plain, rn_t)], middlewares=[RnProvT(), ProvP(), ProvQFromP()])
    assert get(app)[2][-1] == ('rn_t', 'T', 'PQ')
    msg = expect_name_error(lambda: build([R('/x/<u>', ep_t, rn_plain)], middlewares=[RnProvT()]),
                            'unresolved endpoint middleware arguments')
    assert unresolved_names(msg) == ['t']

    # --- 'context' exists only in the render phase
    msg = expect_name_error(lambda: build([R('/x/<u>', ep_context, rn_plain)]),
                            'unresolved endpoint middleware arguments')
    assert unresolved_names(msg) == ['context']
    msg = expect_name_error(lambda: build([R('/x/<u>', ep_plain, rn_plain)],
                                          middlewares=[NeedCtxInRequest()]),
                            'unresolved request middleware arguments')
    assert unresolved_names(msg) == ['context']
    app = build([R('/x/<u>', ep_plain, rn_nocontext)])
    assert get(app) == (200, 'nocontext', [('ep_plain',), ('rn_nocontext',)])

    # --- phase order of the checks: endpoint, then render, then request
    # (route-level middleware, so that the catch-all route is not what fails)
    expect_name_error(lambda: build([R('/x/<u>', ep_t, rn_missing, middlewares=[NeedP()])]),
                      'unresolved endpoint middleware arguments')
    expect_name_error(lambda: build([R('/x/<u>', ep_plain, rn_missing, middlewares=[NeedP()])]),
                      'unresolved render middleware arguments', 'missing_rn')
    expect_name_error(lambda: build([R('/x/<u>', ep_plain, rn_plain, middlewares=[NeedP()])]),
                      'unresolved request middleware arguments')
    expect_name_error(lambda: build([R('/x/<u>', ep_next_and_missing, rn_missing, middlewares=[NeedP()])]),
                      "'next' reserved")
    # application-level: the catch-all route is bound first and fails in its request phase
    expect_name_error(lambda: build([R('/x/<u>', ep_t, rn_missing)], middlewares=[NeedP()]),
                      'unresolved request middleware arguments')

    # --- an endpoint returning a response skips render at run time, not at bind time
    app = build([R('/x/<u>', ep_response, rn_p)], middlewares=[ProvP()])
    assert get(app) == (200, 'direct', [('ProvP.request',), ('ep_response',)])
    expect_name_error(lambda: build([R('/x/<u>', ep_response, rn_p)]),
                      'unresolved render middleware arguments')

    # --- optional parameter that only a later middleware provides keeps its default
    app = build([R('/x/<u>', ep_e, rn_plain)], middlewares=[OptLater(), EpProvE()])
    assert get(app) == (200, 'rendered', [('OptLater.endpoint', 'unset', 'Request'),
                                            ('EpProvE.endpoint', 'nop'), ('ep_e', 'E', 'dflt_p'),
                                            ('rn_plain', {'e': 'E'})])
    app = build([R('/x/<u>', ep_e, rn_plain)], middlewares=[EpProvE(), OptLater()])
    assert get(app)[2][:2] == [('EpProvE.endpoint', 'nop'), ('OptLater.endpoint', 'E', 'Request')]

    # --- resources, at application and at route level
    app = build([R('/x/<u>', ep_all, rn_all, middlewares=[AllPhases()])], {'res': 'RES'})
    assert get(app) == (200, 'all', [('AllPhases.request', 'RES'), ('AllPhases.endpoint', 1, 'uval'),
                                     ('ep_all', 1, 2, 'uval', 'RES', 'no-a3'),
                                     ('AllPhases.render', 1, 0), ('rn_all', 1, 3, 'no-a2')])
    msg = expect_name_error(lambda: build([R('/x/<u>', ep_all, rn_all, middlewares=[AllPhases()])], {}),
                            'unresolved endpoint middleware arguments')
    assert unresolved_names(msg) == ['res']
    # application-level: the catch-all route has no 'u' for AllPhases.endpoint
    msg = expect_name_error(lambda: build([R('/x/<u>', ep_all, rn_all)], {'res': 'RES'}, [AllPhases()]),
                            'unresolved endpoint middleware arguments')
    assert unresolved_names(msg) == ['u']
    app = build([R('/x/<u>', ep_all, rn_all, resources={'res': 'ROUTE'}, middlewares=[AllPhases()])])
    assert get(app)[2][0] == ('AllPhases.request', 'ROUTE')
    assert get(app)[2][2] == ('ep_all', 1, 2, 'uval', 'ROUTE', 'no-a3')

    # --- the catch-all route runs application middlewares without URL bindings
    msg = expect_name_error(lambda: build([R('/x/<u>', ep_plain, rn_plain)], middlewares=[NeedU()]),
                            'unresolved request middleware arguments')
    assert unresolved_names(msg) == ['u']
    expect_name_error(lambda: build([], middlewares=[NeedU()]), 'unresolved request middleware arguments')
    expect_name_error(lambda: build([], middlewares=[AllPhases()]), 'unresolved endpoint middleware arguments')
    app = build([R('/x/<u>', ep_plain, rn_plain, middlewares=[NeedU()])], middlewares=[ProvP(), NeedP()])
    assert get(app) == (200, 'rendered', [('ProvP.request',), ('NeedP.request', 'P'),
                                            ('NeedU.request', 'uval'), ('ep_plain',),
                                            ('rn_plain', {'k': 'v'})])
    status, _, log = get(app, '/not/there')
    assert (status, log) == (404, [('ProvP.request',), ('NeedP.request', 'P')])
    del LOG[:]
    resp = app.get_local_client().post('/x/uval')
    assert resp.status_code == 200
    app = build([Route('/x/<u>', ep_plain, rn_plain, methods=['POST'])], middlewares=[ProvP(), NeedP()])
    status, _, log = get(app)
    assert (status, log) == (405, [('ProvP.request',), ('NeedP.request', 'P')])

    # --- add() after construction applies the same check
    app = build([], middlewares=[ProvP()])
    app.add(R('/x/<u>', ep_p, rn_p))
    expect_name_error(lambda: app.add(R('/z/<u>', ep_pq, rn_p)), 'unresolved endpoint middleware arguments')
    expect_name_error(lambda: app.add(('/z2', ep_next, rn_plain)), "'next' reserved")
    assert len(app.routes) == 1
    assert get(app) == (200, 'p=P', [('ProvP.request',), ('ep_p', 'P'), ('rn_p', 'P')])

    # --- make_middleware_chain used directly
    chain = make_middleware_chain([ProvP(), ProvQFromP(), EpProvE(), RnProvT()], ep_pq, rn_t,
                                  ['u', 'request', 'next', 'context'])
    del LOG[:]
    resp = chain(u='U', request='REQ')
    assert isinstance(resp, BaseResponse) and resp.get_data(as_text=True) == 't=T'
    assert LOG == [('ProvP.request',), ('ProvQFromP.request', 'P'), ('EpProvE.endpoint', 'P'),
                   ('ep_pq', 'P', 'PQ', 'U'), ('RnProvT.render', {'p': 'P', 'q': 'PQ', 'u': 'U'}),
                   ('rn_t', 'T', 'PQ')], LOG
    try:
        chain(u='U')
    except TypeError:
        pass
    else:
        raise AssertionError('request is a required argument of the compiled chain')
    # 'next' / 'context' are never taken from preprovided in the request phase
    expect_name_error(lambda: make_middleware_chain([NeedCtxInRequest()], ep_plain, rn_plain,
                                                    ['context', 'next']),
                      'unresolved request middleware arguments')
    expect_name_error(lambda: make_middleware_chain([], ep_context, rn_plain, ['context']),
                      'unresolved endpoint middleware arguments')
    chain = make_middleware_chain((), ep_plain, rn_plain, ())
    assert chain().get_data(as_text=True) == 'rendered'
    chain = make_middleware_chain(iter([ProvP()]), ep_p, rn_p, set())
    # (a one-shot iterator only feeds the request phase; still consistent)
    assert chain().get_data(as_text=True) == 'p=P'

    print('PASS')


if __name__ == '__main__':
    main()
    sys.exit(0)
