# -*- coding: utf-8 -*-
"""demo1: the Flaw failsafe page works for any start-up error text.

Specific focus: the two frame regexes of clastic.flaw (their pattern text,
what they match) and the frames the traceback parser extracts with them.
Prints PASS and exits 0 on unmodified code and with patch1.diff applied.
"""
import sys
import html
import traceback

from werkzeug.test import Client
from werkzeug.wrappers import Response

from clastic import flaw


def esc(text):
    return html.escape(text, True)


def get(app, path='/', method='GET'):
    resp = Client(app, Response).open(path, method=method)
    return resp.status_code, resp.get_data(as_text=True)


def real_tb(exc, depth=0):
    def rec(n):
        if n:
            return rec(n - 1)
        raise exc
    try:
        rec(depth)
    except BaseException:
        return traceback.format_exc()


SE_TB = ('  File "broken.py", line 3\n'
         '    def f(:\n'
         '          ^\n'
         'SyntaxError: invalid syntax\n')

HAND_TB = ('Traceback (most recent call last):\n'
           '  File "/srv/app/run.py", line 10, in <module>\n'
           '    main()\n'
           '  File "/srv/app/my "mod".py", line 7, in main\n'
           "    raise ValueError('v: w')\n"
           'ValueError: v: w\n')

TEXTS = [
    HAND_TB,
    real_tb(ValueError('bad <b>value</b> & "more"'), 0),
    real_tb(KeyError('k'), 3),
    real_tb(RuntimeError('{tb_str} {#parsed_err}x{/parsed_err}'), 1),
    real_tb(OSError(2, 'No such file'), 2),
    real_tb(ZeroDivisionError('division by zero'), 7),
    SE_TB,
    real_tb(NameError('nope'), 2)[:-20],
    real_tb(NameError('a'), 1) + real_tb(TypeError('b: c'), 2),
    'just some text',
    'one\ntwo\nthree: four',
    '<script>alert(1)</script>',
    '{#mon_files}{.}{/mon_files} {>partial/} {~lb} {!c!} {@eq key=1 value=1}y{/eq}',
    '\x00\x01\x7f \t tab',
    u'unicode ☃ snowman: \xe9',
    'Traceback (most recent call last):',
    'Traceback (most recent call last):\n  File "x.py", line 1, in f\nFooError: msg',
    '',
    '   \n  \n',
]
FILES = [None, [], ['/srv/app/a.py'],
         ['/srv/<b>.py', '/srv/a&b.py', '/srv/"q".py', '/s/{x}.py'],
         ['/srv/app/m%03d.py' % i for i in range(60)]]
PATHS = ['/', '/x', '/a/b/c', '/clastic_assetsx', '/%7Bx%7D', '/a//b/']


def check_page(text, files):
    app = flaw.create_app(text, files and list(files))
    for path in PATHS:
        for method in ('GET', 'POST'):
            status, body = get(app, path, method)
            assert status == 200, (status, path, text)
            assert '<pre>%s</pre>' % esc(text) in body, (path, text)
            for fn in files or ():
                assert '<li>%s</li>' % esc(fn) in body, (fn, path)
    return get(app, '/')[1]


def main():
    for text in TEXTS:
        for files in FILES:
            check_page(text, files)

    # standard tracebacks name type and message
    for exc, depth in [(ValueError('bad <b>value</b>'), 0), (KeyError('k'), 3),
                       (RuntimeError('{tb_str}'), 1),
                       (ZeroDivisionError('division by zero'), 9)]:
        text = real_tb(exc, depth)
        body = check_page(text, ['/srv/a.py'])
        last = text.splitlines()[-1]
        etype, _, emsg = last.partition(':')
        assert ('<h2 class="parsed-error-h2">%s<p>%s</p></h2>'
                % (esc(etype), esc(emsg))) in body, body
        assert "<title>Oh, Flaw'd: %s in </title>" % esc(etype) in body
        assert 'unparsed-error-h2' not in body
    body = check_page(SE_TB, None)
    assert '<h2 class="parsed-error-h2">SyntaxError<p> invalid syntax</p></h2>' in body

    # unparseable text falls back to the last line
    body = check_page('one\ntwo\n<three>', None)
    assert '<h2 class="unparsed-error-h2">&lt;three&gt;</h2>' in body
    assert "<title>Oh, Flaw'd:  in </title>" in body
    body = check_page('', None)
    assert '<h2 class="unparsed-error-h2">Unknown error</h2>' in body

    # not text at all
    for text in (None, b'Traceback (most recent call last):\n  File "x.py", line 1, in f\n    y\nFooError: msg',
                 b'\xff\xfe junk', 12, ['a']):
        app = flaw.create_app(text, ['/srv/<a>.py'])
        for path in PATHS:
            status, body = get(app, path)
            assert status == 200, (status, text)
            assert '<li>/srv/&lt;a&gt;.py</li>' in body
    body = get(flaw.create_app(b'Traceback (most recent call last):\n  File "x.py", line 1, in f\n    y\nFooError: msg'))[1]
    assert '<h2 class="parsed-error-h2">FooError<p> msg</p></h2>' in body

    # -- specific to refactoring 1: the frame regexes -------------------
    assert flaw._frame_re.pattern == (r'^File "(?P<filepath>.+)", line (?P<lineno>\d+)'
                                      r', in (?P<funcname>.+)$')
    assert flaw._se_frame_re.pattern == r'^File "(?P<filepath>.+)", line (?P<lineno>\d+)'
    assert flaw._frame_re.flags == flaw._se_frame_re.flags
    m = flaw._frame_re.match('File "a "b".py", line 12, in <module>')
    assert m.groupdict() == {'filepath': 'a "b".py', 'lineno': '12',
                             'funcname': '<module>'}
    assert flaw._frame_re.match('File "a.py", line 12') is None
    assert flaw._frame_re.match(' File "a.py", line 12, in f') is None
    assert flaw._frame_re.match('File "a.py", line x, in f') is None
    m = flaw._se_frame_re.match('File "a.py", line 12, in f')
    assert m.groupdict() == {'filepath': 'a.py', 'lineno': '12'}
    assert flaw._se_frame_re.match('File "", line 12') is None

    ptb = flaw._ParsedTB.from_string(HAND_TB)
    assert (ptb.exc_type, ptb.exc_msg) == ('ValueError', ' v: w')
    assert ptb.frames == [
        {'filepath': '/srv/app/run.py', 'lineno': '10', 'funcname': '<module>',
         'source_line': 'main()'},
        {'filepath': '/srv/app/my "mod".py', 'lineno': '7', 'funcname': 'main',
         'source_line': "raise ValueError('v: w')"}], ptb.frames
    assert ptb.source_file == '/srv/app/my "mod".py'
    # real (py3.11+) tracebacks carry caret lines; the parser must not choke
    ptb = flaw._ParsedTB.from_string(real_tb(ValueError('v: w'), 2))
    assert (ptb.exc_type, ptb.exc_msg) == ('ValueError', ' v: w')
    assert all(sorted(f) == ['filepath', 'funcname', 'lineno', 'source_line']
               for f in ptb.frames)
    assert all(f['filepath'].endswith('demo1.py') for f in ptb.frames)
    ptb = flaw._ParsedTB.from_string(SE_TB)
    assert ptb.to_dict() == {'exc_type': 'SyntaxError',
                             'exc_msg': ' invalid syntax',
                             'frames': [{'filepath': 'broken.py', 'lineno': '3',
                                         'source_line': 'def f(:'}]}
    # odd number of frame lines with a matching last one: IndexError
    try:
        flaw._ParsedTB.from_string('Traceback (most recent call last):\n'
                                   '  File "x.py", line 1, in f\nFooError: msg')
    except IndexError:
        pass
    else:
        assert False, 'expected IndexError'
    for bad, exc_type in [('', IndexError), ('plain', ValueError),
                          (None, AttributeError), (b'\xff', UnicodeDecodeError)]:
        try:
            flaw._ParsedTB.from_string(bad)
        except exc_type:
            pass
        else:
            assert False, bad
    print('PASS')


if __name__ == '__main__':
    main()
    sys.exit(0)
