# -*- coding: utf-8 -*-
"""demo1 -- bind-time dependency check is sound and complete (C01).

Focus of this demo: ``clastic.sinter.inject`` / ``get_arg_names`` (the call
that hands the injectables to the compiled chain and to render_error) plus a
randomised sweep over route configurations that is compared against an
independent scope-simulation model.

Prints PASS and exits 0 when everything holds.
"""
import random
import sys
import warnings

warnings.simplefilter('ignore')

from werkzeug.wrappers import Response

from clastic import Application, Route, GET, POST
from clastic.errors import ErrorHandler
from clastic.middleware import Middleware
from clastic.decorators import clastic_decorator
from clastic.route import RESERVED_ARGS
from clastic import sinter
from clastic.sinter import inject, get_arg_names


LOG = []
BUILTIN_NAMES = ('request', '_application', '_route', '_dispatch_state', 'context')


def norm(name, value):
    if isinstance(value, str) and (value[:2] in ('P:', 'D:', 'R:') or value == 'uval'):
        return value
    return 'B:' + name


# --------------------------------------------------------------------------
# function factory
# --------------------------------------------------------------------------

def param_str(sig, leading=()):
    pos_req = [n for n, k in sig if k == 'req']
    pos_opt = [n for n, k in sig if k == 'opt']
    kw = [(n, k) for n, k in sig if k in ('kwreq', 'kwopt')]
    parts = list(leading) + pos_req
    return parts, pos_opt, kw


def make_fn(fn_id, sig, leading=(), provides=(), result='response'):
    parts, pos_opt, kw = param_str(sig, leading)
    parts = list(parts)
    parts += ['%s=%r' % (n, 'D:%s:%s' % (fn_id, n)) for n in pos_opt]
    if kw:
        parts.append('*')
        for n, k in kw:
            if k == 'kwreq':
                parts.append(n)
            else:
                parts.append('%s=%r' % (n, 'D:%s:%s' % (fn_id, n)))
    names = [n for n, _ in sig]
    seen = 'dict(%s)' % ', '.join(['%s=norm(%r, %s)' % (n, n, n) for n in names])
    if 'next' in leading:
        prov = ', '.join(['%s=%r' % (p, 'P:%s:%s' % (fn_id, p)) for p in provides])
        ret = 'next(%s)' % prov
    elif result == 'response':
        ret = 'Response(%r)' % fn_id
    else:
        ret = '{"from": %r}' % fn_id
    src = ('def fn(%s):\n    LOG.append((%r, %s))\n    return %s\n'
           % (', '.join(parts), fn_id, seen, ret))
    env = {'LOG': LOG, 'norm': norm, 'Response': Response}
    exec(src, env)
    fn = env['fn']
    fn.__name__ = fn_id.replace('.', '_')
    return fn


_MW_COUNTER = [0]


def make_mw(spec):
    """spec: dict phase -> (sig, provides); phases: request/endpoint/render."""
    _MW_COUNTER[0] += 1
    mw_id = 'mw%d' % _MW_COUNTER[0]
    attrs = {}
    prov_attr = {'request': 'provides', 'endpoint': 'endpoint_provides',
                 'render': 'render_provides'}
    for phase, (sig, provides) in spec.items():
        attrs[prov_attr[phase]] = tuple(provides)
        if sig is not None:
            attrs[phase] = make_fn('%s.%s' % (mw_id, phase), sig,
                                   leading=('self', 'next'), provides=provides)
    cls = type('MW_' + mw_id, (Middleware,), attrs)
    inst = cls()
    inst.demo_id = mw_id
    inst.demo_spec = spec
    return inst


# --------------------------------------------------------------------------
# independent model
# --------------------------------------------------------------------------

def model_conflicts(mws, url, resources):
    count = {}
    for n in list(url) + list(RESERVED_ARGS) + list(resources):
        count[n] = count.get(n, 0) + 1
    for mw in mws:
        for phase, (sig, provides) in mw.demo_spec.items():
            for p in provides:
                count[p] = count.get(p, 0) + 1
    return any(c > 1 for c in count.values())


def model_phase(calls, scope):
    """calls: list of (fn_id, sig, provides).  Returns (ok, expected_log)."""
    scope = dict(scope)
    out = []
    for fn_id, sig, provides in calls:
        seen = {}
        for n, k in sig:
            if k in ('req', 'kwreq'):
                if n not in scope:
                    return False, None
                seen[n] = scope[n]
            else:
                seen[n] = scope.get(n, 'D:%s:%s' % (fn_id, n))
        out.append((fn_id, seen))
        for p in provides:
            scope[p] = 'P:%s:%s' % (fn_id, p)
    return True, out


def model_route(mws, ep_id, ep_sig, rn_id, rn_sig, url, resources):
    """Returns (outcome, expected_log) with outcome in 'ok' / 'NameError'."""
    if model_conflicts(mws, url, resources):
        return 'NameError', None
    if 'next' in [n for n, _ in ep_sig] or 'next' in [n for n, _ in rn_sig]:
        return 'NameError', None
    base = {}
    for n in url:
        base[n] = 'uval'
    for n in resources:
        base[n] = 'R:' + n
    for n in ('request', '_application', '_route', '_dispatch_state'):
        base[n] = 'B:' + n

    def calls_of(phase):
        ret = []
        for mw in mws:
            sig, provides = mw.demo_spec.get(phase, (None, ()))
            if sig is not None:
                ret.append(('%s.%s' % (mw.demo_id, phase), sig, provides))
        return ret

    req_calls = calls_of('request')
    ep_scope = dict(base)
    for fn_id, sig, provides in req_calls:
        for p in provides:
            ep_scope[p] = 'P:%s:%s' % (fn_id, p)
    ok, ep_log = model_phase(calls_of('endpoint') + [(ep_id, ep_sig, ())], ep_scope)
    if not ok:
        return 'NameError', None
    rn_scope = dict(ep_scope, context='B:context')
    ok, rn_log = model_phase(calls_of('render') + [(rn_id, rn_sig, ())], rn_scope)
    if not ok:
        return 'NameError', None
    ok, req_log = model_phase(req_calls, base)
    if not ok:
        return 'NameError', None
    return 'ok', req_log + ep_log + rn_log


NULL_EP_SIG = [(n, 'req') for n in ('request', '_application', '_route', '_dispatch_state')]
NOOP_RN_SIG = [('context', 'req')]


# --------------------------------------------------------------------------
# randomised sweep
# --------------------------------------------------------------------------

ALPHA = ['a', 'b', 'c', 'd']


def rand_sig(rng, phase, extra=()):
    pool = ALPHA + ['u', 'r', 'request', '_route'] + list(extra)
    if phase == 'render' or rng.random() < 0.05:
        pool = pool + ['context']
    k = rng.choice([0, 0, 1, 1, 2, 3])
    names = rng.sample(pool, k)
    sig = []
    for n in names:
        kind = rng.choice(['req', 'req', 'req', 'opt', 'opt', 'kwreq', 'kwopt'])
        sig.append((n, kind))
    return sig


def rand_mw(rng, free_names):
    spec = {}
    for phase in ('request', 'endpoint', 'render'):
        r = rng.random()
        if r < 0.5:
            continue
        provides = []
        for _ in range(rng.choice([0, 0, 1, 1, 2])):
            if free_names and rng.random() < 0.93:
                provides.append(free_names.pop())
            else:
                provides.append(rng.choice(ALPHA))  # may conflict
        provides = list(dict.fromkeys(provides))
        if r < 0.55:
            spec[phase] = (None, provides)  # provides declared, no function
        else:
            spec[phase] = (rand_sig(rng, phase), provides)
    return make_mw(spec)


def run_config(rng, stats):
    free = list(ALPHA)
    rng.shuffle(free)
    app_mws = [rand_mw(rng, free) for _ in range(rng.choice([0, 1, 1, 2]))]
    route_mws = [rand_mw(rng, free) for _ in range(rng.choice([0, 0, 1, 2]))]
    resources = {'r': 'R:r'} if rng.random() < 0.7 else {}
    with_url = rng.random() < 0.7
    pattern = '/x/<u>' if with_url else '/x/uval'
    url = ['u'] if with_url else []

    ep_sig = rand_sig(rng, 'endpoint', extra=['_application', '_dispatch_state'])
    if rng.random() < 0.03:
        ep_sig.append(('next', 'req'))
    has_render = rng.random() < 0.6
    if has_render:
        rn_sig = rand_sig(rng, 'render')
        rn = make_fn('rn', rn_sig)
        ep = make_fn('ep', ep_sig, result='context')
    else:
        rn_sig = NOOP_RN_SIG
        rn = None
        ep = make_fn('ep', ep_sig)

    all_mws = app_mws + route_mws
    exp, exp_log = model_route(all_mws, 'ep', ep_sig, 'rn', rn_sig, url, resources)
    null_exp, _ = model_route(app_mws, 'null', NULL_EP_SIG, 'noop', NOOP_RN_SIG,
                              ['_ignored'], resources)
    if null_exp != 'ok':
        exp = 'NameError'
    if not has_render and exp_log is not None:
        # the endpoint answers with a Response: the whole render phase is skipped
        exp_log = [e for e in exp_log if e[0] != 'rn' and not e[0].endswith('.render')]

    def construct(via_add):
        route = Route(pattern, ep, rn, middlewares=route_mws)
        eh = ErrorHandler(reraise_uncaught=True)
        if via_add:
            app = Application([], resources, app_mws, error_handler=eh)
            app.add(route)
        else:
            app = Application([route], resources, app_mws, error_handler=eh)
        return app

    outcomes = []
    app = None
    for via_add in (False, True):
        try:
            app = construct(via_add)
            outcomes.append('ok')
        except NameError:
            outcomes.append('NameError')
        except RuntimeError as e:
            assert 'cycle detected' in str(e), e
            outcomes.append('cycle')
    if 'cycle' in outcomes:
        stats['cycle'] += 1
        return
    if null_exp == 'ok':
        assert outcomes[0] == outcomes[1], outcomes
    else:
        # Application([]) itself fails when the catch-all route cannot be bound
        assert outcomes == ['NameError', 'NameError'], outcomes
    assert outcomes[0] == exp, (outcomes, exp, [m.demo_spec for m in all_mws], ep_sig, rn_sig)
    stats[exp] += 1
    if exp != 'ok':
        return

    cl = app.get_local_client()
    del LOG[:]
    resp = cl.get('/x/uval')
    assert resp.status_code == 200, resp.status_code
    assert LOG == exp_log, (LOG, exp_log)
    # the catch-all: 404 and 405 run the application level middlewares
    del LOG[:]
    resp = cl.get('/nowhere/at/all')
    assert resp.status_code == 404, resp.status_code
    called = [e[0] for e in LOG]
    # (the catch-all endpoint returns an HTTPException, itself a response: no render phase)
    want = ['%s.%s' % (m.demo_id, ph) for ph in ('request', 'endpoint')
            for m in app_mws if m.demo_spec.get(ph, (None,))[0] is not None]
    assert called == want, (called, want)


# --------------------------------------------------------------------------
# direct checks of inject / get_arg_names
# --------------------------------------------------------------------------

def check_inject():
    def f(a, b=2, *, c, d=4):
        return (a, b, c, d)

    assert get_arg_names(f) == ('a', 'b', 'c', 'd')
    assert get_arg_names(f, True) == ('a', 'c')
    assert get_arg_names(f, only_required=True) == ('a', 'c')
    assert isinstance(get_arg_names(f), tuple)
    assert get_arg_names(lambda: None) == ()

    assert inject(f, {'a': 1, 'c': 3}) == (1, 2, 3, 4)
    assert inject(f, {'a': 1, 'c': 3, 'b': 0, 'd': None}) == (1, 0, 3, None)
    # surplus injectables are dropped, falsy values are kept as they are
    assert inject(f, {'a': 0, 'c': '', 'zzz': 1, 'next': 2, 1: 2}) == (0, 2, '', 4)
    # injectables may be an iterable of pairs
    assert inject(f, [('a', 1), ('c', 3), ('q', 9)]) == (1, 2, 3, 4)
    # missing required -> TypeError from the call itself
    for bad in ({}, {'a': 1}, {'c': 1}, {'b': 1, 'd': 2}):
        try:
            inject(f, bad)
        except TypeError:
            pass
        else:
            raise AssertionError('expected TypeError for %r' % (bad,))
    # no parameters at all: everything is dropped
    assert inject(lambda: 'x', {'a': 1, 'b': 2}) == 'x'
    assert inject(lambda: 'x', {}) == 'x'

    # **kwargs functions get everything (string keys)
    def g(a, **kw):
        return a, sorted(kw.items())
    assert inject(g, {'a': 1, 'z': 2, 'y': 3}) == (1, [('y', 3), ('z', 2)])

    # bound methods / callable objects / static / class methods
    class K(object):
        def m(self, a, b=5):
            return ('m', a, b)

        def __call__(self, a, c=6):
            return ('call', a, c)

        @staticmethod
        def s(a, b=7):
            return ('s', a, b)

        @classmethod
        def c(cls, a, b=8):
            return ('c', a, b)

    k = K()
    inj = {'a': 1, 'self': 'nope', 'cls': 'nope', 'other': 0}
    assert inject(k.m, inj) == ('m', 1, 5)
    assert inject(k, inj) == ('call', 1, 6)
    assert inject(K.s, inj) == ('s', 1, 7)
    assert inject(k.s, inj) == ('s', 1, 7)
    assert inject(K.c, inj) == ('c', 1, 8)
    assert get_arg_names(k.m) == ('a', 'b')
    assert get_arg_names(k) == ('a', 'c')
    assert get_arg_names(K.c) == ('a', 'b')

    # clastic_decorator-wrapped: the recorded signature governs what is passed
    @clastic_decorator
    def deco(func):
        def wrapper(*a, **kw):
            return ('wrapped', func(*a, **kw))
        return wrapper

    @deco
    def h(a, b=9):
        return (a, b)
    assert get_arg_names(h) == ('a', 'b')
    assert inject(h, {'a': 1, 'zzz': 3}) == ('wrapped', (1, 9))

    # the injectables mapping is not mutated, the defaults are not aliased
    src = {'a': 1, 'c': 3, 'zzz': 0}
    inject(f, src)
    assert src == {'a': 1, 'c': 3, 'zzz': 0}
    assert inject(f, {'a': 1, 'c': 3}) == (1, 2, 3, 4)

    # not callable
    for bad in (None, 3, 'abc'):
        try:
            get_arg_names(bad)
        except TypeError:
            pass
        else:
            raise AssertionError('expected TypeError')


def check_handwritten():
    eh = lambda: ErrorHandler(reraise_uncaught=True)

    class ProvA(Middleware):
        provides = ('a',)

        def request(self, next):
            return next(a='A')

    # endpoint kinds
    class K(object):
        def m(self, a, u):
            return Response('m:%s:%s' % (a, u))

        def __call__(self, a, r='dflt'):
            return Response('call:%s:%s' % (a, r))

        @staticmethod
        def s(a, *, request):
            return Response('s:%s:%s' % (a, request.path))

        @classmethod
        def c(cls, a, b='B'):
            return Response('c:%s:%s' % (a, b))

    k = K()
    app = Application([('/m/<u>', k.m), ('/call', k), ('/s', K.s), ('/c', K.c),
                       ('/l', lambda a, _route: Response('l:%s' % a))],
                      resources={'r': 'RES'}, middlewares=[ProvA()], error_handler=eh())
    cl = app.get_local_client()
    assert cl.get('/m/7').data == b'm:A:7'
    assert cl.get('/call').data == b'call:A:RES'
    assert cl.get('/s').data == b's:A:/s'
    assert cl.get('/c').data == b'c:A:B'
    assert cl.get('/l').data == b'l:A'
    assert cl.get('/zzz').status_code == 404
    assert cl.post('/zzz').status_code == 404

    # rejection: unknown names, keyword-only required, next in endpoint, context in endpoint
    bad_eps = [lambda zzz: None, lambda a, *, zzz: None, lambda next: None,
               lambda context: None, lambda u: None]
    for ep in bad_eps:
        for build in (lambda: Application([('/', ep)], middlewares=[ProvA()]),
                      lambda: Application([], middlewares=[ProvA()]).add(('/', ep))):
            try:
                build()
            except NameError:
                pass
            else:
                raise AssertionError('expected NameError')
    # ... and accepted when defaulted
    for ep in (lambda zzz=1: Response('k'), lambda a, *, zzz=2: Response('k'),
               lambda u=None: Response('k')):
        app = Application([('/', ep)], middlewares=[ProvA()], error_handler=eh())
        assert app.get_local_client().get('/').data == b'k'

    # app-level middleware that needs a URL binding: the catch-all cannot be bound
    class NeedsU(Middleware):
        def request(self, next, u):
            return next()
    try:
        Application([('/<u>', lambda: Response('x'))], middlewares=[NeedsU()])
    except NameError:
        pass
    else:
        raise AssertionError('expected NameError (catch-all route)')
    app = Application([Route('/<u>', lambda u: Response(u), middlewares=[NeedsU()])],
                      error_handler=eh())
    assert app.get_local_client().get('/q').data == b'q'

    # 405 via the catch-all
    app = Application([POST('/p', lambda: Response('p'))], middlewares=[ProvA()],
                      error_handler=eh())
    assert app.get_local_client().get('/p').status_code == 405
    assert app.get_local_client().post('/p').data == b'p'

    # resource names must not clash with builtins
    for n in RESERVED_ARGS:
        try:
            Application([], resources={n: 1})
        except NameError:
            pass
        else:
            raise AssertionError('expected NameError')


def main():
    check_inject()
    check_handwritten()
    rng = random.Random(20261002)
    stats = {'ok': 0, 'NameError': 0, 'cycle': 0}
    for i in range(700):
        run_config(rng, stats)
    assert stats['ok'] >= 100, stats
    assert stats['NameError'] >= 100, stats
    print('configs: %r' % (stats,))
    print('PASS')


if __name__ == '__main__':
    main()
    sys.exit(0)
