# -*- coding: utf-8 -*-
"""Demo 3 (goes with patch3.diff: _compile_path_pattern split) for C07: trailing-slash redirects lead to the same resource in one hop.

Standalone: run with /venv/bin/python demo<N>.py from the worktree root.
Prints PASS and exits 0 when every assertion holds.
"""
from __future__ import print_function

import itertools
import re
import sys

from werkzeug.test import Client, create_environ
from werkzeug.urls import url_quote, url_unquote, iri_to_uri
from werkzeug.wrappers import Response

import clastic
from clastic import Application, SubApplication, Route, GET, POST
from clastic import S_REDIRECT, S_REWRITE, S_STRICT
from clastic.route import normalize_path, _compile_path_pattern, InvalidPattern, NullRoute, BoundRoute
# public import paths that must keep working
from clastic.application import normalize_path as app_normalize_path
from clastic.application import S_REDIRECT as app_S_REDIRECT, S_STRICT as app_S_STRICT
import clastic.route as route_mod

CHECKS = [0]


def check(cond, msg):
    CHECKS[0] += 1
    if not cond:
        raise AssertionError(msg)


# --------------------------------------------------------------------------
# 1. normalize_path: values, fixed point, import identity
# --------------------------------------------------------------------------

NORM_CASES = [
    # (path, is_branch, expected)
    ('', True, '/'), ('', False, '/'),
    ('/', True, '/'), ('/', False, '/'),
    ('//', True, '/'), ('////', False, '/'),
    ('a', True, '/a/'), ('a', False, '/a'),
    ('/a', True, '/a/'), ('/a', False, '/a'),
    ('/a/', True, '/a/'), ('/a/', False, '/a'),
    ('//a//b//', True, '/a/b/'), ('//a//b//', False, '/a/b'),
    ('/a/b', True, '/a/b/'), ('/a/b/', False, '/a/b'),
    ('/a?b/#c', True, '/a?b/#c/'), ('/%41//%', True, '/%41/%/'),
    (u'/caf\xe9//x y', True, u'/caf\xe9/x y/'), (u'/caf\xe9//x y/', False, u'/caf\xe9/x y'),
    ('/0/', True, '/0/'), ('/ /', True, '/ /'), ('/;/&/=', True, '/;/&/=/'),
]


def test_normalize_path():
    check(app_normalize_path is normalize_path, 'application.normalize_path is route.normalize_path')
    check(route_mod.normalize_path is normalize_path, 'route.normalize_path attr')
    check(app_S_REDIRECT is S_REDIRECT and app_S_STRICT is S_STRICT, 'constants re-exported')
    check((S_REDIRECT, S_REWRITE, S_STRICT) == ('redirect', 'rewrite', 'strict'), 'constant values')
    for path, is_branch, expected in NORM_CASES:
        got = normalize_path(path, is_branch)
        check(got == expected, 'normalize_path(%r, %r) = %r != %r' % (path, is_branch, got, expected))
        check(type(got) is type(expected) or isinstance(got, str), 'type of result')
        # fixed point
        check(normalize_path(got, is_branch) == got, 'fixed point %r' % got)
    # truthiness corner cases for is_branch
    for truthy in (1, 'x', [0]):
        check(normalize_path('/a//b', truthy) == '/a/b/', 'truthy is_branch %r' % (truthy,))
    for falsy in (0, '', None, []):
        check(normalize_path('/a//b/', falsy) == '/a/b', 'falsy is_branch %r' % (falsy,))
    # positional and keyword calling conventions
    check(normalize_path(path='/a//', is_branch=True) == '/a/', 'kwargs call')
    # wrong types raise the same exception class
    for bad in (None, 5, b'/a'):
        try:
            normalize_path(bad, True)
        except (AttributeError, TypeError) as e:
            check(True, 'raises')
            if bad is None or bad == 5:
                check(type(e) is AttributeError, 'AttributeError for %r, got %r' % (bad, e))
            else:
                check(type(e) is TypeError, 'TypeError for bytes, got %r' % (e,))
        else:
            check(False, 'normalize_path(%r) should raise' % (bad,))


# --------------------------------------------------------------------------
# 2. _compile_path_pattern: regexes and errors for each slash mode
# --------------------------------------------------------------------------

STR = r'[^/]+'
INT = r'[+-]?\ *[0-9]+'

REGEX_CASES = [
    ('/', S_REDIRECT, '^/*$'),
    ('/', S_REWRITE, '^/*$'),
    ('/', S_STRICT, '^/$'),
    ('/a', S_REDIRECT, '^/+a/*$'),
    ('/a', S_STRICT, '^/a$'),
    ('/a/', S_REDIRECT, '^/+a/*$'),
    ('/a/', S_REWRITE, '^/+a/*$'),
    ('/a/', S_STRICT, '^/a/$'),
    ('/a/b/', S_REDIRECT, '^/+a/+b/*$'),
    ('/a/b/', S_STRICT, '^/a/b/$'),
    ('/b/<name>/', S_REDIRECT, '^/+b(?P<name>(/+%s))/*$' % STR),
    ('/b/<name>/', S_STRICT, '^/b(?P<name>(/%s))/$' % STR),
    ('/b/<name:str>', S_REWRITE, '^/+b(?P<name>(/+%s))/*$' % STR),
    ('/n/<num:int>/', S_REDIRECT, '^/+n(?P<num>(/+%s))/*$' % INT),
    ('/m/<parts+>/', S_REDIRECT, '^/+m(?P<parts>(/+%s)+)/*$' % STR),
    ('/m/<parts*>', S_STRICT, '^/m(?P<parts>(/%s)*)$' % STR),
    ('/o/<opt?int>', S_REDIRECT, '^/+o(?P<opt>(/+%s)?)/*$' % INT),
    ('/<_ignored*>', S_REWRITE, '^(?P<_ignored>(/+%s)*)/*$' % STR),
    ('/x/<a>/y/<b+unicode>/', S_STRICT, '^/x(?P<a>(/%s))/y(?P<b>(/%s)+)/$' % (STR, STR)),
]

ERROR_CASES = [
    ('a/b', S_REDIRECT, 'must start with a forward'),
    ('', S_REDIRECT, 'must start with a forward'),
    ('/a//b', S_REDIRECT, 'multiple'),
    ('a//b', S_STRICT, 'must start with a forward'),   # first check wins
    ('/<a>/<a>', S_REDIRECT, 'duplicate path binding a'),
    ('/<a>/<a:bogus>', S_REDIRECT, 'duplicate path binding a'),  # duplicate before type
    ('/<a:bogus>', S_REDIRECT, 'unknown type specifier bogus'),
    ('/<a!bogus>', S_REDIRECT, 'unknown type specifier bogus'),  # type before arity
    ('/<a!int>', S_STRICT, "unknown arity operator '!'"),
    ('/<a!>', S_STRICT, "unknown arity operator '!'"),
]


def test_compile_path_pattern():
    for pattern, mode, expected in REGEX_CASES:
        regex, convs = _compile_path_pattern(pattern, mode)
        check(regex.pattern == expected,
              '_compile_path_pattern(%r, %r).pattern = %r != %r' % (pattern, mode, regex.pattern, expected))
        names = re.findall(r'\(\?P<(\w+)>', expected)
        check(list(convs.keys()) == names, 'converter names/order %r vs %r' % (list(convs), names))
        check(all(callable(c) for c in convs.values()), 'converters callable')
    # default mode is rewrite
    check(_compile_path_pattern('/a/')[0].pattern == '^/+a/*$', 'default mode')
    # unknown modes behave like the non-strict ones
    check(_compile_path_pattern('/a/', 'bogus')[0].pattern == '^/+a/*$', 'unknown mode')
    for pattern, mode, needle in ERROR_CASES:
        try:
            _compile_path_pattern(pattern, mode)
        except InvalidPattern as ip:
            check(needle in str(ip), 'error for %r: %r lacks %r' % (pattern, str(ip), needle))
        else:
            check(False, 'expected InvalidPattern for %r' % pattern)
    # converters: single, optional, multi
    _, convs = _compile_path_pattern('/x/<a:int>/<b?int>/<c*float>', S_REDIRECT)
    check(convs['a']('/12') == 12 and convs['a']('//12') == 12, 'single int conv')
    check(convs['b']('') is None and convs['b'](None) is None and convs['b']('/3') == 3, 'optional conv')
    check(convs['c']('') == [] and convs['c']('/1/2.5') == [1.0, 2.5], 'multi conv')
    try:
        convs['a']('/zz')
    except ValueError:
        check(True, 'ValueError')
    else:
        check(False, 'int conv should raise')


# --------------------------------------------------------------------------
# 3. full-stack behaviour
# --------------------------------------------------------------------------

def ep_static():
    return Response('static')


def ep_leaf():
    return Response('leaf')


def ep_root():
    return Response('root')


def ep_name(name):
    return Response(u'name=%s' % (name,))


def ep_parts(parts):
    return Response(u'parts=%s' % (u'|'.join(parts),))


def ep_num(num):
    return Response('num=%r' % (num,))


def ep_post():
    return Response('posted')


def make_routes(**rkw):
    return [Route('/', ep_root, **rkw),
            Route('/static/', ep_static, **rkw),
            Route('/deep/er/', ep_static, **rkw),
            Route('/leaf', ep_leaf, **rkw),
            Route('/b/<name>/', ep_name, **rkw),
            Route('/bl/<name>', ep_name, **rkw),
            Route('/m/<parts+>/', ep_parts, **rkw),
            Route('/ml/<parts*>', ep_parts, **rkw),
            Route('/n/<num:int>/', ep_num, **rkw),
            GET('/get/', ep_static, **rkw),
            POST('/post/', ep_post, **rkw),
            Route('/pp/<name>/', ep_name, methods=['put', 'PATCH'], **rkw)]


def request(app, path, query=b'', method='GET'):
    """path is the *decoded* text path, query the raw bytes."""
    environ = create_environ(path='/', method=method, base_url='http://example.test:8080/')
    environ['PATH_INFO'] = path.encode('utf8').decode('latin1')
    environ['QUERY_STRING'] = query.decode('latin1')
    if method in ('POST', 'PUT', 'PATCH'):
        environ['CONTENT_LENGTH'] = '0'
    return Client(app, Response).open(environ)


def seen_path(path):
    # werkzeug's Request.path collapses leading slashes itself
    return '/' + path.lstrip('/')


def canonical(path, is_branch):
    segs = [s for s in path.split('/') if s != '']
    if not segs:
        return '/'
    return '/' + '/'.join(segs) + ('/' if is_branch else '')


def variants(segs):
    """Non-canonical and canonical spellings of one segment list."""
    body1 = '/'.join(segs)
    body2 = '//'.join(segs)
    body3 = '///'.join(segs)
    out = []
    for lead, body, trail in itertools.product(('/', '//'), (body1, body2, body3), ('', '/', '//', '///')):
        p = lead + body + trail
        if p not in out:
            out.append(p)
    return out


SPECIAL_SEGMENTS = ['x', '?', '#', '%', '%41', '%2F', 'x y', ' ', ';', '&', '=', 'a=b&c', 'a?b#c',
                    u'caf\xe9', u'日本', '+', '0', "it's", 'a.b', '~', '@:', 'a%20b', '..', '%%']

QUERIES = [b'', b'a=1&b=2', b'x=%41%2F&y=a+b', b'?', b'a=?&b=#frag', b'q=caf\xc3\xa9', b'q=\xff\xfe&r=1',
           b'next=/a//b/', b'a=1;b=2', b'%', b'empty=&&=']


def expected_query(query):
    try:
        return query.decode('utf8')
    except UnicodeDecodeError:
        return url_quote(query, safe=":/?#[]@!$&'()*+,;=%")


def check_redirect(app, resp, path, query, method, body):
    check(resp.status_code in (301, 302, 303, 307, 308), 'status %r for %r' % (resp.status_code, path))
    check(resp.status_code == 302, 'status is 302 for %r' % (path,))
    loc = resp.headers['Location']
    canon = canonical(seen_path(path), True)
    check(loc.startswith('http://example.test:8080/'), 'absolute Location %r' % loc)
    rest = loc[len('http://example.test:8080'):]
    loc_path, sep, loc_query = rest.partition('?')
    check((sep == '?') == bool(query), 'Location carries "?" iff there is a query: %r' % loc)
    check('#' not in loc_path and '?' not in loc_path, 'path is escaped: %r' % loc_path)
    check(url_unquote(loc_path) == canon, 'Location path %r decodes to %r, want %r' % (loc_path, url_unquote(loc_path), canon))
    check(loc_path == url_quote(canon), 'Location path spelling')
    # query unchanged (up to the IRI->URI encoding werkzeug's redirect() applies)
    want_loc = iri_to_uri('http://example.test:8080' + url_quote(canon) + '?' + expected_query(query),
                          safe_conversion=True)
    if not query:
        # the response's Location post-processing (url_join) drops an empty query
        want_loc = want_loc.rstrip('?')
    check(loc == want_loc, 'Location %r != %r' % (loc, want_loc))
    if all(32 < c < 127 and c not in b'"<>\\^`{|}' for c in bytearray(query)):
        check(loc_query == query.decode('ascii'), 'ascii query verbatim: %r vs %r' % (loc_query, query))
    # second hop: request exactly what the Location says
    hop_query = loc_query.encode('latin1') if all(ord(ch) < 256 for ch in loc_query) else loc_query.encode('utf8')
    resp2 = request(app, url_unquote(loc_path), hop_query, method)
    check(resp2.status_code == 200, 'second hop is 200 (got %r) for %r' % (resp2.status_code, loc))
    check('Location' not in resp2.headers, 'no second redirect')
    if method != 'HEAD':
        check(resp2.get_data(as_text=True) == body, 'second hop body %r != %r' % (resp2.get_data(as_text=True), body))


def run_mode_matrix(app, mode, prefix=''):
    """mode is the *effective* slash mode of every route in app under prefix."""
    pre = [s for s in prefix.split('/') if s]
    cases = []  # (segments, is_branch, expected body)
    cases.append((pre + ['static'], True, 'static'))
    cases.append((pre + ['deep', 'er'], True, 'static'))
    cases.append((pre + ['leaf'], False, 'leaf'))
    for seg in SPECIAL_SEGMENTS:
        cases.append((pre + ['b', seg], True, u'name=%s' % seg))
        cases.append((pre + ['bl', seg], False, u'name=%s' % seg))
    cases.append((pre + ['m', '?', '#', u'caf\xe9'], True, u'parts=?|#|caf\xe9'))
    cases.append((pre + ['m', 'one'], True, u'parts=one'))
    cases.append((pre + ['ml', '%41', 'x y'], False, u'parts=%41|x y'))
    cases.append((pre + ['n', '42'], True, 'num=42'))

    for (segs, is_branch, body), query in zip(cases, itertools.cycle(QUERIES)):
        canon = canonical('/' + '/'.join(segs), is_branch)
        canon_body = body
        for path in variants(segs):
            resp = request(app, path, query)
            is_canon = seen_path(path) == canon
            body = canon_body
            if canon_body.startswith('parts=') and not is_canon:
                # executed directly, a multi binding sees doubled slashes as empty elements
                grp = re.search(r'/ml?((?:/+[^/]+)*)/*$', seen_path(path)).group(1)
                body = u'parts=' + u'|'.join(grp.split('/')[1:])
            if mode == S_STRICT:
                if is_canon:
                    check(resp.status_code == 200, 'strict canonical %r -> %r' % (path, resp.status_code))
                    check(resp.get_data(as_text=True) == body, 'strict body')
                else:
                    check(resp.status_code == 404, 'strict non-canonical %r -> %r' % (path, resp.status_code))
                check('Location' not in resp.headers, 'strict never redirects')
            elif mode == S_REWRITE or not is_branch:
                check(resp.status_code == 200, '%s %r -> %r' % (mode, path, resp.status_code))
                check(resp.get_data(as_text=True) == body, '%s body %r' % (mode, path))
                check('Location' not in resp.headers, 'rewrite/leaf never redirects')
            else:
                check(mode == S_REDIRECT, 'known mode')
                if is_canon:
                    check(resp.status_code == 200, 'canonical %r -> %r' % (path, resp.status_code))
                    check('Location' not in resp.headers, 'canonical never redirects')
                    check(resp.get_data(as_text=True) == body, 'canonical body')
                else:
                    check_redirect(app, resp, path, query, 'GET', canon_body)

    # root route
    for path in ('/', '//', '///'):
        resp = request(app, (prefix.rstrip('/') + path) if prefix else path, b'a=b')
        if not prefix:
            # werkzeug collapses leading slashes: always canonical
            check(resp.status_code == 200 and resp.get_data(as_text=True) == 'root', 'root %r' % path)

    # an int binding that does not convert is no match at all
    p = prefix.rstrip('/')
    for path in (p + '/n/abc/', p + '/n//abc', p + '/n/4 2/'):
        resp = request(app, path)
        check(resp.status_code == 404, 'bad int %r -> %r' % (path, resp.status_code))
        check('Location' not in resp.headers, 'bad int never redirects')

    # methods
    nc, c = p + '/post', p + '/post/'
    for method in ('GET', 'HEAD', 'PUT', 'DELETE', 'OPTIONS', 'PATCH'):
        for path in (nc, c, p + '//post//'):
            resp = request(app, path, b'k=v', method)
            if mode == S_STRICT and path != c:
                check(resp.status_code == 404, 'strict %s %r -> %r' % (method, path, resp.status_code))
            else:
                check(resp.status_code == 405, '%s %r -> %r (want 405)' % (method, path, resp.status_code))
            check('Location' not in resp.headers, 'no redirect for inadmissible method')
    resp = request(app, c, b'k=v', 'POST')
    check(resp.status_code == 200 and resp.get_data(as_text=True) == 'posted', 'POST canonical')
    resp = request(app, nc, b'k=v', 'POST')
    if mode == S_REDIRECT:
        check_redirect(app, resp, nc, b'k=v', 'POST', 'posted')
    elif mode == S_REWRITE:
        check(resp.status_code == 200 and resp.get_data(as_text=True) == 'posted', 'POST rewrite')
    else:
        check(resp.status_code == 404, 'POST strict')

    # GET routes admit HEAD; lower-case declared methods; lower-case request method
    for method in ('GET', 'HEAD'):
        resp = request(app, p + '/get', b'', method)
        if mode == S_REDIRECT:
            check_redirect(app, resp, p + '/get', b'', method, 'static')
        elif mode == S_REWRITE:
            check(resp.status_code == 200, 'HEAD/GET rewrite')
        else:
            check(resp.status_code == 404, 'HEAD/GET strict')
    resp = request(app, p + '/get', b'', 'POST')
    check(resp.status_code == (404 if mode == S_STRICT else 405), 'POST on GET route')
    for method in ('PUT', 'PATCH', 'put'):
        resp = request(app, p + '/pp//a?b', b'z=%23', method)
        if mode == S_REDIRECT:
            check_redirect(app, resp, p + '/pp//a?b', b'z=%23', method, 'name=a?b')
        elif mode == S_REWRITE:
            check(resp.status_code == 200 and resp.get_data(as_text=True) == 'name=a?b', 'pp rewrite')
        else:
            check(resp.status_code == 404, 'pp strict')
    resp = request(app, p + '/pp//a?b', b'z=%23', 'GET')
    check(resp.status_code == (404 if mode == S_STRICT else 405), 'GET on PUT route')


def test_application_level():
    for mode in (S_REDIRECT, S_REWRITE, S_STRICT):
        app = Application(make_routes(), slash_mode=mode)
        for br in app.routes:
            check(br.slash_mode == mode, 'inherited app-level mode')
        check(app._null_route.slash_mode == S_REWRITE, 'null route is always rewrite')
        check(isinstance(app._null_route, BoundRoute), 'null route is bound')
        run_mode_matrix(app, mode)
    # default
    app = Application(make_routes())
    check(app.slash_mode == S_REDIRECT, 'default app mode')
    run_mode_matrix(app, S_REDIRECT)


def test_route_level():
    for app_mode, route_mode in itertools.product((S_REDIRECT, S_REWRITE, S_STRICT), repeat=2):
        # inherited: app wins
        app = Application(make_routes(slash_mode=route_mode), slash_mode=app_mode)
        check(all(br.slash_mode == app_mode for br in app.routes), 'app mode wins by default')
        if app_mode != route_mode:
            run_mode_matrix(app, app_mode)
        # not inherited: route wins
        app = Application([], slash_mode=app_mode)
        for rt in make_routes(slash_mode=route_mode):
            app.add(rt, inherit_slashes=False)
        check(all(br.slash_mode == route_mode for br in app.routes), 'route mode wins without inheritance')
        if app_mode != route_mode:
            run_mode_matrix(app, route_mode)


def test_embedding():
    for outer_mode, inner_mode in itertools.permutations((S_REDIRECT, S_REWRITE, S_STRICT), 2):
        inner = Application(make_routes(), slash_mode=inner_mode)
        # tuple embedding inherits
        outer = Application([('/sub', inner)], slash_mode=outer_mode)
        check(all(br.slash_mode == outer_mode for br in outer.routes), 'embedding inherits')
        run_mode_matrix(outer, outer_mode, prefix='/sub')
        # explicit non-inheriting embedding keeps the inner mode
        outer = Application([SubApplication('/sub/', inner, inherit_slashes=False)], slash_mode=outer_mode)
        check(all(br.slash_mode == inner_mode for br in outer.routes), 'non-inheriting embedding')
        run_mode_matrix(outer, inner_mode, prefix='/sub')
        # two levels
        mid = Application([('/mid', inner)], slash_mode=S_STRICT)
        outer = Application([('/sub', mid)], slash_mode=outer_mode)
        run_mode_matrix(outer, outer_mode, prefix='/sub/mid')
        # the embedded app itself is untouched
        check(all(br.slash_mode == inner_mode for br in inner.routes), 'inner untouched')
    # null routes are not copied
    inner = Application(make_routes())
    outer = Application([('/sub', inner)])
    check(len(outer.routes) == len(inner.routes), 'no NullRoute copied')
    check(not any(isinstance(br.unbound_route, NullRoute) for br in outer.routes), 'no NullRoute among routes')


def test_strict_branch_in_dispatch():
    """A route compiled leniently whose mode is switched to strict afterwards
    reaches dispatch's strict NotFound arm."""
    app = Application(make_routes(), slash_mode=S_REDIRECT)
    for br in app.routes:
        br.slash_mode = S_STRICT
    resp = request(app, '/static', b'a=1')
    check(resp.status_code == 404 and 'Location' not in resp.headers, 'late strict 404')
    resp = request(app, '/static/', b'a=1')
    check(resp.status_code == 200, 'late strict canonical')
    resp = request(app, '/b//x')
    check(resp.status_code == 404, 'late strict binding 404')
    resp = request(app, '/leaf/')
    check(resp.status_code == 200, 'late strict leaf unaffected')
    resp = request(app, '/post', b'', 'GET')
    check(resp.status_code == 405, 'method check precedes the slash check')
    # unknown mode string: executes like rewrite
    for br in app.routes:
        br.slash_mode = 'bogus'
    resp = request(app, '/static', b'a=1')
    check(resp.status_code == 200 and 'Location' not in resp.headers, 'unknown mode executes')


def test_match_path():
    app = Application(make_routes())
    by_pattern = dict((br.pattern, br) for br in app.routes)
    br = by_pattern['/b/<name>/']
    check(br.match_path('/b/x/') == {'name': 'x'}, 'match single')
    check(br.match_path('//b///x y') == {'name': 'x y'}, 'match lenient')
    check(br.match_path('/b/') is None and br.match_path('/c/x') is None, 'no match -> None')
    check(br.match_path('/b/x/y') is None, 'too many segments')
    br = by_pattern['/n/<num:int>/']
    check(br.match_path('/n/7') == {'num': 7}, 'int conv')
    check(br.match_path('/n/+7/') == {'num': 7}, 'int conv with sign')
    check(br.match_path('/n/+ 7/') is None, 'regex matches, int() refuses -> None')
    check(br.match_path('/n/x') is None, 'no regex match')
    br = by_pattern['/m/<parts+>/']
    check(br.match_path('/m/a/b/') == {'parts': ['a', 'b']}, 'multi')
    # a doubled slash inside a multi binding shows up as an empty element
    check(br.match_path('/m/a//b/') == {'parts': ['a', '', 'b']}, 'multi over doubled slash')
    br = by_pattern['/ml/<parts*>']
    check(br.match_path('/ml') == {'parts': []}, 'optional multi empty')
    check(br.match_path('/ml/') == {'parts': []}, 'optional multi empty slash')
    br = by_pattern['/static/']
    res = br.match_path('/static')
    check(res == {} and res is not None, 'static match is an empty dict, not None')
    r1, r2 = br.match_path('/static'), br.match_path('/static')
    check(r1 is not r2, 'fresh dict per call')
    # a converter raising ValueError/TypeError/KeyError -> None; anything else propagates
    multi = Application([Route('/f/<x:float>/<y?int>', lambda x, y: Response('%r %r' % (x, y)))])
    br = multi.routes[0]
    check(br.match_path('/f/1.5') == {'x': 1.5, 'y': None}, 'optional None')
    check(br.match_path('/f/1.5/2') == {'x': 1.5, 'y': 2}, 'optional given')
    check(list(br.match_path('/f/1.5/2')) == ['x', 'y'], 'param order')

    def boom(v):
        raise ZeroDivisionError(v)
    for exc_type, want_none in ((ValueError, True), (TypeError, True), (KeyError, True)):
        def raiser(v, exc_type=exc_type):
            raise exc_type(v)
        br.converters['x'] = raiser
        check(br.match_path('/f/1.5') is None, '%s -> None' % exc_type.__name__)
    br.converters['x'] = boom
    try:
        br.match_path('/f/1.5')
    except ZeroDivisionError:
        check(True, 'propagates')
    else:
        check(False, 'ZeroDivisionError should propagate')
    # a converter for a group the regex does not have -> KeyError -> None
    br.converters['x'] = float
    br.converters['ghost'] = float
    check(br.match_path('/f/1.5') is None, 'missing group -> None')


def main():
    test_normalize_path()
    test_compile_path_pattern()
    test_match_path()
    test_application_level()
    test_route_level()
    test_embedding()
    test_strict_branch_in_dispatch()
    print('%d checks' % CHECKS[0])
    print('PASS')
    return 0


if __name__ == '__main__':
    sys.exit(main())
