# -*- coding: utf-8 -*-
"""demo1 -- C06 dispatch: first match in order, methods, 404/405, non-breaking
fallthrough.  Focus of this demo: the per-request DispatchState record (what it
collects, that it is fresh for every request, its identity semantics) plus a
model-checked sweep over routing tables.

Prints PASS and exits 0 when every assertion holds.
"""
import random
import sys

from clastic import Application, Route, Response
from clastic.application import DispatchState
from clastic.errors import (Forbidden, NotFound, InternalServerError,
                            MethodNotAllowed, HTTPException)

# ---------------------------------------------------------------- catalogue

# pattern -> (is_branch, matcher over the list of non-empty path segments)
PATTERNS = {
    '/a': (False, lambda s: s == ['a']),
    '/a/': (True, lambda s: s == ['a']),
    '/a/<x>': (False, lambda s: len(s) == 2 and s[0] == 'a'),
    '/<p*>': (False, lambda s: True),
    '/n/<k:int>': (False, lambda s: len(s) == 2 and s[0] == 'n' and s[1].isdigit()),
    '/b/<q+>/': (True, lambda s: len(s) >= 2 and s[0] == 'b'),
}
METHOD_SETS = [None, (), ['GET'], ['POST'], ['get', 'put'], ['HEAD'],
               ('POST', 'DELETE'), ['OPTIONS', 'GET']]
BEHAVIOURS = ['ok', 'raise403b', 'ret500b', 'raise404nb', 'ret403nb', 'boom',
              'notresp']
PATHS = ['/', '/a', '/a/', '/a//', '/a/b', '/a/b/', '/b/x/y', '/b/x/y/', '/n/5',
         '/n/x', '/zzz/1/2']
METHODS = ['GET', 'HEAD', 'POST', 'PUT', 'DELETE', 'get', 'pOsT', 'FOO',
           'OPTIONS']


def make_endpoint(behaviour, marker):
    if behaviour == 'ok':
        def ep():
            return Response('R-' + marker)
    elif behaviour == 'raise403b':
        def ep():
            raise Forbidden(detail='E-' + marker)
    elif behaviour == 'ret500b':
        def ep():
            return InternalServerError(detail='E-' + marker)
    elif behaviour == 'raise404nb':
        def ep():
            raise NotFound(detail='E-' + marker, is_breaking=False)
    elif behaviour == 'ret403nb':
        def ep():
            return Forbidden(detail='E-' + marker, is_breaking=False)
    elif behaviour == 'boom':
        def ep():
            raise ValueError('X-' + marker)
    elif behaviour == 'notresp':
        def ep():
            return 'S-' + marker
    else:
        raise AssertionError(behaviour)
    return ep


BEHAVIOUR_RESULT = {  # behaviour -> (status, breaking, marker prefix)
    'ok': (200, True, 'R-'),
    'raise403b': (403, True, 'E-'),
    'ret500b': (500, True, 'E-'),
    'raise404nb': (404, False, 'E-'),
    'ret403nb': (403, False, 'E-'),
    'boom': (500, True, 'X-'),
    'notresp': (500, True, None),
}


def effective_methods(methods):
    if not methods:
        return None
    ret = set(m.upper() for m in methods)
    if 'GET' in ret:
        ret.add('HEAD')
    return ret


def model(table, path, method):
    """Independent model of the property. table: list of (pattern, methods,
    behaviour, marker). Returns (status, marker-or-None, allow-or-None,
    location-or-None)."""
    segs = [s for s in path.split('/') if s]
    last_nb = None
    allowed = set()
    for pattern, methods, behaviour, marker in table:
        is_branch, matches = PATTERNS[pattern]
        if not matches(segs):
            continue
        eff = effective_methods(methods)
        if eff is not None and method.upper() not in eff:
            allowed |= eff
            continue
        if is_branch:
            norm = '/' + '/'.join(segs) + '/'
            if norm != path:
                return (302, None, None, 'http://localhost' + norm)
        status, breaking, prefix = BEHAVIOUR_RESULT[behaviour]
        body_marker = prefix + marker if prefix else None
        if breaking:
            return (status, body_marker, None, None)
        last_nb = (status, body_marker, None, None)
    if last_nb:
        return last_nb
    if allowed:
        return (405, None, ', '.join(sorted(allowed)), None)
    return (404, None, None, None)


def check(app, table, path, method):
    client = app.get_local_client()
    resp = client.open(path, method=method)
    status, marker, allow, location = model(table, path, method)
    ctx = (table, path, method, resp.status_code, resp.headers.get('Allow'),
           resp.data[:80])
    assert resp.status_code == status, ctx
    assert resp.headers.get('Allow') == allow, ctx
    if location is not None:
        assert resp.headers['Location'] == location, ctx + (resp.headers['Location'],)
    if method.upper() != 'HEAD':
        body = resp.get_data(True)
        if marker is not None:
            assert marker in body, ctx
        if status == 404 and marker is None:
            assert 'E-' not in body and 'R-' not in body, ctx
        if status == 405:
            assert repr(sorted(allow.split(', '))) in body, ctx


def random_table(rng, n):
    table = []
    for i in range(n):
        table.append((rng.choice(sorted(PATTERNS)), rng.choice(METHOD_SETS),
                      rng.choice(BEHAVIOURS), 'm%d' % i))
    return table


def build_by_constructor(table):
    return Application([Route(p, make_endpoint(b, mk), methods=ms) if ms is not None
                        else (p, make_endpoint(b, mk))
                        for p, ms, b, mk in table])


def build_by_add(rng, table):
    """Add the specs in random order at random indexes; returns (app,
    resulting table in routing order)."""
    app = Application()
    order = []
    specs = list(table)
    rng.shuffle(specs)
    for spec in specs:
        p, ms, b, mk = spec
        if rng.random() < 0.4:
            index = None
            order.append(spec)
        else:
            index = rng.randrange(0, len(order) + 1)
            order.insert(index, spec)
        kwargs = {} if ms is None else {'methods': ms}
        app.add(Route(p, make_endpoint(b, mk), **kwargs), index)
    assert [r.pattern for r in app.routes] == [s[0] for s in order]
    return app, order


def sweep(seed, n_tables):
    rng = random.Random(seed)
    n_checks = 0
    for t in range(n_tables):
        table = random_table(rng, rng.randint(0, 4))
        if t % 2:
            app, table = build_by_add(rng, table)
        else:
            app = build_by_constructor(table)
        for path in PATHS:
            for method in METHODS:
                check(app, table, path, method)
                n_checks += 1
    return n_checks


# ------------------------------------------------- DispatchState specifics

def dispatch_state_checks():
    # a fresh record
    ds = DispatchState()
    assert ds.exceptions == [] and type(ds.exceptions) is list
    assert ds.allowed_methods == set() and type(ds.allowed_methods) is set
    assert ds.attempted_routes == [] and type(ds.attempted_routes) is list
    assert list(vars(ds)) == ['exceptions', 'allowed_methods', 'attempted_routes']
    # no sharing of the mutable containers between instances
    other = DispatchState()
    assert other.exceptions is not ds.exceptions
    assert other.allowed_methods is not ds.allowed_methods
    assert other.attempted_routes is not ds.attempted_routes
    # identity semantics: equal content does not make two states equal,
    # and states stay hashable
    assert ds != other and not (ds == other) and ds == ds
    assert len({ds, other}) == 2 and hash(ds) == hash(ds)
    # the constructor takes no arguments
    for bad_args, bad_kwargs in [((1,), {}), ((), {'exceptions': []}),
                                 ((), {'allowed_methods': set()})]:
        try:
            DispatchState(*bad_args, **bad_kwargs)
        except TypeError:
            pass
        else:
            raise AssertionError('DispatchState%r%r accepted' % (bad_args, bad_kwargs))
    # the attributes are instance attributes only
    for name in ('exceptions', 'allowed_methods', 'attempted_routes'):
        assert not hasattr(DispatchState, name), name
    # behaviour of the mutators
    ds.update_methods(None)
    ds.update_methods(())
    ds.update_methods(set())
    assert ds.allowed_methods == set()
    ds.update_methods(['GET'])
    ds.update_methods({'HEAD', 'GET'})
    assert ds.allowed_methods == {'GET', 'HEAD'}
    exc = Forbidden(is_breaking=False)
    ds.add_exception(exc)
    ds.add_exception(exc)
    assert ds.exceptions == [exc, exc] and ds.exceptions[0] is exc
    marker = object()
    ds.add_route(marker)
    assert ds.attempted_routes == [marker]
    assert repr(ds) == ('<DispatchState exceptions=%r allowed_methods=%r>'
                        % ([exc, exc], ds.allowed_methods))
    ds.exceptions = ['replaced']   # plain, assignable attributes
    assert ds.exceptions == ['replaced']
    ds.extra = 1                   # no __slots__
    assert ds.extra == 1

    class SubState(DispatchState):
        def __init__(self):
            super(SubState, self).__init__()
            self.more = True
    sub = SubState()
    assert sub.exceptions == [] and sub.more and sub.allowed_methods == set()


def injected_state_checks():
    seen = []

    def nb_403(_dispatch_state):
        seen.append(('nb_403', _dispatch_state, list(_dispatch_state.exceptions),
                     set(_dispatch_state.allowed_methods)))
        raise Forbidden(detail='E-first', is_breaking=False)

    def nb_404(_dispatch_state):
        seen.append(('nb_404', _dispatch_state, list(_dispatch_state.exceptions),
                     set(_dispatch_state.allowed_methods)))
        return NotFound(detail='E-second', is_breaking=False)

    def never():
        raise AssertionError('POST-only route executed')

    app = Application([Route('/x', never, methods=['POST']),
                       ('/x', nb_403),
                       Route('/x', never, methods=['put', 'DELETE']),
                       ('/<p*>', nb_404)])
    client = app.get_local_client()
    resp = client.get('/x')
    # the most recent non-breaking error wins
    assert resp.status_code == 404 and 'E-second' in resp.get_data(True)
    assert resp.headers.get('Allow') is None
    assert [s[0] for s in seen] == ['nb_403', 'nb_404']
    assert seen[0][1] is seen[1][1]               # one state per request
    assert type(seen[0][1]) is DispatchState
    assert seen[0][2] == [] and seen[0][3] == {'POST'}
    assert [e.detail for e in seen[1][2]] == ['E-first']
    assert seen[1][3] == {'POST', 'PUT', 'DELETE'}
    final = seen[1][1]
    # first 403, then 404, then the null route returned the 404 once more
    assert [e.detail for e in final.exceptions] == ['E-first', 'E-second', 'E-second']
    assert final.exceptions[1] is final.exceptions[2]
    assert final.attempted_routes == []

    del seen[:]
    resp = client.get('/x')
    assert resp.status_code == 404
    assert seen[0][1] is not final and seen[0][2] == []   # fresh per request

    # 405: Allow is exactly the union over the path-matching routes
    del seen[:]
    app = Application([Route('/x', never, methods=['POST']),
                       Route('/y', never, methods=['PATCH']),
                       Route('/x', never, methods=['get'])])
    resp = app.get_local_client().open('/x', method='DELETE')
    assert resp.status_code == 405
    assert resp.headers['Allow'] == 'GET, HEAD, POST'
    assert isinstance(MethodNotAllowed(['b', 'a']), HTTPException)
    assert MethodNotAllowed(['b', 'a']).headers['Allow'] == 'a, b'
    assert MethodNotAllowed().headers.get('Allow') is None


def main():
    dispatch_state_checks()
    injected_state_checks()
    n = sweep(seed=6061, n_tables=120)
    assert n == 120 * len(PATHS) * len(METHODS)
    print('PASS (%d model-checked requests)' % n)
    return 0


if __name__ == '__main__':
    sys.exit(main())
