# -*- coding: utf-8 -*-
"""demo1: property C06 (dispatch: first match in order, methods, 404/405,
non-breaking fallthrough), with the focus on Application.dispatch and
DispatchState.

A small reference model ("oracle") predicts status / answering route / Allow
header for randomly drawn routing tables; the WSGI callable must agree.
"""
import random
import sys

from werkzeug.wrappers import Response

from clastic import Application, Route, S_STRICT, RerouteWSGI
from clastic.application import DispatchState
from clastic.errors import (Forbidden, NotFound, InternalServerError,
                            ErrorHandler)

PATTERNS = ['/a', '/b', '/<name>', '/a/<sub>', '/<x>/b']
METHOD_SETS = [None, ['GET'], ['POST'], ['GET', 'POST'], ['put', 'delete'],
               ['HEAD'], []]
KINDS = ['ok', 'raise_b403', 'ret_b404', 'raise_b500', 'boom',
         'raise_nb404', 'ret_nb403', 'raise_nb403', 'ret_nb404']
PATHS = ['/a', '/b', '/c', '/a/b', '/a/c', '/c/b', '/zzz/q']
REQ_METHODS = ['GET', 'HEAD', 'POST', 'PUT', 'DELETE', 'get', 'post', 'FOO',
               'OPTIONS']


def make_endpoint(kind, marker):
    hdr = {'X-Route': marker}

    def endpoint():
        if kind == 'ok':
            return Response(marker, headers=hdr)
        if kind == 'raise_b403':
            raise Forbidden(marker, headers=hdr)
        if kind == 'ret_b404':
            return NotFound(marker, headers=hdr)
        if kind == 'raise_b500':
            raise InternalServerError(marker, headers=hdr)
        if kind == 'boom':
            raise ValueError('boom ' + marker)
        if kind == 'raise_nb404':
            raise NotFound(marker, headers=hdr, is_breaking=False)
        if kind == 'ret_nb403':
            return Forbidden(marker, headers=hdr, is_breaking=False)
        if kind == 'raise_nb403':
            raise Forbidden(marker, headers=hdr, is_breaking=False)
        if kind == 'ret_nb404':
            return NotFound(marker, headers=hdr, is_breaking=False)
        raise AssertionError(kind)
    return endpoint


KIND_RESULT = {'ok': (200, True), 'raise_b403': (403, True),
               'ret_b404': (404, True), 'raise_b500': (500, True),
               'boom': (500, False)}
NB_RESULT = {'raise_nb404': 404, 'ret_nb403': 403, 'raise_nb403': 403,
             'ret_nb404': 404}


def pattern_matches(pattern, path):
    pat_segs = pattern.split('/')
    path_segs = path.split('/')
    if len(pat_segs) != len(path_segs):
        return False
    for ps, seg in zip(pat_segs, path_segs):
        if ps.startswith('<'):
            if not seg:
                return False
        elif ps != seg:
            return False
    return True


def norm_methods(methods):
    if not methods:
        return None
    ret = set(m.upper() for m in methods)
    if 'GET' in ret:
        ret.add('HEAD')
    return ret


def oracle(table, path, method):
    """-> (status, marker or None, allow or None)"""
    last_nb = None
    allowed = set()
    for pattern, methods, kind, marker in table:
        if not pattern_matches(pattern, path):
            continue
        mset = norm_methods(methods)
        if mset and method.upper() not in mset:
            allowed |= mset
            continue
        if kind in KIND_RESULT:
            status, has_marker = KIND_RESULT[kind]
            return (status, marker if has_marker else None, None)
        last_nb = (NB_RESULT[kind], marker, None)
    if last_nb:
        return last_nb
    if allowed:
        return (405, None, ', '.join(sorted(allowed)))
    return (404, None, None)


def spec_to_route(spec):
    pattern, methods, kind, marker = spec
    if methods is None:
        return Route(pattern, make_endpoint(kind, marker))
    return Route(pattern, make_endpoint(kind, marker), methods=methods)


def build(table_specs, mode, rng):
    """returns (app, model_table) -- model_table is the expected final order"""
    if mode == 'ctor':
        return Application([spec_to_route(s) for s in table_specs]), list(table_specs)
    app = Application()
    model = []
    for spec in table_specs:
        if mode == 'append':
            app.add(spec_to_route(spec))
            model.append(spec)
        else:
            index = rng.randint(-2, len(model) + 1)
            app.add(spec_to_route(spec), index=index)
            model.insert(index, spec)
    return app, model


def check_table(app, model):
    client = app.get_local_client()
    count = 0
    for path in PATHS:
        for method in REQ_METHODS:
            exp_status, exp_marker, exp_allow = oracle(model, path, method)
            resp = client.open(path, method=method)
            got = (resp.status_code, resp.headers.get('X-Route'),
                   resp.headers.get('Allow'))
            assert got == (exp_status, exp_marker, exp_allow), \
                (model, path, method, got, (exp_status, exp_marker, exp_allow))
            if exp_marker and method.upper() != 'HEAD':
                assert exp_marker.encode('ascii') in resp.get_data(), (model, path, method)
            count += 1
    return count


def random_tables():
    rng = random.Random(60601)
    total = 0
    modes = ['ctor', 'append', 'index']
    for i in range(150):
        size = rng.randint(0, 4)
        specs = [(rng.choice(PATTERNS), rng.choice(METHOD_SETS),
                  rng.choice(KINDS), 'm%d_%d' % (i, j)) for j in range(size)]
        app, model = build(specs, modes[i % 3], rng)
        assert len(app.routes) == len(model)
        total += check_table(app, model)
    return total


def directed_cases():
    # method mismatch followed by a non-breaking error: the error wins over 405
    app = Application([Route('/a', make_endpoint('ok', 'r0'), methods=['POST']),
                       Route('/a', make_endpoint('raise_nb403', 'r1')),
                       Route('/b', make_endpoint('ok', 'r2'))])
    cl = app.get_local_client()
    resp = cl.get('/a')
    assert (resp.status_code, resp.headers['X-Route']) == (403, 'r1')
    assert 'Allow' not in resp.headers
    resp = cl.post('/a')
    assert (resp.status_code, resp.headers['X-Route']) == (200, 'r0')

    # most recent non-breaking error is used
    app = Application([Route('/a', make_endpoint('raise_nb403', 'r0')),
                       Route('/<x>', make_endpoint('ret_nb404', 'r1')),
                       Route('/a', make_endpoint('ok', 'r2'), methods=['PUT'])])
    resp = app.get_local_client().get('/a')
    assert (resp.status_code, resp.headers['X-Route']) == (404, 'r1')
    resp = app.get_local_client().put('/a')
    assert (resp.status_code, resp.headers['X-Route']) == (200, 'r2')

    # union of methods in the 405
    app = Application([Route('/a', make_endpoint('ok', 'r0'), methods=['GET']),
                       Route('/<x>', make_endpoint('ok', 'r1'), methods=['put', 'PATCH']),
                       Route('/b', make_endpoint('ok', 'r2'), methods=['DELETE'])])
    resp = app.get_local_client().post('/a')
    assert resp.status_code == 405
    assert resp.headers['Allow'] == 'GET, HEAD, PATCH, PUT'
    assert b"['GET', 'HEAD', 'PATCH', 'PUT']" in resp.get_data()
    resp = app.get_local_client().post('/nope/nope')
    assert resp.status_code == 404 and 'Allow' not in resp.headers

    # empty table
    resp = Application().get_local_client().get('/')
    assert resp.status_code == 404


def injected_state_cases():
    seen = {}

    def ep_state(_dispatch_state, request):
        seen['allowed'] = set(_dispatch_state.allowed_methods)
        seen['exceptions'] = list(_dispatch_state.exceptions)
        seen['path_params'] = dict(request.path_params)
        return Response('state', headers={'X-Route': 'state'})

    app = Application([Route('/<first>', make_endpoint('ok', 'r0'), methods=['POST']),
                       Route('/<second>', make_endpoint('raise_nb404', 'r1')),
                       Route('/<third>', ep_state)],
                      resources={'res': 1})
    resp = app.get_local_client().get('/val')
    assert (resp.status_code, resp.headers['X-Route']) == (200, 'state')
    assert seen['allowed'] == {'POST'}
    assert [type(e) for e in seen['exceptions']] == [NotFound]
    assert seen['exceptions'][0].source_route is app.routes[1]
    assert seen['path_params'] == {'third': 'val'}

    # the table is snapshotted per request: mutation only affects later requests
    def ep_mutate(_application):
        del _application.routes[1:]
        raise NotFound('mut', headers={'X-Route': 'mut'}, is_breaking=False)

    app = Application([Route('/a', ep_mutate),
                       Route('/a', make_endpoint('ok', 'r1'))])
    cl = app.get_local_client()
    resp = cl.get('/a')
    assert (resp.status_code, resp.headers['X-Route']) == (200, 'r1')
    resp = cl.get('/a')
    assert (resp.status_code, resp.headers['X-Route']) == (404, 'mut')


def slash_cases():
    routes = lambda: [Route('/d/', make_endpoint('ok', 'd')),
                      Route('/<x>', make_endpoint('ok', 'x'))]
    cl = Application(routes()).get_local_client()
    resp = cl.get('/d?q=1')
    assert resp.status_code in (301, 302, 303, 307, 308), resp.status_code
    assert resp.headers['Location'].startswith('http://localhost/d/?q=1'), resp.headers['Location']
    resp = cl.get('/d/')
    assert (resp.status_code, resp.headers['X-Route']) == (200, 'd')

    cl = Application(routes(), slash_mode=S_STRICT).get_local_client()
    resp = cl.get('/d')
    assert (resp.status_code, resp.headers['X-Route']) == (200, 'x')
    resp = cl.get('/d/')
    assert (resp.status_code, resp.headers['X-Route']) == (200, 'd')
    cl = Application(routes()[:1], slash_mode=S_STRICT).get_local_client()
    assert cl.get('/d').status_code == 404
    assert cl.get('/d/').status_code == 200


def uncaught_and_reroute_cases():
    app = Application([Route('/a', make_endpoint('boom', 'r0')),
                       Route('/a', make_endpoint('ok', 'r1'))],
                      error_handler=ErrorHandler(reraise_uncaught=True))
    try:
        app.get_local_client().get('/a')
    except ValueError as ve:
        assert 'boom r0' in str(ve)
    else:
        raise AssertionError('expected ValueError to propagate')

    # not a Response -> TypeError -> 500 (breaking)
    app = Application([Route('/a', lambda: 'just a string'),
                       Route('/a', make_endpoint('ok', 'r1'))])
    resp = app.get_local_client().get('/a')
    assert resp.status_code == 500 and 'X-Route' not in resp.headers

    def inner_wsgi(environ, start_response):
        start_response('200 OK', [('Content-Type', 'text/plain'), ('X-Route', 'inner')])
        return [b'inner']

    def ep_reroute():
        raise RerouteWSGI(inner_wsgi)

    app = Application([Route('/a', ep_reroute),
                       Route('/a', make_endpoint('ok', 'r1'))])
    resp = app.get_local_client().get('/a')
    assert (resp.status_code, resp.headers['X-Route'], resp.get_data()) == (200, 'inner', b'inner')


def dispatch_state_unit():
    ds = DispatchState()
    allowed, excs = ds.allowed_methods, ds.exceptions
    assert allowed == set() and excs == [] and ds.attempted_routes == []
    for falsy in (None, set(), [], (), ''):
        ds.update_methods(falsy)
        assert ds.allowed_methods == set()
    ds.update_methods({'GET', 'HEAD'})
    ds.update_methods(['POST'])
    ds.update_methods(('PUT', 'GET'))
    ds.update_methods(frozenset(['PATCH']))
    assert ds.allowed_methods == {'GET', 'HEAD', 'POST', 'PUT', 'PATCH'}
    assert ds.allowed_methods is allowed
    e1, e2 = NotFound(), Forbidden()
    ds.add_exception(e1)
    ds.add_exception(e2)
    assert ds.exceptions == [e1, e2] and ds.exceptions is excs
    ds.add_route('r')
    assert ds.attempted_routes == ['r']
    assert repr(ds).startswith('<DispatchState exceptions=[')


def main():
    dispatch_state_unit()
    directed_cases()
    injected_state_cases()
    slash_cases()
    uncaught_and_reroute_cases()
    total = random_tables()
    assert total == 150 * len(PATHS) * len(REQ_METHODS)
    print('PASS')
    return 0


if __name__ == '__main__':
    sys.exit(main())
