# -*- coding: utf-8 -*-
"""demo1: the sample store (Reservoir / RouteStatReservoir).

Checks, for many seeds and capacities, that the store never exceeds its
capacity, counts exactly, never raises, only holds values that were added --
and, in lockstep with a straight-line reference model driven by the same
random stream, that its exact contents are what the algorithm prescribes.
"""
import random
import sys

from clastic.middleware.stats import Reservoir, RouteStatReservoir, Hit


class Model(object):
    "Reference model of the sampling algorithm (append, then random replacement)."
    def __init__(self, cap):
        self.cap = cap
        self.data = []
        self.total = 0

    def add(self, val):
        self.total += 1
        if len(self.data) < self.cap:
            self.data.append(val)
            return
        idx = int(random.random() * (self.total + 1))
        if idx < self.cap:
            self.data[idx] = val

    def resize(self, new_size):
        self.cap = new_size
        if new_size >= len(self.data):
            return
        self.data = self.data[:new_size]


def gen_ops(seed, n_ops, max_cap):
    rng = random.Random(seed * 7919 + 13)
    ops = []
    next_val = 0
    for _ in range(n_ops):
        x = rng.random()
        if x < 0.80:
            ops.append(('add', next_val))
            next_val += 1
        elif x < 0.90:
            ops.append(('resize', rng.randint(1, max_cap)))
        else:
            ops.append(('iter', None))
    return ops


def run_real(seed, cap, ops):
    random.seed(seed)
    res = Reservoir(cap=cap)
    added = set()
    snaps = []
    cur_cap = cap
    for op, arg in ops:
        if op == 'add':
            assert res.add(arg) is None
            added.add(arg)
        elif op == 'resize':
            assert res.resize(arg) is None
            cur_cap = arg
        else:
            it = iter(res)
            assert iter(it) is it  # a real iterator
            assert list(it) == res.to_list()
        contents = list(res)
        # the invariants of the property
        assert len(contents) <= cur_cap, (seed, cap, len(contents), cur_cap)
        assert res.total_count == len(added), (seed, cap)
        assert set(contents) <= added
        assert len(set(contents)) == len(contents)  # every add stored at most once
        assert len(contents) == min(len(contents), res.total_count)
        snaps.append((tuple(contents), res.total_count))
    return snaps


def run_model(seed, cap, ops):
    random.seed(seed)
    mod = Model(cap)
    snaps = []
    for op, arg in ops:
        if op == 'add':
            mod.add(arg)
        elif op == 'resize':
            mod.resize(arg)
        snaps.append((tuple(mod.data), mod.total))
    return snaps


def check_random_sequences():
    max_cap = 12
    for seed in range(60):
        for cap in (1, 2, 3, 5, 8, max_cap):
            ops = gen_ops(seed + cap * 1000, 300, max_cap)
            real = run_real(seed, cap, ops)
            model = run_model(seed, cap, ops)
            assert real == model, (seed, cap)


def check_far_beyond_capacity():
    random.seed(4242)
    res = Reservoir(cap=3)
    for i in range(20000):
        res.add(i)
    assert res.total_count == 20000
    assert len(list(res)) == 3
    assert set(res) <= set(range(20000))

    # default capacity is 16k
    res = Reservoir()
    for i in range(2 ** 14 + 500):
        res.add(i)
    assert res.total_count == 2 ** 14 + 500
    assert len(res.to_list()) == 2 ** 14
    assert repr(res) == '<Reservoir cap=16384, data_count=16384, total_count=16884>'

    # cap=False: unbounded
    res = Reservoir(cap=False)
    for i in range(20000):
        res.add(i)
    assert res.to_list() == list(range(20000))
    assert repr(res) == '<Reservoir cap=inf, data_count=20000, total_count=20000>'
    assert repr(Reservoir(cap=False)) == '<Reservoir cap=inf, data_count=0, total_count=0>'


def check_constructor():
    random.seed(7)
    res = Reservoir(cap=5, data=range(20))
    assert res.total_count == 20 and len(list(res)) == 5
    assert repr(res) == '<Reservoir cap=5, data_count=5, total_count=20>'

    assert repr(Reservoir(cap='7')) == '<Reservoir cap=7, data_count=0, total_count=0>'
    assert repr(Reservoir(cap=2.9)) == '<Reservoir cap=2, data_count=0, total_count=0>'
    assert repr(Reservoir(cap=1)) == '<Reservoir cap=1, data_count=0, total_count=0>'
    for bad in (None, 'x', [3]):
        try:
            Reservoir(cap=bad)
        except (TypeError, ValueError):
            pass
        else:
            raise AssertionError('cap=%r accepted' % (bad,))

    # falsy data adds nothing; truthy iterables (incl. one-shot ones) are consumed
    for falsy in (None, [], (), '', 0, {}):
        assert Reservoir(cap=4, data=falsy).total_count == 0
    assert Reservoir(cap=4, data=iter([1, 2, 3])).to_list() == [1, 2, 3]
    assert Reservoir(cap=4, data=(c for c in 'abc')).to_list() == ['a', 'b', 'c']
    assert Reservoir(cap=4, data='abc').to_list() == ['a', 'b', 'c']
    assert Reservoir(cap=4, data=[0, None, '']).to_list() == [0, None, '']

    # container is aliased, and counted
    cont = [1, 2]
    res = Reservoir(cap=5, container=cont)
    assert res.total_count == 2
    res.add(3)
    assert cont == [1, 2, 3]
    res.resize(10)      # enlarging keeps the same list
    res.add(4)
    assert cont == [1, 2, 3, 4]
    res.resize(2)       # shrinking copies; the caller's list is left alone
    assert res.to_list() == [1, 2] and cont == [1, 2, 3, 4]
    res.add(5)
    assert cont == [1, 2, 3, 4]
    assert res.total_count == 5 and len(list(res)) == 2
    res.resize(2)       # same size: no-op
    assert len(list(res)) == 2
    assert res.to_list() is not res.to_list()

    # container + data
    cont = ['x']
    res = Reservoir(cap=3, data=['y', 'z'], container=cont)
    assert cont == ['x', 'y', 'z'] and res.total_count == 3

    # initial content must be below cap
    try:
        Reservoir(cap=2, container=[1, 2])
    except AssertionError as ae:
        assert str(ae) == 'initial count 2 must be lower than cap 2', str(ae)
    else:
        raise AssertionError('expected AssertionError')
    try:
        Reservoir(cap=0)
    except AssertionError as ae:
        assert str(ae) == 'initial count 0 must be lower than cap 0', str(ae)
    else:
        raise AssertionError('expected AssertionError')

    # add() is dispatched virtually from the constructor
    class Recording(Reservoir):
        def add(self, val):
            self.__dict__.setdefault('seen', []).append(val)
            super(Recording, self).add(val)
    rec = Recording(cap=2, data=[10, 20, 30, 40])
    assert rec.seen == [10, 20, 30, 40] and rec.total_count == 4
    assert repr(rec) == '<Recording cap=2, data_count=2, total_count=4>'


def check_resize_edges():
    random.seed(99)
    res = Reservoir(cap=6, data=range(6))
    res.resize(0)
    assert res.to_list() == []
    for i in range(100):
        res.add(i)          # nothing can be stored, nothing raises
    assert res.to_list() == [] and res.total_count == 106
    res.resize(4)
    for i in range(100, 110):
        res.add(i)
    assert res.to_list() == [100, 101, 102, 103] or len(res.to_list()) == 4
    assert set(res) <= set(range(100, 110))
    assert res.total_count == 116

    # the new size is recorded before the data is cut down
    res = Reservoir(cap=6, data=range(5))
    try:
        res.resize(2.5)
    except TypeError:
        pass
    else:
        raise AssertionError('expected TypeError from slicing')
    assert repr(res) == '<Reservoir cap=2.5, data_count=5, total_count=5>'


class _Partial(object):
    def __init__(self, start_time):
        self.start_time = start_time


def check_route_stat_reservoir():
    random.seed(5)
    rsr = RouteStatReservoir()
    assert rsr.last_hit is None and rsr.total_duration == 0.0
    assert type(rsr.total_duration) is float
    assert repr(rsr) == '<RouteStatReservoir cap=16384, data_count=0, total_count=0>'
    rsr.resize(4)
    expected_total = 0.0
    rng = random.Random(1)
    hits = []
    for i in range(500):
        dur = rng.random() / 10
        hit = Hit(1000.0 + i, '/u', '/u', '200', dur, 'text/plain')
        hits.append(hit)
        assert rsr.add(hit) is None
        expected_total += dur
        assert rsr.last_hit == 1000.0 + i
        assert rsr.total_duration == expected_total
        assert rsr.total_count == i + 1
        assert len(list(rsr)) == min(i + 1, 4)
    assert all(h in hits for h in rsr)
    assert all(any(h is x for x in hits) for h in rsr)

    # zero durations / start times are not special
    rsr = RouteStatReservoir()
    rsr.add(Hit(0, '/', '/', '200', 0, ''))
    assert rsr.last_hit == 0 and rsr.total_duration == 0.0 and rsr.total_count == 1

    # a malformed hit: counted and stamped before the failure surfaces
    rsr = RouteStatReservoir()
    rsr.add(Hit(1.0, '/', '/', '200', 0.5, ''))
    try:
        rsr.add(_Partial(2.0))
    except AttributeError:
        pass
    else:
        raise AssertionError('expected AttributeError')
    assert rsr.total_count == 2 and rsr.last_hit == 2.0 and rsr.total_duration == 0.5
    try:
        rsr.add(object())
    except AttributeError:
        pass
    else:
        raise AssertionError('expected AttributeError')
    assert rsr.total_count == 3 and rsr.last_hit == 2.0 and rsr.total_duration == 0.5


def main():
    check_random_sequences()
    check_far_beyond_capacity()
    check_constructor()
    check_resize_edges()
    check_route_stat_reservoir()
    print('PASS')
    return 0


if __name__ == '__main__':
    sys.exit(main())
