# -*- coding: utf-8 -*-
"""demo2: RouteStatReservoir (the per-route, per-status sample store) and its
base class: exact counts, bounded samples, last_hit / total_duration, the
order in which a failing add leaves its traces, and the numbers the stats
application reports from it.
"""
import os
import sys
import json
import random

sys.path.insert(0, os.path.dirname(os.path.abspath(__file__)))

from clastic import Application, render_basic
from clastic.middleware import stats as S
from clastic.middleware.stats import (Reservoir, RouteStatReservoir, Hit,
                                      StatsMiddleware, create_stats_app)


def mkhit(i, duration=None):
    return Hit(1000.0 + i, '/p/%d' % i, '/p/<n>', '200',
               0.25 if duration is None else duration, 'text/plain')


def check_bounded(seed, cap, n):
    random.seed(seed)
    rsr = RouteStatReservoir()
    assert rsr.last_hit is None and rsr.total_duration == 0.0
    assert type(rsr.total_duration) is float and rsr.total_count == 0
    rsr.resize(cap)
    hits = [mkhit(i) for i in range(n)]
    for k, h in enumerate(hits):
        assert rsr.add(h) is None
        assert rsr.total_count == k + 1
        assert rsr.last_hit == h.start_time
        assert rsr.total_duration == 0.25 * (k + 1)
        held = list(rsr)
        assert len(held) <= cap
        assert all(any(x is y for y in hits[:k + 1]) for x in held)
    held = rsr.to_list()

    # same seed, plain Reservoir: the subclass stores exactly like its base
    random.seed(seed)
    base = Reservoir(cap)
    for h in hits:
        base.add(h)
    assert base.to_list() == held and base.total_count == rsr.total_count
    assert not hasattr(base, 'last_hit') and not hasattr(base, 'total_duration')
    return held


def main():
    for seed in range(12):
        for cap in (1, 2, 5, 13):
            held = check_bounded(seed, cap, cap * 20 + 3)
            assert len(held) == cap

    # resizing up and down in between
    random.seed(99)
    rsr = RouteStatReservoir()
    n = 0
    for cap in (4, 2, 9, 1, 3, 3):
        rsr.resize(cap)
        for _ in range(37):
            rsr.add(mkhit(n))
            n += 1
            assert len(list(rsr)) <= cap
    assert rsr.total_count == n == 6 * 37
    assert rsr.last_hit == 1000.0 + n - 1
    assert abs(rsr.total_duration - 0.25 * n) < 1e-9

    # an add that fails half way: the value was counted and stored first, then
    # last_hit is set, then the duration is added -- in that order
    class NoDuration(object):
        start_time = 5.0

    class Nothing(object):
        pass

    rsr = RouteStatReservoir()
    rsr.add(mkhit(0))
    bad = NoDuration()
    try:
        rsr.add(bad)
    except AttributeError as e:
        assert 'duration' in str(e)
    else:
        raise SystemExit('expected AttributeError')
    assert rsr.total_count == 2 and rsr.to_list()[1] is bad
    assert rsr.last_hit == 5.0 and rsr.total_duration == 0.25
    worse = Nothing()
    try:
        rsr.add(worse)
    except AttributeError as e:
        assert 'start_time' in str(e)
    else:
        raise SystemExit('expected AttributeError')
    assert rsr.total_count == 3 and rsr.to_list()[2] is worse
    assert rsr.last_hit == 5.0 and rsr.total_duration == 0.25

    # durations of any number type accumulate as given
    rsr = RouteStatReservoir()
    rsr.add(mkhit(0, duration=2))
    rsr.add(mkhit(1, duration=0))
    assert rsr.total_duration == 2.0 and rsr.last_hit == 1001.0

    # the class layout other code may rely on
    assert issubclass(RouteStatReservoir, Reservoir)
    assert isinstance(RouteStatReservoir.total_count, property)
    assert repr(rsr) == '<RouteStatReservoir cap=16384, data_count=2, total_count=2>'

    # full stack: a route hammered far beyond a (shrunk) capacity still
    # reports the exact count, and its samples stay bounded
    def ok():
        return 'fine'

    mw = StatsMiddleware()
    app = Application([('/ok', ok, render_basic), ('/stats', create_stats_app())],
                      middlewares=[mw])
    c = app.get_local_client()
    random.seed(3)
    c.get('/ok')
    (route,) = [rt for rt in mw.route_hits if rt.pattern == '/ok']
    store = mw.route_hits[route]['200']
    assert type(store) is RouteStatReservoir
    store.resize(4)
    for i in range(60):
        c.get('/ok')
        assert len(store.to_list()) <= 4
    assert store.total_count == 61
    data = json.loads(c.get('/stats/?format=json').get_data(True))
    entry = data['route_stats']['/ok']['200']
    assert entry['count'] == 61
    assert entry['total_duration'] == round(store.total_duration * 1000, 2)
    assert all(h.pattern == '/ok' and h.status_code == '200' for h in store)

    print('PASS')


if __name__ == '__main__':
    main()
