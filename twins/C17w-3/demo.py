# -*- coding: utf-8 -*-
"""demo3: the JSON encoder behind render_json / render_json_dev / render_basic
and the JSON error pages: import paths, constructor defaults, default() on every
kind of object, round trips.  Prints PASS, exits 0."""
import json
import datetime
import collections
from collections.abc import Mapping

from werkzeug.test import EnvironBuilder
from werkzeug.wrappers import Request

import clastic.errors
import clastic.render.simple
from clastic import Application
from clastic.render.simple import ClasticJSONEncoder  # the public import path
from clastic.render.simple import (JSONRender, JSONPRender, BasicRender,
                                   render_json, render_json_dev, render_basic)
from clastic.errors import BadRequest, NotFound


def req(query_string=''):
    return Request(EnvironBuilder(path='/', query_string=query_string).get_environ())


class ToDict(object):
    def to_dict(self):
        return {'via': 'to_dict'}

    def asdict(self):
        raise AssertionError('to_dict wins over asdict')


class AsDict(object):
    to_dict = 'not callable'

    def asdict(self):
        return {'via': 'asdict'}

    def isoformat(self):
        raise AssertionError('asdict wins over isoformat')


class Iso(object):
    def isoformat(self):
        return 'iso!'


class Plain(object):
    def __repr__(self):
        return '<plain>'


class BrokenMapping(Mapping):
    "a Mapping whose dict() fails, but which can still be listed"
    def __getitem__(self, key):
        raise RuntimeError('no items')

    def __iter__(self):
        return iter(['k1', 'k2'])

    def __len__(self):
        return 2


class BrokenSized(object):
    "Sized + Iterable, but iteration fails -> falls through to to_dict"
    def __len__(self):
        return 1

    def __iter__(self):
        raise RuntimeError('no iteration')

    def to_dict(self):
        return {'fell': 'through'}


class BrokenSizedPlain(object):
    def __len__(self):
        return 1

    def __iter__(self):
        raise RuntimeError('no iteration')

    def __repr__(self):
        return '<broken sized>'


class KeyboardLike(object):
    "non-Exception errors are not swallowed"
    def __len__(self):
        return 1

    def __iter__(self):
        raise KeyboardInterrupt()


class GoodMapping(Mapping):
    def __init__(self, d):
        self.d = d

    def __getitem__(self, key):
        return self.d[key]

    def __iter__(self):
        return iter(self.d)

    def __len__(self):
        return len(self.d)


def check_import_paths():
    assert clastic.render.simple.ClasticJSONEncoder is ClasticJSONEncoder
    assert clastic.errors.ClasticJSONEncoder is ClasticJSONEncoder
    assert issubclass(ClasticJSONEncoder, json.JSONEncoder)
    assert ClasticJSONEncoder.__name__ == 'ClasticJSONEncoder'
    assert ClasticJSONEncoder.__mro__[1] is json.JSONEncoder
    assert type(render_json.json_encoder) is ClasticJSONEncoder
    assert type(render_basic.json_render.json_encoder) is ClasticJSONEncoder
    assert set(vars(ClasticJSONEncoder)) >= {'__init__', 'default'}
    assert isinstance(render_basic.json_render, JSONRender)
    assert issubclass(JSONPRender, JSONRender)


def check_constructor():
    enc = ClasticJSONEncoder()
    assert enc.dev_mode is False
    assert (enc.skipkeys, enc.ensure_ascii, enc.indent, enc.sort_keys) == \
        (True, True, 2, True)
    enc = ClasticJSONEncoder(dev_mode=1, indent=None, sort_keys=False,
                             skipkeys=False, ensure_ascii=False,
                             encoding='whatever', separators=(',', ':'))
    assert enc.dev_mode == 1
    assert (enc.skipkeys, enc.ensure_ascii, enc.indent, enc.sort_keys) == \
        (False, False, None, False)
    assert enc.encode({'b': u'\xe9', 'a': [1, 2]}) == u'{"b":"\xe9","a":[1,2]}'
    try:
        ClasticJSONEncoder(bogus=1)
    except TypeError:
        pass
    else:
        raise AssertionError('expected TypeError')
    try:
        ClasticJSONEncoder({'positional': 1})
    except TypeError:
        pass
    else:
        raise AssertionError('expected TypeError')
    # the caller's dict is not kept / shared
    kw = {'dev_mode': True, 'encoding': 'utf-8'}
    enc = ClasticJSONEncoder(**kw)
    assert kw == {'dev_mode': True, 'encoding': 'utf-8'}
    # defaults: sorted keys, indent 2, ascii only, non-str keys skipped
    assert ClasticJSONEncoder().encode({'b': 1, 'a': u'☃'}) == \
        '{\n  "a": "\\u2603",\n  "b": 1\n}'
    assert json.loads(ClasticJSONEncoder(sort_keys=False)
                      .encode({'a': 1, (1, 2): 2})) == {'a': 1}


def check_default():
    dev = ClasticJSONEncoder(dev_mode=True)
    strict = ClasticJSONEncoder()
    d = datetime.datetime(2020, 1, 2, 3, 4, 5, 6)
    od = collections.OrderedDict([('z', 1), ('a', 2)])
    gm = GoodMapping({'x': 1})
    cases = [
        (gm, {'x': 1}), (od, {'z': 1, 'a': 2}),
        (BrokenMapping(), ['k1', 'k2']),
        ({1, }, [1]), (frozenset(), []), (collections.deque([1]), [1]),
        (range(2), [0, 1]), (b'ab', [97, 98]), (bytearray(b'a'), [97]),
        ((1, 2), [1, 2]), ('str', ['s', 't', 'r']), ({'k': 'v'}, {'k': 'v'}),
        (BrokenSized(), {'fell': 'through'}),
        (ToDict(), {'via': 'to_dict'}), (AsDict(), {'via': 'asdict'}),
        (Iso(), 'iso!'), (d, d.isoformat()), (d.date(), '2020-01-02'),
        (d.time(), '03:04:05.000006'),
    ]
    for enc in (dev, strict):
        for obj, expected in cases:
            got = enc.default(obj)
            assert got == expected and type(got) is type(expected), (obj, got)
        # copies, never the object itself
        assert enc.default(od) is not od and type(enc.default(od)) is dict
        lst = [1]
        assert enc.default(lst) is not lst
    unknown = [Plain(), ToDict, datetime.datetime, 1 + 2j, object(), len,
               BrokenSizedPlain(), iter([1]), (x for x in [1]), Ellipsis]
    for obj in unknown:
        assert dev.default(obj) == repr(obj)
        try:
            strict.default(obj)
        except TypeError as e:
            assert str(e) == 'cannot serialize to JSON: %r' % (obj,)
        else:
            raise AssertionError('expected TypeError for %r' % (obj,))
    for enc in (dev, strict):
        try:
            enc.default(KeyboardLike())
        except KeyboardInterrupt:
            pass
        else:
            raise AssertionError('KeyboardInterrupt must propagate')


def check_round_trips():
    native = [{}, [], 'x', '', 0, -1, 1.5, None, True, False, u'sn\xf6 ☃',
              {'a': {'b': [1, 2, {'c': None}]}, 'd': [[], {}]},
              [{'x': 1}, {'x': 2}], {'': 0}, 'quote " back \\ nl \n', 10 ** 20]
    for value in native:
        for r in (render_json, render_json_dev, JSONRender(streaming=True)):
            resp = r(value)
            assert resp.status_code == 200 and resp.mimetype == 'application/json'
            assert json.loads(resp.get_data(True)) == value
            resp.get_data().decode('ascii')  # ensure_ascii
        resp = JSONPRender()(req('callback=cb'), value)
        text = resp.get_data(True)
        assert json.loads(text[3:-2]) == value and text[:3] == 'cb('
        if isinstance(value, (dict, list)):
            resp = render_basic(value, req(), None)
            assert json.loads(resp.get_data(True)) == value
    mixed = {'t': (1, 2), 's': {3}, 'o': ToDict(), 'a': AsDict(), 'i': Iso(),
             'd': datetime.date(1999, 12, 31), 'm': GoodMapping({'q': [Iso()]}),
             'bm': BrokenMapping(), 'bs': BrokenSized()}
    expected = {'t': [1, 2], 's': [3], 'o': {'via': 'to_dict'},
                'a': {'via': 'asdict'}, 'i': 'iso!', 'd': '1999-12-31',
                'm': {'q': ['iso!']}, 'bm': ['k1', 'k2'],
                'bs': {'fell': 'through'}}
    for r in (render_json, render_json_dev, JSONRender(streaming=True)):
        assert json.loads(r(mixed).get_data(True)) == expected
    assert json.loads(render_basic(mixed, req(), None).get_data(True)) == expected
    withobj = dict(mixed, p=Plain(), c=Plain)
    got = json.loads(render_json_dev(withobj).get_data(True))
    assert got == dict(expected, p='<plain>', c=repr(Plain))
    got = json.loads(render_basic([Plain()], req('format=json'), None).get_data(True))
    assert got == ['<plain>']
    assert json.loads(BasicRender(dev_mode=True)([Plain()], req(), None)
                      .get_data(True)) == ['<plain>']
    for r in (render_json, JSONRender(streaming=True),
              BasicRender(dev_mode=False).json_render):
        try:
            r(withobj).get_data()
        except TypeError as e:
            assert str(e).startswith('cannot serialize to JSON: ')
        else:
            raise AssertionError('expected TypeError')
    # self-referencing containers: ValueError from the json module, as ever
    loop = []
    loop.append(loop)
    for r in (render_json, render_json_dev):
        try:
            r(loop).get_data()
        except ValueError:
            pass
        else:
            raise AssertionError('expected ValueError')


def check_json_error_pages():
    def bad():
        raise BadRequest(detail='nope')

    def boom():
        raise RuntimeError('boom')

    app = Application([('/bad', bad, render_basic),
                       ('/boom', boom, render_basic)])
    c = app.get_local_client()
    for path, code in (('/bad', 400), ('/missing', 404), ('/boom', 500)):
        resp = c.get(path, headers={'Accept': 'application/json'})
        assert resp.status_code == code, (path, resp.status_code)
        assert resp.mimetype == 'application/json', (path, resp.mimetype)
        data = json.loads(resp.get_data(True))
        assert isinstance(data, dict) and data
    err = NotFound(detail='d', is_breaking=False)
    err.detail = Plain()  # an object only the dev-mode encoder can handle
    text = err.to_json()
    assert json.loads(text)['detail'] == '<plain>'
    assert json.loads(err.to_json(indent=None))['detail'] == '<plain>'


if __name__ == '__main__':
    check_import_paths()
    check_constructor()
    check_default()
    check_round_trips()
    check_json_error_pages()
    print('PASS')
