# -*- coding: utf-8 -*-
"""demo1: C03 -- middlewares nest in the documented M-shaped order.

Focus: merge_middlewares / BoundRoute.__init__ (application-, sub-application-
and route-level placement; unique / non-unique / non-reorderable types) and the
resulting enter/leave/raise trace of the compiled chain.

Standalone: run with /venv/bin/python demo1.py from the worktree; prints PASS.
"""
import os
import sys

sys.path.insert(0, os.path.dirname(os.path.abspath(__file__)))

from werkzeug.test import EnvironBuilder

from clastic import Application, Route, Middleware, Response, BaseResponse
from clastic.middleware.core import merge_middlewares

# --------------------------------------------------------------------------
# harness: tracing middlewares / endpoint / render, plus an independent model
# --------------------------------------------------------------------------

TRACE = []
PRODUCED = []  # every value object created by a layer / endpoint / render


class Boom(Exception):
    def __init__(self, tag):
        Exception.__init__(self, tag)
        self.tag = tag


def _produce(obj):
    PRODUCED.append(obj)
    return obj


def _run_layer(tag, mode, next):
    TRACE.append('>' + tag)
    if mode == 'raise_before':
        TRACE.append('!' + tag)
        raise Boom(tag)
    if mode == 'short':
        TRACE.append('<' + tag + ':short')
        return _produce(Response('short:' + tag))
    if mode == 'short_ctx':
        TRACE.append('<' + tag + ':short_ctx')
        return _produce({'ctx': 'short:' + tag})
    try:
        ret = next()
    except Boom as e:
        if mode == 'swallow':
            TRACE.append('~' + tag)
            return _produce(Response('swallowed:%s@%s' % (e.tag, tag)))
        TRACE.append('x' + tag)
        raise
    if mode == 'raise_after':
        TRACE.append('!' + tag)
        raise Boom(tag)
    TRACE.append('<' + tag)
    return ret


def mw_class(name, kinds='qer', unique=True, reorderable=True):
    ns = {'unique': unique, 'reorderable': reorderable}

    def __init__(self, label=None, **modes):
        self.label = label or name
        self.modes = modes
    ns['__init__'] = __init__
    ns['__repr__'] = lambda self: '<mw %s>' % self.label

    if 'q' in kinds:
        def request(self, next):
            return _run_layer(self.label + '.request',
                              self.modes.get('request', 'pass'), next)
        ns['request'] = request
    if 'e' in kinds:
        def endpoint(self, next):
            return _run_layer(self.label + '.endpoint',
                              self.modes.get('endpoint', 'pass'), next)
        ns['endpoint'] = endpoint
    if 'r' in kinds:
        def render(self, next, context):
            return _run_layer(self.label + '.render',
                              self.modes.get('render', 'pass'), next)
        ns['render'] = render
    return type(name, (Middleware,), ns)


class Core(object):
    """endpoint + render pair with switchable behaviour."""
    def __init__(self):
        self.ep_mode = 'ctx'
        self.rn_mode = 'ok'
        core = self

        def endpoint():
            TRACE.append('>endpoint')
            if core.ep_mode == 'raise':
                TRACE.append('!endpoint')
                raise Boom('endpoint')
            TRACE.append('<endpoint')
            if core.ep_mode == 'resp':
                return _produce(Response('ep-resp'))
            return _produce({'ctx': 'from-endpoint'})

        def render(context):
            TRACE.append('>render')
            if core.rn_mode == 'raise':
                TRACE.append('!render')
                raise Boom('render')
            TRACE.append('<render')
            return _produce(Response('rendered:' + context['ctx']))

        self.endpoint = endpoint
        self.render = render


def tokenise(obj):
    if isinstance(obj, BaseResponse):
        return ('resp', obj.get_data(as_text=True))
    return ('ctx', obj['ctx'])


def run_real(func, **kwargs):
    del TRACE[:]
    del PRODUCED[:]
    try:
        ret = func(**kwargs)
    except Boom as e:
        result = ('raised', e.tag)
    else:
        result = tokenise(ret)
        # what comes out of the chain IS the object some layer produced
        assert any(ret is p for p in PRODUCED), ret
    return list(TRACE), result


def layers(mws, kind):
    return [(mw.label + '.' + kind, mw.modes.get(kind, 'pass'))
            for mw in mws if getattr(mw, kind)]


def model(mws, ep_mode, rn_mode):
    """Independent reference semantics of the documented onion."""
    trace = []

    def chain(stack, final, i=0):
        if i == len(stack):
            return final()
        tag, mode = stack[i]
        trace.append('>' + tag)
        if mode == 'raise_before':
            trace.append('!' + tag)
            raise Boom(tag)
        if mode == 'short':
            trace.append('<' + tag + ':short')
            return ('resp', 'short:' + tag)
        if mode == 'short_ctx':
            trace.append('<' + tag + ':short_ctx')
            return ('ctx', 'short:' + tag)
        try:
            ret = chain(stack, final, i + 1)
        except Boom as e:
            if mode == 'swallow':
                trace.append('~' + tag)
                return ('resp', 'swallowed:%s@%s' % (e.tag, tag))
            trace.append('x' + tag)
            raise
        if mode == 'raise_after':
            trace.append('!' + tag)
            raise Boom(tag)
        trace.append('<' + tag)
        return ret

    def ep_final():
        trace.append('>endpoint')
        if ep_mode == 'raise':
            trace.append('!endpoint')
            raise Boom('endpoint')
        trace.append('<endpoint')
        return ('resp', 'ep-resp') if ep_mode == 'resp' else ('ctx', 'from-endpoint')

    def process_request():
        context = chain(layers(mws, 'endpoint'), ep_final)
        if context[0] == 'resp':
            return context

        def rn_final():
            trace.append('>render')
            if rn_mode == 'raise':
                trace.append('!render')
                raise Boom('render')
            trace.append('<render')
            return ('resp', 'rendered:' + context[1])
        return chain(layers(mws, 'render'), rn_final)

    try:
        result = chain(layers(mws, 'request'), process_request)
    except Boom as e:
        result = ('raised', e.tag)
    return trace, result


def model_merge(levels):
    """levels: outermost first.  Unique type appears once, outermost position."""
    out = []
    for level in levels:
        for mw in level:
            if mw.unique and any(type(o) is type(mw) for o in out):
                if not mw.reorderable:
                    raise ValueError('multiple inclusion of unique '
                                     'middleware %r' % mw.name)
                continue
            out.append(mw)
    return out


FAULTS = ('raise_before', 'raise_after', 'short', 'short_ctx', 'swallow')
CHECKS = [0]


def check_stack(execute, mws, core, full=True):
    """Cross every single / double fault with endpoint + render behaviours."""
    def one():
        got = run_real(execute)
        want = model(mws, core.ep_mode, core.rn_mode)
        assert got == want, '\n got %r\nwant %r' % (got, want)
        CHECKS[0] += 1

    def reset():
        for mw in mws:
            mw.modes.clear()

    slots = [(mw, kind) for mw in mws for kind in ('request', 'endpoint', 'render')
             if getattr(mw, kind)]
    for core.ep_mode in ('ctx', 'resp', 'raise'):
        for core.rn_mode in ('ok', 'raise'):
            reset()
            one()
            for mw, kind in slots:
                for fault in FAULTS:
                    reset()
                    mw.modes[kind] = fault
                    one()
    if full:
        # swallow at X crossed with a raise at Y
        core.ep_mode, core.rn_mode = 'ctx', 'ok'
        for smw, skind in slots:
            for rmw, rkind in slots:
                if smw is rmw and skind == rkind:
                    continue
                for fault in ('raise_before', 'raise_after'):
                    reset()
                    smw.modes[skind] = 'swallow'
                    rmw.modes[rkind] = fault
                    one()
    reset()
    core.ep_mode, core.rn_mode = 'ctx', 'ok'


def make_request(app, path='/'):
    return app.request_type(EnvironBuilder(path=path).get_environ())


def find_route(app, pattern):
    found = [rt for rt in app.routes if rt.pattern == pattern]
    assert len(found) == 1, (pattern, [rt.pattern for rt in app.routes])
    return found[0]


def same_objects(a, b):
    return len(a) == len(b) and all(x is y for x, y in zip(a, b))


# --------------------------------------------------------------------------
# demo 1 proper
# --------------------------------------------------------------------------

A = mw_class('A')
B = mw_class('B')
C = mw_class('C', kinds='qe')
D = mw_class('D', kinds='er')
E = mw_class('E', kinds='q')
N = mw_class('N', unique=False)                      # non-unique
X = mw_class('X', kinds='qr', reorderable=False)     # unique, not reorderable
NX = mw_class('NX', kinds='e', unique=False, reorderable=False)


def test_merge_direct():
    a1, a2, b1, c1, n1, n2, n3, x1, x2 = (A('a1'), A('a2'), B('b1'), C('c1'),
                                          N('n1'), N('n2'), N('n3'),
                                          X('x1'), X('x2'))
    # new (outer) first, then old minus unique duplicates
    assert same_objects(merge_middlewares([a1, c1], [b1]), [b1, a1, c1])
    assert same_objects(merge_middlewares([], []), [])
    assert same_objects(merge_middlewares([a1], []), [a1])
    assert same_objects(merge_middlewares([], [a1]), [a1])
    # unique duplicate: the outer (new) instance survives at its outer position
    assert same_objects(merge_middlewares([b1, a2, c1], [a1]), [a1, b1, c1])
    # duplicates inside old are de-duplicated against what was already merged
    assert same_objects(merge_middlewares([a1, b1, a2], []), [a1, b1])
    # duplicates inside new are left alone
    assert same_objects(merge_middlewares([b1], [a1, a2]), [a1, a2, b1])
    # non-unique types may repeat
    assert same_objects(merge_middlewares([n2, a2, n3], [n1, a1]),
                        [n1, a1, n2, n3])
    # non-unique + non-reorderable: still no complaint
    nx1, nx2 = NX('nx1'), NX('nx2')
    assert same_objects(merge_middlewares([nx2], [nx1]), [nx1, nx2])
    # non-reorderable unique without duplicate is fine
    assert same_objects(merge_middlewares([x1], [a1]), [a1, x1])
    # ... with duplicate is rejected, in either position
    for old, new in (([x2], [x1]), ([a1, x2], [b1, x1]), ([x1, b1, x2], [])):
        try:
            merge_middlewares(old, new)
        except ValueError as ve:
            assert str(ve) == "multiple inclusion of unique middleware 'X'", ve
        else:
            raise AssertionError('expected ValueError')
    # the reorderable duplicate before the offending one is skipped silently,
    # the error still surfaces
    try:
        merge_middlewares([a2, x2], [a1, x1])
    except ValueError:
        pass
    else:
        raise AssertionError('expected ValueError')

    # inputs of any iterable kind; result is a fresh list; inputs untouched
    old, new = (a1, c1), (b for b in [b1])
    res = merge_middlewares(old, new)
    assert type(res) is list and same_objects(res, [b1, a1, c1])
    old_l, new_l = [a2, c1], [a1]
    res = merge_middlewares(old_l, new_l)
    assert res is not old_l and res is not new_l
    assert same_objects(old_l, [a2, c1]) and same_objects(new_l, [a1])
    res.append(n1)
    assert same_objects(new_l, [a1])

    # instance-level 'unique' override with a falsy non-bool value
    a3 = A('a3')
    a3.unique = 0
    assert same_objects(merge_middlewares([a3], [a1]), [a1, a3])
    a3.unique = ''
    assert same_objects(merge_middlewares([a3], [a1]), [a1, a3])
    a3.unique = 'yes'
    assert same_objects(merge_middlewares([a3], [a1]), [a1])
    # instance-level reorderable falsy value
    a3.reorderable = 0
    try:
        merge_middlewares([a3], [a1])
    except ValueError:
        pass
    else:
        raise AssertionError('expected ValueError')
    # mw.reorderable is not consulted (may be absent) when there is no duplicate
    class Bare(object):
        unique = True
        name = 'Bare'
    bare = Bare()
    assert same_objects(merge_middlewares([bare], [a1]), [a1, bare])
    class NoUnique(object):
        pass
    try:
        merge_middlewares([NoUnique()], [])
    except AttributeError:
        pass
    else:
        raise AssertionError('expected AttributeError')
    CHECKS[0] += 1


def build(levels, route_mws, core):
    """levels: app-level middleware lists, outermost first."""
    route = Route('/x', core.endpoint, core.render, middlewares=route_mws)
    app = Application([route], middlewares=levels[-1])
    pattern = '/x'
    for i, mws in enumerate(reversed(levels[:-1])):
        app = Application([('/p%d' % i, app)], middlewares=mws)
        pattern = '/p%d' % i + pattern
    return app, find_route(app, pattern), route


def test_placements():
    configs = {
        'app only': ([[A('A@app'), B('B@app'), C('C@app')]], []),
        'route only': ([[]], [D('D@rt'), A('A@rt'), E('E@rt')]),
        'no middlewares': ([[]], []),
        'app + route, dups': ([[A('A@app'), N('N@app'), B('B@app')]],
                              [B('B@rt'), D('D@rt'), N('N@rt'), A('A@rt')]),
        'outer + inner + route': ([[A('A@out'), B('B@out')],
                                   [A('A@in'), C('C@in'), N('N@in')]],
                                  [B('B@rt'), D('D@rt'), N('N@rt')]),
        'three app levels': ([[E('E@0'), N('N@0')],
                              [A('A@1'), E('E@1')],
                              [X('X@2'), A('A@2'), N('N@2')]],
                             [D('D@rt'), E('E@rt'), N('N@rt'), C('C@rt')]),
        'inner dup of route-level type': ([[B('B@out')], [D('D@in')]],
                                          [D('D@rt'), B('B@rt'), A('A@rt')]),
    }
    for name, (levels, route_mws) in sorted(configs.items()):
        core = Core()
        app, bound, route = build(levels, route_mws, core)
        expected = model_merge(levels + [route_mws])
        assert type(bound.middlewares) is tuple, name
        assert same_objects(bound.middlewares, expected), \
            (name, bound.middlewares, expected)
        # source lists are not modified by binding
        assert same_objects(route.middlewares, route_mws), name
        request = make_request(app, bound.pattern)
        check_stack(lambda: bound.execute(request=request), expected, core,
                    full=(len(expected) <= 4))

    # through the full WSGI stack as well: trace is the same, exceptions -> 500
    core = Core()
    levels, route_mws = configs['outer + inner + route']
    app, bound, _ = build(levels, route_mws, core)
    expected = model_merge(levels + [route_mws])
    client = app.get_local_client()
    del TRACE[:]
    resp = client.get(bound.pattern)
    assert resp.status_code == 200
    assert resp.get_data(as_text=True) == 'rendered:from-endpoint'
    assert TRACE == model(expected, 'ctx', 'ok')[0]
    core.ep_mode = 'resp'
    del TRACE[:]
    resp = client.get(bound.pattern)
    assert resp.get_data(as_text=True) == 'ep-resp'
    assert '>render' not in TRACE and TRACE == model(expected, 'resp', 'ok')[0]
    core.ep_mode = 'raise'
    del TRACE[:]
    resp = client.get(bound.pattern)
    assert resp.status_code == 500
    assert TRACE == model(expected, 'raise', 'ok')[0]
    CHECKS[0] += 3


def test_rejections():
    core = Core()
    cases = [
        ([[X('X@app')]], [X('X@rt')]),
        ([[X('X@out')], [X('X@in')]], []),
        ([[X('X@out'), A('A@out')], [B('B@in')]], [A('A@rt'), X('X@rt')]),
    ]
    for levels, route_mws in cases:
        try:
            build(levels, route_mws, core)
        except ValueError as ve:
            assert str(ve) == "multiple inclusion of unique middleware 'X'", ve
        else:
            raise AssertionError('expected ValueError')
        CHECKS[0] += 1
    # non-reorderable without duplicates binds fine and keeps its position
    levels, route_mws = [[A('A@out')], [X('X@in'), B('B@in')]], [C('C@rt')]
    app, bound, _ = build(levels, route_mws, core)
    assert [mw.label for mw in bound.middlewares] == ['A@out', 'X@in', 'B@in', 'C@rt']


def test_objects_without_middleware_lists():
    # BoundRoute falls back to [] when app / route carry no 'middlewares'
    from clastic.route import BoundRoute
    core = Core()
    app = Application([], middlewares=[A('A@app')])
    route = Route('/y', core.endpoint, core.render)
    del route.middlewares
    bound = BoundRoute(route, app)
    assert [mw.label for mw in bound.middlewares] == ['A@app']
    route2 = Route('/z', core.endpoint, core.render, middlewares=[B('B@rt')])
    saved = app.middlewares
    del app.middlewares
    try:
        bound2 = BoundRoute(route2, app)
    finally:
        app.middlewares = saved
    assert [mw.label for mw in bound2.middlewares] == ['B@rt']
    CHECKS[0] += 2


if __name__ == '__main__':
    test_merge_direct()
    test_placements()
    test_rejections()
    test_objects_without_middleware_lists()
    assert CHECKS[0] > 1000, CHECKS[0]
    print('PASS (%d checks)' % CHECKS[0])
