# -*- coding: utf-8 -*-
"""demo3: the Flaw failsafe page works for any start-up error text.

Specific focus: the traceback parser as reached through clastic.flaw (the
names _ParsedTB / _frame_re / _se_frame_re stay importable from there), the
exception types it raises on unrecognized input, which create_app must swallow,
and the fact that create_app really uses flaw._ParsedTB (patchable there).
Prints PASS and exits 0 on unmodified code and with patch3.diff applied.
"""
import sys
import html
import traceback

from werkzeug.test import Client
from werkzeug.wrappers import Response

from clastic import flaw


def esc(text):
    return html.escape(text, True)


def get(app, path='/', method='GET'):
    resp = Client(app, Response).open(path, method=method)
    return resp.status_code, resp.get_data(as_text=True)


def real_tb(exc, depth=0):
    def rec(n):
        if n:
            return rec(n - 1)
        raise exc
    try:
        rec(depth)
    except BaseException:
        return traceback.format_exc()


SE_TB = ('  File "broken.py", line 3\n'
         '    def f(:\n'
         '          ^\n'
         'SyntaxError: invalid syntax\n')

HAND_TB = ('Traceback (most recent call last):\n'
           '  File "/srv/app/run.py", line 10, in <module>\n'
           '    main()\n'
           '  File "/srv/app/my "mod".py", line 7, in main\n'
           "    raise ValueError('v: w')\n"
           'ValueError: v: w\n')

TEXTS = [
    HAND_TB,
    real_tb(ValueError('bad <b>value</b> & "more"'), 0),
    real_tb(KeyError('k'), 3),
    real_tb(RuntimeError('{tb_str} {#parsed_err}x{/parsed_err}'), 1),
    real_tb(OSError(2, 'No such file'), 2),
    real_tb(ZeroDivisionError('division by zero'), 7),
    SE_TB,
    real_tb(NameError('nope'), 2)[:-20],
    real_tb(NameError('a'), 1) + real_tb(TypeError('b: c'), 2),
    'just some text',
    'one\ntwo\nthree: four',
    '<script>alert(1)</script>',
    '{#mon_files}{.}{/mon_files} {>partial/} {~lb} {!c!} {@eq key=1 value=1}y{/eq}',
    '\x00\x01\x7f \t tab',
    u'unicode ☃ snowman: \xe9',
    'Traceback (most recent call last):',
    'Traceback (most recent call last):\n  File "x.py", line 1, in f\nFooError: msg',
    '',
    '   \n  \n',
]
FILES = [None, [], ['/srv/app/a.py'],
         ['/srv/<b>.py', '/srv/a&b.py', '/srv/"q".py', '/s/{x}.py'],
         ['/srv/app/m%03d.py' % i for i in range(60)]]
PATHS = ['/', '/x', '/a/b/c', '/clastic_assetsx', '/%7Bx%7D', '/a//b/']


def check_page(text, files):
    app = flaw.create_app(text, files and list(files))
    for path in PATHS:
        for method in ('GET', 'POST'):
            status, body = get(app, path, method)
            assert status == 200, (status, path, text)
            assert '<pre>%s</pre>' % esc(text) in body, (path, text)
            for fn in files or ():
                assert '<li>%s</li>' % esc(fn) in body, (fn, path)
    return get(app, '/')[1]


def main():
    for text in TEXTS:
        for files in FILES:
            check_page(text, files)

    # standard tracebacks name type and message
    for exc, depth in [(ValueError('bad <b>value</b>'), 0), (KeyError('k'), 3),
                       (RuntimeError('{tb_str}'), 1),
                       (ZeroDivisionError('division by zero'), 9)]:
        text = real_tb(exc, depth)
        body = check_page(text, ['/srv/a.py'])
        last = text.splitlines()[-1]
        etype, _, emsg = last.partition(':')
        assert ('<h2 class="parsed-error-h2">%s<p>%s</p></h2>'
                % (esc(etype), esc(emsg))) in body, body
        assert "<title>Oh, Flaw'd: %s in </title>" % esc(etype) in body
        assert 'unparsed-error-h2' not in body
    body = check_page(SE_TB, None)
    assert '<h2 class="parsed-error-h2">SyntaxError<p> invalid syntax</p></h2>' in body

    # unparseable text falls back to the last line
    body = check_page('one\ntwo\n<three>', None)
    assert '<h2 class="unparsed-error-h2">&lt;three&gt;</h2>' in body
    assert "<title>Oh, Flaw'd:  in </title>" in body
    body = check_page('', None)
    assert '<h2 class="unparsed-error-h2">Unknown error</h2>' in body

    # not text at all
    for text in (None, b'Traceback (most recent call last):\n  File "x.py", line 1, in f\n    y\nFooError: msg',
                 b'\xff\xfe junk', 12, ['a']):
        app = flaw.create_app(text, ['/srv/<a>.py'])
        for path in PATHS:
            status, body = get(app, path)
            assert status == 200, (status, text)
            assert '<li>/srv/&lt;a&gt;.py</li>' in body
    body = get(flaw.create_app(b'Traceback (most recent call last):\n  File "x.py", line 1, in f\n    y\nFooError: msg'))[1]
    assert '<h2 class="parsed-error-h2">FooError<p> msg</p></h2>' in body

    # -- specific to refactoring 3: the parser, reached through clastic.flaw
    from clastic.flaw import _ParsedTB, _frame_re, _se_frame_re
    import clastic.flaw as flaw_mod
    assert flaw_mod._ParsedTB is _ParsedTB and flaw is flaw_mod
    assert _frame_re.pattern.endswith(r', in (?P<funcname>.+)$')
    assert _frame_re.pattern.startswith(_se_frame_re.pattern)
    assert _ParsedTB.__name__ == '_ParsedTB'
    for name in ('create_app', 'get_flaw_info', '_FLAW_TEMPLATE', '_filter_site_files',
                 '_ParsedTB', '_frame_re', '_se_frame_re', '_ASSET_PATH', '_CUR_PATH'):
        assert hasattr(flaw, name), name

    ptb = _ParsedTB.from_string(HAND_TB)
    assert isinstance(ptb, _ParsedTB)
    assert ptb.to_dict() == {
        'exc_type': 'ValueError', 'exc_msg': ' v: w',
        'frames': [{'filepath': '/srv/app/run.py', 'lineno': '10',
                    'funcname': '<module>', 'source_line': 'main()'},
                   {'filepath': '/srv/app/my "mod".py', 'lineno': '7',
                    'funcname': 'main', 'source_line': "raise ValueError('v: w')"}]}
    assert ptb.to_dict()['frames'] is ptb.frames
    assert ptb.source_file == '/srv/app/my "mod".py'
    assert _ParsedTB('E', 'm').frames == [] and _ParsedTB('E', 'm').source_file is None
    frames = ({'filepath': 'f'},)
    assert _ParsedTB('E', 'm', frames).frames == [{'filepath': 'f'}]
    assert _ParsedTB.from_string(HAND_TB.encode('utf-8')).to_dict() == ptb.to_dict()
    assert _ParsedTB.from_string('\n\n  ' + HAND_TB).to_dict() == ptb.to_dict()

    # ignored-exception trailer, and the bottom-most "Type: message" line wins
    ptb = _ParsedTB.from_string(HAND_TB + 'Exception KeyError in <x> ignored\n')
    assert (ptb.exc_type, ptb.exc_msg) == ('ValueError', ' v: w')
    ptb = _ParsedTB.from_string(HAND_TB + 'not an exception line: really\n')
    assert (ptb.exc_type, ptb.exc_msg) == ('ValueError', ' v: w')
    # no such line at all: the values of the top-most line are left over
    ptb = _ParsedTB.from_string('Traceback (most recent call last):\nno colon here\n')
    assert (ptb.exc_type, ptb.exc_msg, ptb.frames) == ('Traceback (most recent call last)', '', [])

    ptb = _ParsedTB.from_string(SE_TB)
    assert ptb.to_dict() == {'exc_type': 'SyntaxError', 'exc_msg': ' invalid syntax',
                             'frames': [{'filepath': 'broken.py', 'lineno': '3',
                                         'source_line': 'def f(:'}]}

    for bad, exc_type in [('', IndexError), ('  \n ', IndexError), ('plain', ValueError),
                          ('a\nb\nc', ValueError), (None, AttributeError),
                          (12, AttributeError), (b'\xff', UnicodeDecodeError),
                          ('Traceback (most recent call last):\n'
                           '  File "x.py", line 1, in f\nFooError: msg', IndexError)]:
        try:
            _ParsedTB.from_string(bad)
        except exc_type as e:
            assert type(e) is exc_type, (bad, e)
        else:
            assert False, bad
        status, body = get(flaw.create_app(bad, None), '/anything')
        assert status == 200 and 'unparsed-error-h2' in body

    # create_app looks the parser up in clastic.flaw's namespace at call time
    class Boom(object):
        @classmethod
        def from_string(cls, tb_str):
            raise KeyboardInterrupt('even this is swallowed by the bare except')
    orig = flaw._ParsedTB
    flaw._ParsedTB = Boom
    try:
        body = get(flaw.create_app(HAND_TB, None))[1]
    finally:
        flaw._ParsedTB = orig
    assert 'class="unparsed-error-h2"' in body and 'class="parsed-error-h2"' not in body
    body = get(flaw.create_app(HAND_TB, None))[1]
    assert '<h2 class="parsed-error-h2">ValueError<p> v: w</p></h2>' in body
    print('PASS')


if __name__ == '__main__':
    main()
    sys.exit(0)
