# -*- coding: utf-8 -*-
"""demo1: concurrent requests on one Application do not interfere.

Focus: Application._dispatch_wsgi / Application.dispatch (request ids,
per-request params, dispatch state, slash redirects, fallthrough, uncaught
errors, RerouteWSGI).  Prints PASS and exits 0 on success.
"""
import sys
import json
import time
import random
import threading

sys.setswitchinterval(1e-6)

from clastic import (Application, Route, POST, Middleware, Response, Request,
                     RerouteWSGI, S_STRICT, S_REWRITE)
from clastic.errors import NotFound, ImATeapot, ErrorHandler
from clastic.utils import int2hexguid

SEEN_IDS = []  # list.append is atomic


def _yield():
    for _ in range(3):
        time.sleep(0)


class UserMW(Middleware):
    provides = ('user',)

    def request(self, next, request):
        # a request may run several routes (fallthrough, null route): the id
        # must be stable across them, and is recorded once per request
        if getattr(request, '_demo_seen_id', None) is None:
            request._demo_seen_id = request.request_id
            SEEN_IDS.append((request.request_id, request.request_guid))
        assert request._demo_seen_id == request.request_id
        user = 'u:' + request.args.get('u', 'anon')
        _yield()
        resp = next(user=user)
        assert 'u:' + request.args.get('u', 'anon') == user
        return resp


class TokenMW(Middleware):
    endpoint_provides = ('token',)

    def endpoint(self, next, user, request):
        _yield()
        return next(token='%s@%s' % (user, request.path))


class SuffixMW(Middleware):
    render_provides = ('suffix',)

    def render(self, next, context, user):
        _yield()
        return next(suffix='|' + user)


def render_ctx(context, suffix, request):
    body = json.dumps(context, sort_keys=True) + suffix + '|' + request.path
    return Response(body, mimetype='text/plain')


def ep_hello(name, user, token, request, _route, _dispatch_state, greeting):
    _yield()
    return {'ep': 'hello', 'name': name, 'user': user, 'token': token,
            'pp': request.path_params, 'pattern': _route.pattern,
            'excs': len(_dispatch_state.exceptions), 'greeting': greeting,
            'q': request.args.get('u')}


def ep_num(n, user, times=2):
    _yield()
    return {'ep': 'num', 'n': n * times, 'user': user}


def ep_post(request, user):
    return {'ep': 'post', 'method': request.method, 'user': user}


def ep_boom(name, user):
    _yield()
    raise ValueError('boom-%s-%s' % (name, user))


def ep_teapot(user):
    raise ImATeapot(detail='tea for ' + user)


def ep_fall_first(x, user):
    _yield()
    raise NotFound(detail='first declined %s for %s' % (x, user),
                   is_breaking=False)


def ep_fall_second(x, user, _dispatch_state):
    _yield()
    return {'ep': 'fall2', 'x': x, 'user': user,
            'prev': [e.detail for e in _dispatch_state.exceptions]}


def ep_fall_never(y, user):
    raise NotFound(detail='always declined %s for %s' % (y, user),
                   is_breaking=False)


def ep_branch(user, request):
    return {'ep': 'branch', 'user': user, 'qs': request.query_string.decode('utf8')}


def ep_quoted(name, user):
    return {'ep': 'quoted', 'name': name, 'user': user}


def ep_direct(user):
    return Response('direct ' + user, mimetype='text/plain')


def ep_notresp(user):
    return {'not': 'a response', 'user': user}


def other_wsgi(environ, start_response):
    start_response('200 OK', [('Content-Type', 'text/plain')])
    return [('rerouted ' + environ['QUERY_STRING']).encode('utf8')]


def make_routes():
    return [('/hello/<name>', ep_hello, render_ctx),
            ('/num/<n:int>', ep_num, render_ctx),
            POST('/post_only', ep_post, render_ctx),
            ('/boom/<name>', ep_boom, render_ctx),
            ('/teapot', ep_teapot, render_ctx),
            ('/fall/<x>', ep_fall_first, render_ctx),
            ('/fall/<x>', ep_fall_second, render_ctx),
            ('/never/<y>', ep_fall_never, render_ctx),
            ('/branch/', ep_branch, render_ctx),
            ('/q/<name>/', ep_quoted, render_ctx),
            ('/direct', ep_direct, render_ctx),
            ('/notresp', ep_notresp, lambda context: context),
            ('/reroute', RerouteWSGI(other_wsgi))]


def make_app(**kw):
    return Application(make_routes(), resources={'greeting': 'hi'},
                       middlewares=[UserMW(), TokenMW(), SuffixMW()], **kw)


def fetch(app, method, url):
    client = app.get_local_client()
    resp = client.open(url, method=method)
    return (resp.status_code, resp.get_data(as_text=True),
            resp.headers.get('Location'), resp.headers.get('Allow'))


REQUESTS = [('GET', '/hello/alice?u=1'),
            ('GET', '/hello/bob?u=2'),
            ('HEAD', '/hello/carol?u=2h'),
            ('GET', '/num/21?u=3'),
            ('GET', '/num/-4?u=4'),
            ('GET', '/num/notanint?u=5'),
            ('POST', '/post_only?u=6'),
            ('GET', '/post_only?u=7'),
            ('GET', '/boom/x?u=8'),
            ('GET', '/boom/y?u=9'),
            ('GET', '/teapot?u=10'),
            ('GET', '/fall/a?u=11'),
            ('GET', '/fall/b?u=12'),
            ('GET', '/never/c?u=13'),
            ('GET', '/branch?u=14&k=v'),
            ('GET', '/branch/?u=15'),
            ('GET', '/q/a%3Fb?u=16'),
            ('GET', '/direct?u=17'),
            ('GET', '/missing?u=18'),
            ('GET', '/notresp?u=19'),
            ('GET', '/reroute?u=20'),
            ('GET', '/hello/anon-user'),
            ('GET', '/')]


def check_sequential(expected):
    e = expected
    assert e[('GET', '/hello/alice?u=1')][0] == 200
    body = e[('GET', '/hello/alice?u=1')][1]
    ctx = json.loads(body.split('|')[0])
    assert ctx == {'ep': 'hello', 'name': 'alice', 'user': 'u:1',
                   'token': 'u:1@/hello/alice', 'pp': {'name': 'alice'},
                   'pattern': '/hello/<name>', 'excs': 0, 'greeting': 'hi',
                   'q': '1'}, ctx
    assert body.endswith('|u:1|/hello/alice'), body
    assert json.loads(e[('GET', '/num/21?u=3')][1].split('|')[0])['n'] == 42
    assert json.loads(e[('GET', '/num/-4?u=4')][1].split('|')[0])['n'] == -8
    assert e[('GET', '/num/notanint?u=5')][0] == 404
    assert e[('POST', '/post_only?u=6')][0] == 200
    st, body, _, allow = e[('GET', '/post_only?u=7')]
    assert st == 405 and allow == 'POST', (st, allow)
    st, body, _, _ = e[('GET', '/boom/x?u=8')]
    assert st == 500 and 'boom-x-u:8' in body, (st, body)
    st, body, _, _ = e[('GET', '/teapot?u=10')]
    assert st == 418 and 'tea for u:10' in body, (st, body)
    st, body, _, _ = e[('GET', '/fall/a?u=11')]
    assert st == 200, st
    assert json.loads(body.split('|')[0])['prev'] == ['first declined a for u:11']
    st, body, _, _ = e[('GET', '/never/c?u=13')]
    assert st == 404 and 'always declined c for u:13' in body, (st, body)
    st, _, loc, _ = e[('GET', '/branch?u=14&k=v')]
    assert st in (301, 302, 303, 307, 308) and loc.endswith('/branch/?u=14&k=v'), (st, loc)
    assert e[('GET', '/branch/?u=15')][0] == 200
    st, _, loc, _ = e[('GET', '/q/a%3Fb?u=16')]
    assert st in (301, 302, 303, 307, 308) and loc.endswith('/q/a%3Fb/?u=16'), (st, loc)
    assert e[('GET', '/direct?u=17')][:2] == (200, 'direct u:17')
    assert e[('GET', '/missing?u=18')][0] == 404
    st, body, _, _ = e[('GET', '/notresp?u=19')]
    assert st == 500 and 'expected Response' in body, (st, body)
    assert e[('GET', '/reroute?u=20')][:2] == (200, 'rerouted u=20')
    assert e[('GET', '/')][0] == 404


def run_group(app, group, expected):
    barrier = threading.Barrier(len(group))
    results = [None] * len(group)
    errors = []

    def worker(i, req):
        try:
            barrier.wait()
            results[i] = fetch(app, *req)
        except Exception as exc:  # pragma: no cover
            errors.append((req, repr(exc)))

    threads = [threading.Thread(target=worker, args=(i, req))
               for i, req in enumerate(group)]
    for t in threads:
        t.start()
    for t in threads:
        t.join()
    assert not errors, errors
    for req, res in zip(group, results):
        assert res == expected[req], (req, res, expected[req])


def stress(app, expected, n_threads=8, per_thread=40, seed=7):
    errors = []

    def worker(tid):
        rng = random.Random(seed * 1000 + tid)
        try:
            for _ in range(per_thread):
                req = rng.choice(REQUESTS)
                res = fetch(app, *req)
                assert res == expected[req], (req, res, expected[req])
        except Exception as exc:
            errors.append(repr(exc))

    threads = [threading.Thread(target=worker, args=(i,)) for i in range(n_threads)]
    for t in threads:
        t.start()
    for t in threads:
        t.join()
    assert not errors, errors[:3]


def check_ids():
    ids = [i for i, _ in SEEN_IDS]
    assert len(ids) > 100
    assert len(set(ids)) == len(ids), 'duplicate request ids'
    for i, guid in SEEN_IDS:
        assert isinstance(i, int) and guid == int2hexguid(i), (i, guid)


def check_dispatch_specifics():
    # request types which refuse assignment of request_id are served untagged
    class FrozenRequest(Request):
        def __setattr__(self, key, value):
            if key == 'request_id':
                raise AttributeError(key)
            super(FrozenRequest, self).__setattr__(key, value)

    class FrozenApp(Application):
        request_type = FrozenRequest

    def ep_tags(request):
        return Response('%s %s' % (hasattr(request, 'request_id'),
                                   hasattr(request, 'request_guid')))

    fapp = FrozenApp([('/tags', ep_tags)])
    assert fetch(fapp, 'GET', '/tags')[:2] == (200, 'False False')
    napp = Application([('/tags', ep_tags)])
    assert fetch(napp, 'GET', '/tags')[:2] == (200, 'True True')

    # S_STRICT: no redirect, a 404 instead; S_REWRITE: served in place
    sapp = make_app(slash_mode=S_STRICT)
    assert fetch(sapp, 'GET', '/branch?u=1')[0] == 404
    assert fetch(sapp, 'GET', '/branch/?u=1')[0] == 200
    rapp = make_app(slash_mode=S_REWRITE)
    st, body, loc, _ = fetch(rapp, 'GET', '/branch?u=1&z=2')
    assert st == 200 and loc is None, (st, loc)
    assert json.loads(body.split('|')[0])['qs'] == 'u=1&z=2'

    # a route-level strict slash mode on a branch route -> 404 recorded in
    # the dispatch state and returned by the null route
    strict_route = Route('/sb/', ep_branch, render_ctx, slash_mode=S_STRICT)
    mixapp = make_app(slash_mode=S_REWRITE)
    mixapp.add(strict_route, inherit_slashes=False)
    assert fetch(mixapp, 'GET', '/sb/?u=1')[0] == 200
    assert fetch(mixapp, 'GET', '/sb?u=1')[0] == 404

    # reraise_uncaught: the original exception propagates out of dispatch
    xapp = make_app(error_handler=ErrorHandler(reraise_uncaught=True))
    try:
        fetch(xapp, 'GET', '/boom/z?u=r')
    except ValueError as ve:
        assert str(ve) == 'boom-z-u:r', ve
    else:
        raise AssertionError('expected ValueError to propagate')
    # ... but HTTPExceptions are still rendered
    assert fetch(xapp, 'GET', '/teapot?u=r')[0] == 418


def main():
    app = make_app()
    expected = dict((req, fetch(app, *req)) for req in REQUESTS)
    check_sequential(expected)
    # sequential responses are reproducible
    for req in REQUESTS:
        assert fetch(app, *req) == expected[req], req

    rng = random.Random(12)
    for _ in range(120):
        group = rng.sample(REQUESTS, rng.randint(2, 4))
        run_group(app, group, expected)
    # same route, different parameters
    for _ in range(30):
        run_group(app, [('GET', '/hello/alice?u=1'), ('GET', '/hello/bob?u=2'),
                        ('GET', '/boom/x?u=8'), ('GET', '/boom/y?u=9')], expected)
        run_group(app, [('GET', '/fall/a?u=11'), ('GET', '/fall/b?u=12'),
                        ('GET', '/never/c?u=13')], expected)
    stress(app, expected)
    check_ids()
    check_dispatch_specifics()
    print('PASS')


if __name__ == '__main__':
    main()
