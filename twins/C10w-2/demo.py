# -*- coding: utf-8 -*-
"""demo2: embedding == flat declaration, with the focus on what dispatch does
with the outcome of an (embedded) route: plain responses, breaking and
non-breaking HTTP errors, uncaught exceptions, non-Response return values,
failing error renderers, WSGI re-routing, slash modes at every depth.
"""
import itertools

from clastic import (Application, SubApplication, Route, GET, POST,
                     RerouteWSGI, S_REDIRECT, S_REWRITE, S_STRICT)
from clastic.errors import (ErrorHandler, HTTPException, NotFound, Forbidden,
                            BadRequest, InternalServerError)
from clastic.middleware import Middleware
from werkzeug.wrappers import Response


def text_render(context):
    return Response(repr(context), mimetype='text/plain')


class Trace(Middleware):
    def __init__(self, tag):
        self.tag = tag

    def request(self, next, request):
        resp = next()
        if isinstance(resp, Response) or isinstance(resp, HTTPException):
            resp.headers.add('X-Trace', self.tag)
        return resp


class TraceA(Trace):
    pass


class TraceB(Trace):
    pass


class TraceC(Trace):
    pass


class LevelErrorHandler(ErrorHandler):
    def __init__(self, tag, explode_on=()):
        super(LevelErrorHandler, self).__init__()
        self.tag = tag
        self.explode_on = explode_on

    def render_error(self, request, _error, _route, _dispatch_state, level):
        if _error.code in self.explode_on:
            raise RuntimeError('renderer broke')
        body = 'EH[%s] code=%s level=%s src=%s soft=%s' % (
            self.tag, _error.code, level, _error.source_route.pattern,
            [e.code for e in _dispatch_state.exceptions])
        resp = Response(body, status=_error.code, mimetype='text/plain')
        for tag in _error.headers.getlist('X-Trace'):
            resp.headers.add('X-Trace', tag)
        return resp


# ---- endpoints of the innermost application

def ep_ok(level, only_inner='-'):
    return {'level': level, 'only_inner': only_inner}


def ep_soft_forbidden():
    return Forbidden(detail='soft', is_breaking=False)


def ep_soft_raise():
    raise BadRequest(detail='soft-raised', is_breaking=False)


def ep_after_soft(level):
    return {'after_soft': level}


def ep_hard():
    raise Forbidden(detail='hard')


def ep_hard_returned():
    return NotFound(detail='hard-returned')


def ep_value_error():
    raise ValueError('uncaught')


def ep_teapot():
    raise HTTPException(code=418, detail='teapot')


def ep_raw_context():
    return {'no': 'renderer'}


def ep_response():
    return Response('direct', status=202)


def ep_num(num):
    return {'num': num}


def other_wsgi(environ, start_response):
    start_response('200 OK', [('Content-Type', 'text/plain')])
    return [b'rerouted:' + environ['PATH_INFO'].encode('ascii')]


def inner_routes():
    return [GET('/ok', ep_ok, text_render),
            GET('/branch/', ep_ok, text_render),
            GET('/soft', ep_soft_forbidden, text_render),
            GET('/soft', ep_after_soft, text_render),          # reached after the soft error
            GET('/soft2', ep_soft_forbidden, text_render),     # nothing after: null route reports it
            GET('/soft3', ep_soft_raise, text_render),
            GET('/soft3', ep_soft_forbidden, text_render),     # two soft errors, last one reported
            GET('/hard', ep_hard, text_render),
            GET('/hard', ep_after_soft, text_render),          # never reached
            GET('/hard_returned', ep_hard_returned, text_render),
            GET('/valerr', ep_value_error, text_render),
            GET('/teapot', ep_teapot, text_render),
            GET('/raw', ep_raw_context),                       # noop render -> TypeError -> 500
            Route('/direct', ep_response),
            POST('/num/<num:int>', ep_num, text_render),
            GET('/num/<num:int>/', ep_num, text_render),
            Route('/wsgi', RerouteWSGI(other_wsgi))]


REQUESTS = [('GET', p) for p in
            ['/ok', '/ok/', '/branch/', '/branch', '/branch//', '/soft', '/soft2', '/soft3',
             '/hard', '/hard_returned', '/valerr', '/teapot', '/raw', '/direct',
             '/num/5', '/num/5/', '/num/x', '/wsgi', '/missing', '', '/']]
REQUESTS += [('POST', '/num/7'), ('POST', '/ok'), ('DELETE', '/num/7'), ('HEAD', '/ok')]


def snapshot(app, paths):
    cl = app.get_local_client()
    out = []
    for method, path in paths:
        resp = cl.open(path or '/', method=method)
        body = resp.get_data(True)
        if resp.status_code == 500 and not body.startswith('EH['):
            body = body[:40]
        out.append((method, path, resp.status_code, body,
                    resp.headers.get('Location'),
                    tuple(resp.headers.getlist('X-Trace')),
                    resp.headers.get('Allow')))
    return out


def build(prefixes, slash_modes, inherit, explode_on):
    """prefixes: one per embedding level, outermost first.
    Returns (nested app, flat app, full prefix)."""
    depth = len(prefixes)
    level_names = ['outer', 'mid', 'low'][:depth] + ['inner']
    mw_types = [TraceA, TraceB, TraceC, TraceB]      # the innermost shares a type with 'mid'
    # innermost application
    app = Application(inner_routes(),
                      resources={'level': 'inner', 'only_inner': 'yes'},
                      middlewares=[mw_types[3]('inner')],
                      slash_mode=slash_modes[-1],
                      error_handler=LevelErrorHandler('inner'))
    # wrap it, innermost embedding first
    for i in reversed(range(depth)):
        sub = SubApplication(prefixes[i], app, inherit_slashes=inherit)
        app = Application([GET('/top', ep_ok, text_render), sub,
                           GET('/bottom/', ep_ok, text_render)],
                          resources={'level': level_names[i]},
                          middlewares=[mw_types[i](level_names[i])],
                          slash_mode=slash_modes[i],
                          error_handler=LevelErrorHandler(level_names[i], explode_on))
    nested = app
    full_prefix = ''.join(p.rstrip('/') for p in prefixes)

    # ---- the independent flat declaration
    def level_mws(i):
        """middlewares a route declared at level i picks up from the levels
        1..i (level 0 is the flat application's own list; the innermost
        application is handled by the caller)"""
        return [mw_types[j](level_names[j]) for j in range(1, min(i, depth - 1) + 1)]

    def flat_level(i, prefix_so_far):
        """routes of level i (0 = outermost) as the outermost app sees them"""
        if i == depth:   # the innermost application's own routes
            inner_mws = [mw_types[3]('inner')]
            if depth >= 2:
                inner_mws = []       # TraceB already supplied by the 'mid' level (outermost position)
            return [type(r)(prefix_so_far + r.pattern, r.endpoint, r.render,
                            resources={'only_inner': 'yes'}, middlewares=level_mws(i) + inner_mws,
                            slash_mode=slash_modes[-1])
                    for r in inner_routes()]
        here = prefix_so_far + prefixes[i].rstrip('/')
        top = GET(prefix_so_far + '/top', ep_ok, text_render,
                  middlewares=level_mws(i), slash_mode=slash_modes[i])
        bottom = GET(prefix_so_far + '/bottom/', ep_ok, text_render,
                     middlewares=level_mws(i), slash_mode=slash_modes[i])
        return [top] + flat_level(i + 1, here) + [bottom]

    flat = Application([], resources={'level': 'outer'},
                       middlewares=[TraceA('outer')], slash_mode=slash_modes[0],
                       error_handler=LevelErrorHandler('outer', explode_on))
    for rt in flat_level(0, ''):
        # with inheritance every route follows the serving application's
        # slash mode, without it each keeps the mode of its declaring level
        flat.add(rt, inherit_slashes=inherit)
    return nested, flat, full_prefix


def check(prefixes, slash_modes, inherit, explode_on):
    nested, flat, full_prefix = build(prefixes, slash_modes, inherit, explode_on)
    assert [r.pattern for r in nested.routes] == [r.pattern for r in flat.routes]
    assert [r.slash_mode for r in nested.routes] == [r.slash_mode for r in flat.routes], \
        (prefixes, slash_modes, inherit)
    assert [[m.tag for m in r.middlewares] for r in nested.routes] == \
        [[m.tag for m in r.middlewares] for r in flat.routes]

    paths = []
    partial = ''
    for p in prefixes:      # requests under every intermediate prefix, too
        paths += [(m, partial + q) for m, q in [('GET', '/top'), ('GET', '/bottom'), ('GET', '/bottom/'),
                                                ('GET', '/nope'), ('POST', '/top')]]
        partial += p.rstrip('/')
    paths += [(m, full_prefix + q) for m, q in REQUESTS]
    got, want = snapshot(nested, paths), snapshot(flat, paths)
    assert got == want, [(g, w) for g, w in zip(got, want) if g != w][:3]

    by_path = dict(((m, p), (s, b, t)) for m, p, s, b, _, t, _ in got)
    fp = full_prefix

    def expect(method, path, status, body_part=None):
        s, b, t = by_path[(method, fp + path)]
        assert s == status, (method, path, s, b)
        if body_part is not None:
            assert body_part in b, (method, path, b)
        return b, t

    expect('GET', '/ok', 200, "'level': 'outer'")
    expect('GET', '/ok', 200, "'only_inner': 'yes'")
    expect('GET', '/soft', 200, "{'after_soft': 'outer'}")
    expect('GET', '/direct', 202, 'direct')
    expect('GET', '/wsgi', 200, 'rerouted:' + fp + '/wsgi')
    if 403 in explode_on:
        # the failing renderer falls back to the default rendering of the error
        expect('GET', '/hard', 403)
        expect('GET', '/soft2', 403)
        assert not by_path[('GET', fp + '/hard')][1].startswith('EH[')
    else:
        expect('GET', '/hard', 403, 'EH[outer] code=403 level=outer src=%s/hard soft=[]' % fp)
        # a soft error that nobody overrides is handed back by the null route
        # (and, still being soft, recorded once more), but rendered on behalf
        # of the route that produced it
        expect('GET', '/soft2', 403, 'EH[outer] code=403 level=outer src=%s/soft2 soft=[403, 403]' % fp)
        expect('GET', '/soft3', 403, 'src=%s/soft3 soft=[400, 403, 403]' % fp)
    if 404 in explode_on:
        expect('GET', '/hard_returned', 404, 'hard-returned')   # default rendering
    else:
        expect('GET', '/hard_returned', 404, 'src=%s/hard_returned' % fp)
    expect('GET', '/teapot', 418, 'EH[outer] code=418')
    if 500 in explode_on:
        expect('GET', '/valerr', 500)
        expect('GET', '/raw', 500)
    else:
        expect('GET', '/valerr', 500, 'EH[outer] code=500 level=outer src=%s/valerr' % fp)
        expect('GET', '/raw', 500, 'EH[outer] code=500 level=outer src=%s/raw' % fp)
    if 404 not in explode_on:
        expect('GET', '/missing', 404, 'EH[outer] code=404 level=outer src=/<_ignored*>')
        expect('GET', '/num/x', 404, 'src=/<_ignored*>')
    expect('DELETE', '/num/7', 405)
    expect('POST', '/num/7', 200, "{'num': 7}")
    return len(paths)


def main():
    n = 0
    prefix_sets = [['/api'], ['/api/'], ['/'], ['/v1', '/x/'], ['/', '/deep/er'], ['/a/', '/', '/c']]
    mode_sets = [(S_REDIRECT, S_REDIRECT, S_REDIRECT, S_REDIRECT),
                 (S_STRICT, S_REDIRECT, S_REWRITE, S_REDIRECT),
                 (S_REWRITE, S_STRICT, S_REDIRECT, S_STRICT),
                 (S_REDIRECT, S_REWRITE, S_STRICT, S_REWRITE)]
    for prefixes, modes, inherit, explode_on in itertools.product(
            prefix_sets, mode_sets, [True, False], [(), (403, 500), (404,)]):
        slash_modes = list(modes[:len(prefixes)]) + [modes[3]]
        n += check(prefixes, slash_modes, inherit, explode_on)
    print('compared %d responses' % n)
    print('PASS')


if __name__ == '__main__':
    main()
