# -*- coding: utf-8 -*-
"""demo2: uncaught failures (and non-Response results) become the server
error of the application's error handler -- checked for a dozen exception
types, for the default / contextual / re-raising / REPL handlers and custom
subclasses of them, on the response *objects* returned by
``Application.dispatch`` as well as through the WSGI callable.
"""
import io
import json
import warnings

warnings.simplefilter('ignore')

from boltons.tbutils import ExceptionInfo, ContextualExceptionInfo
from werkzeug.test import EnvironBuilder
from werkzeug.wrappers import Request, Response

from clastic import Application, Route, Middleware, render_basic
from clastic.errors import (ErrorHandler, ContextualErrorHandler,
                            REPLErrorHandler, HTTPException,
                            InternalServerError, ContextualInternalServerError,
                            BadGateway, NotFound)

ACCEPTS = [None, 'text/plain', 'text/html', 'application/json',
           'application/xml', '*/*', 'x']


class Unprintable(Exception):
    def __str__(self):
        raise RuntimeError('cannot print me')
    __repr__ = __str__


class CustomError(Exception):
    pass


def _raiser(exc):
    def endpoint():
        raise exc
    return endpoint


FAILURES = [
    ('ValueError', ValueError('bad value')),
    ('KeyError', KeyError('missing')),
    ('ZeroDivisionError', ZeroDivisionError('division by zero')),
    ('RuntimeError', RuntimeError()),
    ('TypeError', TypeError(u'sn\xf6wm☃n')),
    ('AttributeError', AttributeError('x' * 100000)),
    ('OSError', OSError(2, 'No such file')),
    ('UnicodeDecodeError', UnicodeDecodeError('utf8', b'\xff', 0, 1, 'nope')),
    ('StopIteration', StopIteration()),
    ('AssertionError', AssertionError(('a', 1))),
    ('NotImplementedError', NotImplementedError('todo')),
    ('LookupError', LookupError(0)),
    ('CustomError', CustomError('mine')),
    ('Unprintable', Unprintable()),
]

TB_UNIT = ['dispatch', 'execute', 'inject', 'next', 'process_request', 'next',
           'endpoint']

NON_RESPONSES = [('str', 'a string'), ('none', None), ('int', 0),
                 ('float', 1.5), ('dict', {'a': 1}), ('list', [])]


def make_routes():
    routes = [('/ok', lambda: Response('fine'))]
    for name, exc in FAILURES:
        routes.append(('/raise/' + name, _raiser(exc)))
    for name, value in NON_RESPONSES:
        routes.append(('/ret/' + name, (lambda v: (lambda: v))(value)))
    return routes


def make_request(path, accept=None):
    headers = {} if accept is None else {'Accept': accept}
    return Request(EnvironBuilder(path=path, headers=headers).get_environ())


def wsgi_fetch(app, path, accept=None):
    headers = {} if accept is None else {'Accept': accept}
    resp = app.get_local_client().get(path, headers=headers,
                                      errors_stream=io.StringIO())
    return resp, resp.get_data(True)


class TaggedExceptionInfo(ExceptionInfo):
    pass


class TaggedServerError(InternalServerError):
    message = 'Tagged server error'


class TaggedHandler(ErrorHandler):
    exc_info_type = TaggedExceptionInfo
    server_error_type = TaggedServerError


class GatewayHandler(ContextualErrorHandler):
    """contextual handler whose server errors are 502s"""
    class server_error_type(ContextualInternalServerError):
        code = 502
        message = 'Bad gateway (contextual)'


class CountingHandler(ErrorHandler):
    """overrides uncaught_to_response and defers to the base class"""
    def __init__(self, **kw):
        super(CountingHandler, self).__init__(**kw)
        self.seen = []

    def uncaught_to_response(self, _application, _route, **kwargs):
        self.seen.append(kwargs['_error'])
        assert kwargs['request'] is not None
        return super(CountingHandler, self).uncaught_to_response(
            _application=_application, _route=_route, **kwargs)


class CountingContextualHandler(ContextualErrorHandler):
    def __init__(self, **kw):
        super(CountingContextualHandler, self).__init__(**kw)
        self.seen = []

    def uncaught_to_response(self, _application, _route, **kwargs):
        self.seen.append(kwargs['_error'])
        return super(CountingContextualHandler, self).uncaught_to_response(
            _application, _route, **kwargs)


def check_objects(handler_factory, se_type, ei_type, code=500,
                  contextual=False, hide_internal_frames=None):
    """Look at what dispatch() hands back, before rendering to WSGI."""
    handler = handler_factory()
    app = Application(make_routes(), error_handler=handler)
    route_by_pattern = dict((r.pattern, r) for r in app.routes)
    for name, exc in FAILURES:
        path = '/raise/' + name
        request = make_request(path, 'text/plain')
        ret = app.dispatch(request)
        assert type(ret) is se_type, (name, ret)
        assert isinstance(ret, HTTPException) and isinstance(ret, Response.__mro__[1])
        assert ret.code == code and ret.status_code == code, (name, ret.code)
        assert type(ret.exc_info) is ei_type, (name, ret.exc_info)
        assert ret.exc_info.exc_type == type(exc).__name__, (name, ret.exc_info)
        assert ret.source_route is route_by_pattern[path], name
        assert ret.detail == repr(ret.exc_info), name
        assert ret.is_breaking is True
        # the captured traceback runs from dispatch() down to the endpoint (the
        # exception objects are re-used, so their tracebacks pile up in units)
        frame_names = [f.func_name for f in ret.exc_info.tb_info.frames]
        assert frame_names[-len(TB_UNIT):] == TB_UNIT, frame_names
        assert frame_names == TB_UNIT * (len(frame_names) // len(TB_UNIT)), frame_names
        if isinstance(exc, (ValueError, KeyError, OSError)) and type(exc).__module__ == 'builtins':
            assert ret.error_type.endswith('#exceptions.' + type(exc).__name__)
        if contextual:
            assert ret.request is request
            assert ret.hide_internal_frames is hide_internal_frames
        else:
            assert not hasattr(ret, 'hide_internal_frames')
        body = b''.join(ret.response)  # complete, iterable body
        assert body
    for name, value in NON_RESPONSES:
        request = make_request('/ret/' + name)
        ret = app.dispatch(request)
        assert type(ret) is se_type and ret.code == code
        assert ret.exc_info.exc_type == 'TypeError'
        assert 'expected Response, received' in ret.exc_info.exc_msg
        assert type(value).__name__ in ret.exc_info.exc_msg
        assert len(ret.exc_info.tb_info.frames) == 1
        assert ret.exc_info.tb_info.frames[-1].func_name == 'dispatch'
    ret = app.dispatch(make_request('/ok'))
    assert type(ret) is Response and ret.status_code == 200
    return app, handler


def check_wsgi(app, code=500, contextual=False):
    for _round in range(2):
        for name, exc in FAILURES:
            for accept in ACCEPTS:
                resp, body = wsgi_fetch(app, '/raise/' + name, accept)
                ctx = (name, accept, resp.status, body[:100])
                assert resp.status_code == code, ctx
                assert body, ctx
                if name != 'Unprintable':
                    assert type(exc).__name__ in body, ctx
                if accept == 'application/json':
                    data = json.loads(body)
                    assert data['code'] == code, ctx
                    if contextual:
                        assert data['exc_type'] == type(exc).__name__, ctx
                        assert data['req']['path'] == '/raise/' + name, ctx
                    else:
                        assert data['exc_info']['exc_type'] == type(exc).__name__, ctx
        for name, value in NON_RESPONSES:
            resp, body = wsgi_fetch(app, '/ret/' + name, 'text/plain')
            assert resp.status_code == code
            assert 'expected Response, received' in body
        resp, body = wsgi_fetch(app, '/ok')
        assert (resp.status_code, body) == (200, 'fine')
        resp, body = wsgi_fetch(app, '/nope')
        assert resp.status_code == 404


def check_reraise(handler):
    app = Application(make_routes(), error_handler=handler)
    for name, exc in FAILURES:
        for via_wsgi in (False, True):
            try:
                if via_wsgi:
                    wsgi_fetch(app, '/raise/' + name)
                else:
                    app.dispatch(make_request('/raise/' + name))
            except Exception as escaped:
                assert escaped is exc, (name, escaped)   # the original one
            else:
                raise AssertionError('%s should have escaped' % name)
    for name, value in NON_RESPONSES:
        try:
            wsgi_fetch(app, '/ret/' + name)
        except TypeError as te:
            assert 'expected Response, received' in str(te)
        else:
            raise AssertionError('TypeError should have escaped')
    # ... and the application keeps serving
    resp, body = wsgi_fetch(app, '/ok')
    assert (resp.status_code, body) == (200, 'fine')
    assert wsgi_fetch(app, '/nope')[0].status_code == 404


def main():
    # default handler
    app, _ = check_objects(ErrorHandler, InternalServerError, ExceptionInfo)
    check_wsgi(app)
    check_wsgi(Application(make_routes()))
    # reraise_uncaught given but falsy
    for falsy in (False, None, 0, ''):
        app, _ = check_objects(lambda: ErrorHandler(reraise_uncaught=falsy),
                               InternalServerError, ExceptionInfo)
    # contextual handler, also when configured through debug=True
    app, _ = check_objects(ContextualErrorHandler, ContextualInternalServerError,
                           ContextualExceptionInfo, contextual=True,
                           hide_internal_frames=True)
    check_wsgi(app, contextual=True)
    check_wsgi(Application(make_routes(), debug=True), contextual=True)
    for flag in (False, 0, None, 'yes'):
        check_objects(lambda: ContextualErrorHandler(hide_internal_frames=flag),
                      ContextualInternalServerError, ContextualExceptionInfo,
                      contextual=True, hide_internal_frames=flag)
    # the contextual handler does not honour reraise_uncaught: still a 500
    app, handler = check_objects(
        lambda: ContextualErrorHandler(reraise_uncaught=True),
        ContextualInternalServerError, ContextualExceptionInfo,
        contextual=True, hide_internal_frames=True)
    assert handler.reraise_uncaught is True
    check_wsgi(app, contextual=True)

    # custom types on subclasses
    app, _ = check_objects(TaggedHandler, TaggedServerError, TaggedExceptionInfo)
    check_wsgi(app)
    app, _ = check_objects(GatewayHandler, GatewayHandler.server_error_type,
                           ContextualExceptionInfo, code=502, contextual=True,
                           hide_internal_frames=True)
    check_wsgi(app, code=502, contextual=True)

    # subclasses that override uncaught_to_response and call super()
    app, handler = check_objects(CountingHandler, InternalServerError, ExceptionInfo)
    assert len(handler.seen) == len(FAILURES) + len(NON_RESPONSES)
    assert [type(e) for e in handler.seen[:len(FAILURES)]] == \
        [type(exc) for _, exc in FAILURES]
    app, handler = check_objects(CountingContextualHandler,
                                 ContextualInternalServerError,
                                 ContextualExceptionInfo, contextual=True,
                                 hide_internal_frames=True)
    assert len(handler.seen) == len(FAILURES) + len(NON_RESPONSES)
    check_reraise(CountingHandler(reraise_uncaught=True))

    # the types come from the application's *current* handler: routes bound
    # under the first handler use the one installed later
    app = Application(make_routes())
    app.set_error_handler(TaggedHandler())
    ret = app.dispatch(make_request('/raise/ValueError'))
    assert type(ret) is TaggedServerError and type(ret.exc_info) is TaggedExceptionInfo
    app.set_error_handler(ContextualErrorHandler(hide_internal_frames=False))
    ret = app.dispatch(make_request('/raise/ValueError'))
    assert type(ret) is ContextualInternalServerError
    assert ret.hide_internal_frames is False
    app.set_error_handler()
    ret = app.dispatch(make_request('/raise/ValueError'))
    assert type(ret) is InternalServerError

    # a handler whose types belong to another handler object: self supplies
    # reraise_uncaught / hide_internal_frames, the application's handler the types
    class FakeApp(object):
        error_handler = TaggedHandler()
    for handler, extra in [(ErrorHandler(), {}),
                           (ErrorHandler(), {'request': 'ignored', '_error': 1})]:
        try:
            raise CustomError('direct')
        except CustomError:
            ret = handler.uncaught_to_response(_application=FakeApp(),
                                               _route='the-route', **extra)
        assert type(ret) is TaggedServerError and ret.source_route == 'the-route'
        assert ret.exc_info.exc_msg == 'direct'

    class FakeCtxApp(object):
        error_handler = ContextualErrorHandler(hide_internal_frames=True)
    handler = ContextualErrorHandler(hide_internal_frames='mine')
    for extra, req in [({}, None), ({'request': None}, None)]:
        try:
            raise CustomError('direct')
        except CustomError:
            ret = handler.uncaught_to_response(FakeCtxApp(), None, **extra)
        assert type(ret) is ContextualInternalServerError
        assert ret.request is req and ret.hide_internal_frames == 'mine'
        assert ret.source_route is None

    # re-raising handlers: the original exception escapes, the app lives on
    check_reraise(ErrorHandler(reraise_uncaught=True))
    check_reraise(ErrorHandler(reraise_uncaught=1))
    check_reraise(TaggedHandler(reraise_uncaught='yes'))

    # REPL handler: re-raises into werkzeug's debugger, which answers 500
    app = Application(make_routes(), error_handler=REPLErrorHandler())
    for name in ('ValueError', 'KeyError', 'CustomError'):
        resp, body = wsgi_fetch(app, '/raise/' + name)
        assert resp.status_code == 500 and name in body
        try:
            app.dispatch(make_request('/raise/' + name))
        except Exception as escaped:
            assert type(escaped).__name__ == name
        else:
            raise AssertionError('expected escape from dispatch()')
    assert wsgi_fetch(app, '/ok')[1] == 'fine'

    # failures inside middlewares and renderers are handled alike
    class FailingMW(Middleware):
        def __init__(self, where):
            self.where = where

        def request(self, next):
            if self.where == 'request':
                raise CustomError('mw-request')
            return next()

        def endpoint(self, next):
            if self.where == 'endpoint':
                raise CustomError('mw-endpoint')
            return next()

        def render(self, next):
            if self.where == 'render':
                raise CustomError('mw-render')
            return next()

    def bad_render(context):
        raise CustomError('render-func')

    for handler_factory, se_type in [(ErrorHandler, InternalServerError),
                                     (ContextualErrorHandler, ContextualInternalServerError)]:
        for where in ('request', 'endpoint', 'render'):
            app = Application([('/', lambda: {'a': 1}, render_basic)],
                              middlewares=[FailingMW(where)],
                              error_handler=handler_factory())
            ret = app.dispatch(make_request('/'))
            assert type(ret) is se_type and ret.exc_info.exc_msg == 'mw-' + where
            resp, body = wsgi_fetch(app, '/', 'text/plain')
            assert resp.status_code == 500 and 'CustomError' in body
        app = Application([('/', lambda: {'a': 1}, bad_render)],
                          error_handler=handler_factory())
        ret = app.dispatch(make_request('/'))
        assert type(ret) is se_type and ret.exc_info.exc_msg == 'render-func'
    print('PASS')


if __name__ == '__main__':
    main()
