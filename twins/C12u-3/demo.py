# -*- coding: utf-8 -*-
"""demo3: concurrent requests on one Application do not interfere
(focus: BoundRoute construction; bound routes are shared by all
threads and must stay unmodified while serving).  Prints PASS and exits 0."""

import json
import sys
import threading
import time

from clastic import Application, Middleware, Route, GET, POST
from clastic.errors import NotFound
from werkzeug.wrappers import Response

SEEN_IDS = []  # list.append is atomic


class TokenMW(Middleware):
    provides = ('token',)

    def request(self, next, request):
        SEEN_IDS.append((request.request_id, request.request_guid, request))
        return next(token=request.args.get('t', '-'))


class TagMW(Middleware):
    endpoint_provides = ('ep_tag',)

    def endpoint(self, next, request, token):
        time.sleep(0)  # invite a thread switch inside the chain
        return next(ep_tag='%s@%s' % (token, request.path))


def render_json(context):
    return Response(json.dumps(context, sort_keys=True),
                    mimetype='application/json')


def echo(request, name, num, token, ep_tag, salt, flavor='plain'):
    time.sleep(0)
    return {'name': name, 'num': num, 'token': token, 'ep_tag': ep_tag,
            'salt': salt, 'flavor': flavor, 'path': request.path,
            'path_params': sorted(request.path_params.items()),
            'q': request.args.get('t', '-')}


def post_only(request, token):
    return {'posted': request.get_data(as_text=True), 'token': token}


def boom(token):
    raise ValueError('boom for %s' % token)


def fall_first(x, token):
    time.sleep(0)
    raise NotFound(is_breaking=False)


def fall_second(x, token, _dispatch_state):
    return {'fell_to': x, 'token': token,
            'n_exc': len(_dispatch_state.exceptions)}


def branch(token):
    return {'branch': token}


def make_app():
    routes = [GET('/echo/<name>/<num:int>', echo, render_json),
              POST('/post', post_only, render_json),
              Route('/boom', boom, render_json),
              Route('/fall/<x>', fall_first, render_json),
              Route('/fall/<x>', fall_second, render_json),
              Route('/redir/', branch, render_json)]
    return Application(routes, resources={'salt': 0},
                       middlewares=[TokenMW(), TagMW()])


def request_specs():
    specs = []
    for i in range(6):
        specs.append(('GET', '/echo/n%d/%d?t=tok%d' % (i, i * 7 - 3, i), None))
    specs += [('POST', '/post?t=p', 'body-1'),
              ('POST', '/post?t=q', 'body-2'),
              ('GET', '/post?t=g', None),          # 405
              ('PUT', '/echo/a/1?t=h', None),      # 405
              ('GET', '/boom?t=b1', None),         # 500
              ('GET', '/boom?t=b2', None),
              ('GET', '/missing/%C3%A9?t=m', None),  # 404
              ('GET', '/echo/a/notint?t=m2', None),  # 404 (converter)
              ('GET', '/fall/one?t=f1', None),     # non-breaking fallthrough
              ('GET', '/fall/two?t=f2', None),
              ('GET', '/redir?t=r1', None),        # slash redirect
              ('GET', '/redir/?t=r2', None),
              ('GET', '/echo/zero/0?t=', None)]    # falsy num, empty token
    return specs


def perform(app, spec):
    method, url, body = spec
    client = app.get_local_client()
    resp = client.open(url, method=method, data=body)
    return (resp.status_code, resp.headers.get('Location'),
            resp.headers.get('Allow'), resp.get_data(as_text=True))


def check_concurrent(app, specs, expected, n_threads, rounds):
    for rnd in range(rounds):
        # rotate so that different requests meet each other
        batch = [specs[(rnd * 3 + k * 5) % len(specs)] for k in range(n_threads)]
        results = [None] * n_threads
        barrier = threading.Barrier(n_threads)

        def work(k):
            barrier.wait()
            try:
                results[k] = perform(app, batch[k])
            except Exception as e:  # pragma: no cover
                results[k] = ('EXC', repr(e))

        threads = [threading.Thread(target=work, args=(k,)) for k in range(n_threads)]
        for t in threads:
            t.start()
        for t in threads:
            t.join()
        for k in range(n_threads):
            assert results[k] == expected[batch[k]], (batch[k], results[k], expected[batch[k]])


def expect(exc_type, fragment, func, *a, **kw):
    try:
        func(*a, **kw)
    except exc_type as e:
        assert type(e) is exc_type, type(e)
        assert fragment in str(e), (fragment, str(e))
    else:
        raise AssertionError('expected %s' % exc_type.__name__)


def check_bound_route_unit():
    from clastic import SubApplication
    from clastic.route import BoundRoute, _noop_render
    from clastic.errors import ErrorHandler

    made = []

    def factory_a(arg):
        made.append(('a', arg))
        return lambda context: Response('a:%s:%r' % (arg, context))

    def factory_b(arg):
        made.append(('b', arg))
        return lambda context: Response('b:%s:%r' % (arg, context))

    def bad_factory(arg):
        raise KeyError('no template %s' % arg)

    def ep(salt=1):
        return {'salt': salt}

    def explicit(context):
        return Response('explicit')

    # 1. explicit callable render wins, render_factory is dropped
    app = Application([('/x', ep, explicit)], render_factory=factory_a)
    br = app.routes[0]
    assert type(br) is BoundRoute
    assert br.render is explicit and br.render_factory is None and made == []
    # 2. render argument + factory
    app = Application([('/x', ep, 'tmpl')], render_factory=factory_a)
    br = app.routes[0]
    assert br.render_factory is factory_a and made == [('a', 'tmpl')]
    assert app.get_local_client().get('/x').get_data(True) == "a:tmpl:{'salt': 1}"
    # 3. render None: no-op render, factory not consulted
    del made[:]
    app = Application([('/x', lambda: Response('direct'))], render_factory=factory_a)
    br = app.routes[0]
    assert br.render is _noop_render and br.render_factory is None and made == []
    # 4. render argument but no factory: carried through, no-op render
    app = Application([('/x', lambda: Response('direct'), 'tmpl')])
    br = app.routes[0]
    assert br.render is _noop_render and br.render_factory is None
    assert br.render_arg == 'tmpl'
    # 5. embedding: SubApplication defaults to rebind_render=False, but an
    #    unrendered ('tmpl' with no factory) route is picked up by the outer factory
    inner_plain = Application([('/x', ep, 'tmpl')])
    outer = Application([('/in', inner_plain)], render_factory=factory_b)
    br = outer.routes[0]
    assert br.pattern == '/in/x' and br.render_factory is factory_b
    assert made == [('b', 'tmpl')]
    assert len(br.bound_apps) == 2 and br.bound_apps[-1] is outer
    # 6. inner factory is sticky without rebind_render ...
    del made[:]
    inner_a = Application([('/x', ep, 'tmpl')], render_factory=factory_a)
    inner_render = inner_a.routes[0].render
    outer = Application([SubApplication('/in', inner_a, rebind_render=False)],
                        render_factory=factory_b)
    br = outer.routes[0]
    assert br.render is inner_render and br.render_factory is factory_a
    assert made == [('a', 'tmpl')]
    # 7. ... and replaced by the most recently bound factory with it
    outer = Application([SubApplication('/in', inner_a, rebind_render=True)],
                        render_factory=factory_b)
    br = outer.routes[0]
    assert br.render_factory is factory_b and made[-1] == ('b', 'tmpl')
    #    (an outer app without factory falls back to the inner one)
    outer = Application([SubApplication('/in', inner_a, rebind_render=True)])
    assert outer.routes[0].render_factory is factory_a and made[-1] == ('a', 'tmpl')
    # 8. a failing factory propagates unchanged
    expect(KeyError, 'no template tmpl', Application,
           [('/x', ep, 'tmpl')], render_factory=bad_factory)

    # render_error selection
    def custom_render_error(request, _error, salt):
        return Response('custom %s' % salt, status=_error.code)

    class Handler(ErrorHandler):
        def render_error(self, request, _error, **kwargs):
            return Response('handler', status=_error.code)
    handler = Handler()
    route = Route('/x', ep, explicit, render_error=custom_render_error, resources={'salt': 3})
    app = Application([], error_handler=handler)
    assert route.bind(app).render_error == handler.render_error
    kept = route.bind(app, rebind_render_error=False)
    assert kept.render_error is custom_render_error
    assert kept.resources == {'salt': 3} and kept.resources is not route.resources
    no_salt = Route('/x', ep, explicit)
    no_salt.render_error = custom_render_error
    expect(NameError, "unresolved render_error() arguments: ['salt']",
           no_salt.bind, app, rebind_render_error=False)
    no_salt.bind(app)  # fine when the handler's render_error is used
    unset = Route('/x', ep, explicit).bind(app, rebind_render_error=False)
    assert unset.render_error is None

    # binding errors keep their type, message and order
    expect(TypeError, 'unexpected keyword args', route.bind, app, bogus=1)

    class ProvSalt(Middleware):
        provides = ('salt',)

        def request(self, next):
            return next(salt=2)

    class ProvName(Middleware):
        provides = ('name',)

        def request(self, next):
            return next(name='mw')

    class NeedsGhost(Middleware):
        def request(self, next, ghost):
            return next()
    expect(NameError, 'found conflicting provides', Application,
           [('/x', ep, explicit)], resources={'salt': 1}, middlewares=[ProvSalt()])
    expect(NameError, 'found conflicting provides', Application,
           [('/<name>', ep, explicit)], middlewares=[ProvName()])
    expect(NameError, 'found conflicting provides', Application,
           [Route('/x', ep, explicit, middlewares=[ProvName()])], resources={'name': 1})
    expect(NameError, 'unresolved request middleware arguments', Application,
           [('/x', ep, explicit)], middlewares=[NeedsGhost()])
    expect(NameError, 'unresolved endpoint middleware arguments', Application,
           [('/x', lambda ghost: None, explicit)])
    expect(NameError, "argument 'next' reserved", Application,
           [('/x', lambda next: None, explicit)])
    # conflict is reported before an unresolved argument
    expect(NameError, 'found conflicting provides', Application,
           [('/<name>', lambda ghost: None, explicit)], middlewares=[ProvName()])
    ok = Application([('/x/<y:int>', lambda y, salt, name: Response('%r %r %r' % (y, salt, name)))],
                     middlewares=[ProvSalt(), ProvName()])
    assert ok.get_local_client().get('/x/0').get_data(True) == "0 2 'mw'"
    assert ok.routes[0].get_required_args() == ['y', 'salt', 'name']


def snapshot(app):
    snap = []
    for rt in app.routes + [app._null_route]:
        snap.append(sorted((k, id(v), repr(v)) for k, v in vars(rt).items()))
    return snap


def main():
    check_bound_route_unit()

    app = make_app()
    specs = request_specs()
    expected = {}
    for spec in specs:
        expected[spec] = perform(app, spec)
        assert perform(app, spec) == expected[spec], spec  # deterministic
    by_status = {}
    for spec, res in expected.items():
        by_status.setdefault(res[0], []).append(spec)
    assert set(by_status) >= {200, 404, 405, 500}, sorted(by_status)
    assert any(s in by_status for s in (301, 302, 307, 308)), sorted(by_status)
    body = json.loads(expected[('GET', '/echo/zero/0?t=', None)][3])
    assert body['num'] == 0 and body['token'] == '' and body['salt'] == 0
    assert body['ep_tag'] == '@/echo/zero/0' and body['flavor'] == 'plain'
    fell = json.loads(expected[('GET', '/fall/one?t=f1', None)][3])
    assert fell == {'fell_to': 'one', 'token': 'f1', 'n_exc': 1}, fell

    before = snapshot(app)
    assert len(before) == 7
    old = sys.getswitchinterval()
    sys.setswitchinterval(1e-6)
    try:
        for n_threads in (2, 3, 4):
            check_concurrent(app, specs, expected, n_threads, rounds=40)
    finally:
        sys.setswitchinterval(old)

    assert snapshot(app) == before, 'bound routes were modified while serving'

    # a falling-through request passes TokenMW once per attempted route,
    # so count request objects (kept alive in SEEN_IDS), not MW calls
    by_request = {}
    for req_id, guid, req in SEEN_IDS:
        assert by_request.setdefault(id(req), (req_id, guid)) == (req_id, guid)
    ids = [i for i, _ in by_request.values()]
    guids = [g for _, g in by_request.values()]
    assert len(ids) > 100
    assert len(ids) == len(set(ids)), 'request ids must be unique'
    assert len(guids) == len(set(guids))
    assert all(isinstance(i, int) for i in ids)
    print('PASS')


if __name__ == '__main__':
    main()
