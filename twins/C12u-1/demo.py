# -*- coding: utf-8 -*-
"""demo1: concurrent requests on one Application do not interfere
(focus: sinter.inject, the per-request entry into route.execute /
execute_error).  Prints PASS and exits 0."""

import json
import sys
import threading
import time

from clastic import Application, Middleware, Route, GET, POST
from clastic.errors import NotFound
from clastic.sinter import inject
from werkzeug.wrappers import Response

SEEN_IDS = []  # list.append is atomic


class TokenMW(Middleware):
    provides = ('token',)

    def request(self, next, request):
        SEEN_IDS.append((request.request_id, request.request_guid, request))
        return next(token=request.args.get('t', '-'))


class TagMW(Middleware):
    endpoint_provides = ('ep_tag',)

    def endpoint(self, next, request, token):
        time.sleep(0)  # invite a thread switch inside the chain
        return next(ep_tag='%s@%s' % (token, request.path))


def render_json(context):
    return Response(json.dumps(context, sort_keys=True),
                    mimetype='application/json')


def echo(request, name, num, token, ep_tag, salt, flavor='plain'):
    time.sleep(0)
    return {'name': name, 'num': num, 'token': token, 'ep_tag': ep_tag,
            'salt': salt, 'flavor': flavor, 'path': request.path,
            'path_params': sorted(request.path_params.items()),
            'q': request.args.get('t', '-')}


def post_only(request, token):
    return {'posted': request.get_data(as_text=True), 'token': token}


def boom(token):
    raise ValueError('boom for %s' % token)


def fall_first(x, token):
    time.sleep(0)
    raise NotFound(is_breaking=False)


def fall_second(x, token, _dispatch_state):
    return {'fell_to': x, 'token': token,
            'n_exc': len(_dispatch_state.exceptions)}


def branch(token):
    return {'branch': token}


def make_app():
    routes = [GET('/echo/<name>/<num:int>', echo, render_json),
              POST('/post', post_only, render_json),
              Route('/boom', boom, render_json),
              Route('/fall/<x>', fall_first, render_json),
              Route('/fall/<x>', fall_second, render_json),
              Route('/redir/', branch, render_json)]
    return Application(routes, resources={'salt': 0},
                       middlewares=[TokenMW(), TagMW()])


def request_specs():
    specs = []
    for i in range(6):
        specs.append(('GET', '/echo/n%d/%d?t=tok%d' % (i, i * 7 - 3, i), None))
    specs += [('POST', '/post?t=p', 'body-1'),
              ('POST', '/post?t=q', 'body-2'),
              ('GET', '/post?t=g', None),          # 405
              ('PUT', '/echo/a/1?t=h', None),      # 405
              ('GET', '/boom?t=b1', None),         # 500
              ('GET', '/boom?t=b2', None),
              ('GET', '/missing/%C3%A9?t=m', None),  # 404
              ('GET', '/echo/a/notint?t=m2', None),  # 404 (converter)
              ('GET', '/fall/one?t=f1', None),     # non-breaking fallthrough
              ('GET', '/fall/two?t=f2', None),
              ('GET', '/redir?t=r1', None),        # slash redirect
              ('GET', '/redir/?t=r2', None),
              ('GET', '/echo/zero/0?t=', None)]    # falsy num, empty token
    return specs


def perform(app, spec):
    method, url, body = spec
    client = app.get_local_client()
    resp = client.open(url, method=method, data=body)
    return (resp.status_code, resp.headers.get('Location'),
            resp.headers.get('Allow'), resp.get_data(as_text=True))


def check_concurrent(app, specs, expected, n_threads, rounds):
    for rnd in range(rounds):
        # rotate so that different requests meet each other
        batch = [specs[(rnd * 3 + k * 5) % len(specs)] for k in range(n_threads)]
        results = [None] * n_threads
        barrier = threading.Barrier(n_threads)

        def work(k):
            barrier.wait()
            try:
                results[k] = perform(app, batch[k])
            except Exception as e:  # pragma: no cover
                results[k] = ('EXC', repr(e))

        threads = [threading.Thread(target=work, args=(k,)) for k in range(n_threads)]
        for t in threads:
            t.start()
        for t in threads:
            t.join()
        for k in range(n_threads):
            assert results[k] == expected[batch[k]], (batch[k], results[k], expected[batch[k]])


def check_inject_unit():
    def plain(a, b=2, c=None):
        return (a, b, c)

    def varkw(a, b=2, **kw):
        return (a, b, sorted(kw.items()))

    def kwonly(a, *, k=5, m):
        return (a, k, m)

    def noargs():
        return 'noargs'

    class Obj(object):
        def meth(self, a, b='B'):
            return (a, b)

        def __call__(self, a, z=0):
            return ('called', a, z)

    # extra injectables are dropped, defaults are overridden (also by falsy values)
    assert inject(plain, {'a': 1, 'zzz': 9}) == (1, 2, None)
    assert inject(plain, {'a': 0, 'b': 0, 'c': ''}) == (0, 0, '')
    assert inject(plain, {'a': None, 'b': None}) == (None, None, None)
    assert inject(varkw, {'a': 1, 'x': 3, 'y': None}) == (1, 2, [('x', 3), ('y', None)])
    assert inject(varkw, {'a': 1, 'b': 0}) == (1, 0, [])
    assert inject(kwonly, {'a': 1, 'm': 2, 'n': 3}) == (1, 5, 2)
    assert inject(kwonly, {'a': 1, 'm': 2, 'k': ''}) == (1, '', 2)
    assert inject(noargs, {}) == 'noargs'
    assert inject(noargs, {'a': 1}) == 'noargs'
    assert inject(Obj().meth, {'a': 1, 'self': 'no'}) == (1, 'B')
    assert inject(Obj(), {'a': 1, 'z': None, 'q': 1}) == ('called', 1, None)
    # missing required argument -> TypeError from the call itself
    for func, inj in ((plain, {}), (plain, {'b': 1}), (kwonly, {'a': 1}), (varkw, {'x': 1})):
        try:
            inject(func, inj)
        except TypeError:
            pass
        else:
            raise AssertionError('expected TypeError')
    # the injectables mapping is not modified, values are passed by reference
    marker = []
    inj = {'a': marker, 'other': 1}
    assert inject(plain, inj)[0] is marker
    assert inj == {'a': marker, 'other': 1}
    # non-string keys that the function does not accept are filtered out
    assert inject(plain, {'a': 1, 5: 'five'}) == (1, 2, None)
    # a mutable signature default is handed through, never copied
    shared = []

    def with_mutable_default(a, acc=shared):
        return acc
    assert inject(with_mutable_default, {'a': 1}) is shared


def main():
    check_inject_unit()

    app = make_app()
    specs = request_specs()
    expected = {}
    for spec in specs:
        expected[spec] = perform(app, spec)
        assert perform(app, spec) == expected[spec], spec  # deterministic
    by_status = {}
    for spec, res in expected.items():
        by_status.setdefault(res[0], []).append(spec)
    assert set(by_status) >= {200, 404, 405, 500}, sorted(by_status)
    assert any(s in by_status for s in (301, 302, 307, 308)), sorted(by_status)
    body = json.loads(expected[('GET', '/echo/zero/0?t=', None)][3])
    assert body['num'] == 0 and body['token'] == '' and body['salt'] == 0
    assert body['ep_tag'] == '@/echo/zero/0' and body['flavor'] == 'plain'
    fell = json.loads(expected[('GET', '/fall/one?t=f1', None)][3])
    assert fell == {'fell_to': 'one', 'token': 'f1', 'n_exc': 1}, fell

    old = sys.getswitchinterval()
    sys.setswitchinterval(1e-6)
    try:
        for n_threads in (2, 3, 4):
            check_concurrent(app, specs, expected, n_threads, rounds=40)
    finally:
        sys.setswitchinterval(old)

    # a falling-through request passes TokenMW once per attempted route,
    # so count request objects (kept alive in SEEN_IDS), not MW calls
    by_request = {}
    for req_id, guid, req in SEEN_IDS:
        assert by_request.setdefault(id(req), (req_id, guid)) == (req_id, guid)
    ids = [i for i, _ in by_request.values()]
    guids = [g for _, g in by_request.values()]
    assert len(ids) > 100
    assert len(ids) == len(set(ids)), 'request ids must be unique'
    assert len(guids) == len(set(guids))
    assert all(isinstance(i, int) for i in ids)
    print('PASS')


if __name__ == '__main__':
    main()
