# -*- coding: utf-8 -*-
"""demo3: C02 -- each injected argument comes from its one declared source.

Exercises the property end to end (URL values, resources, built-ins,
middleware-provided values, defaults) with distinct sentinels, under several
hash seeds, and then pins down the text build_chain_str generates (the nested
``def next(...)`` / ``return funcs[i](name=name, ...)`` source) for a spread of
chains, scopes, start levels and failure cases.

Prints PASS and exits 0 when every assertion holds.
"""
import io
import os
import re
import sys
import subprocess
import contextlib

HERE = os.path.dirname(os.path.abspath(__file__))
sys.path.insert(0, HERE)

SEEDS = ['0', '1', '2', '17', '1234', '987654']


def parent():
    for seed in SEEDS:
        env = dict(os.environ, PYTHONHASHSEED=seed, C02_DEMO_CHILD='1')
        proc = subprocess.run([sys.executable, '-W', 'ignore', os.path.abspath(__file__)],
                              env=env, cwd=HERE, stdout=subprocess.PIPE,
                              stderr=subprocess.STDOUT, universal_newlines=True)
        last = proc.stdout.strip().splitlines()[-1:] or ['']
        if proc.returncode != 0 or last != ['PASS']:
            print(proc.stdout)
            print('FAIL (hash seed %s)' % seed)
            sys.exit(1)
    print('PASS')


# --------------------------------------------------------------------------
# the shared harness: instrumented middlewares / endpoint / render
# --------------------------------------------------------------------------

class Sentinel(object):
    def __init__(self, label):
        self.label = label

    def __repr__(self):
        return '<Sentinel %s>' % self.label


def child():
    import linecache
    import clastic
    assert os.path.dirname(os.path.dirname(clastic.__file__)) == HERE, clastic.__file__
    from clastic import Application, Response, Route, GET
    from clastic.middleware import Middleware
    from clastic.route import BoundRoute
    from clastic.application import DispatchState
    from clastic import sinter
    from clastic.sinter import inject, compile_code, compile_chain, build_chain_str

    LOG = []

    def record(label, **kw):
        LOG.append((label, kw))

    def logged(label):
        found = [kw for (lb, kw) in LOG if lb == label]
        assert len(found) == 1, (label, LOG)
        return found[0]

    RES_A, RES_B, RES_UNUSED = Sentinel('res_a'), Sentinel('res_b'), Sentinel('res_unused')
    REQ_VALUES = {}   # request -> dict of per-request sentinels

    def per_request(request, name):
        return REQ_VALUES.setdefault(id(request), {}).setdefault(name, Sentinel(name))

    class FirstMW(Middleware):
        provides = ('mw_req',)
        endpoint_provides = ('mw_ep',)
        render_provides = ('mw_rn',)

        def request(self, next, request, res_a, _route, user_id='no user_id in this URL',
                    unoffered='FirstMW.request default'):
            record('first.request', request=request, res_a=res_a, user_id=user_id,
                   _route=_route, unoffered=unoffered)
            return next(mw_req=per_request(request, 'mw_req'))

        def endpoint(self, next, request, mw_req, res_b, _application, name='FirstMW.endpoint default'):
            record('first.endpoint', request=request, mw_req=mw_req, res_b=res_b,
                   _application=_application, name=name)
            return next(mw_ep=per_request(request, 'mw_ep'))

        def render(self, next, request, context, second, res_a, mw_ep='FirstMW.render default'):
            record('first.render', request=request, context=context, second=second, res_a=res_a,
                   mw_ep=mw_ep)
            return next(mw_rn=per_request(request, 'mw_rn'))

    class SecondMW(Middleware):
        provides = ('second', 'second_b')

        def request(self, next, request, mw_req, _dispatch_state, res_b=None):
            record('second.request', request=request, mw_req=mw_req,
                   _dispatch_state=_dispatch_state, res_b=res_b)
            return next(second=per_request(request, 'second'),
                        second_b=per_request(request, 'second_b'))

        def render(self, next, context, second_b, mw_rn, mw_req='SecondMW.render default'):
            record('second.render', context=context, second_b=second_b, mw_rn=mw_rn, mw_req=mw_req)
            return next()

    def endpoint(request, _application, _route, _dispatch_state, user_id, name,
                 res_a, res_b, mw_req, mw_ep, second, second_b='endpoint default',
                 nobody_offers='endpoint nobody default', falsy_default=0):
        ctx = {'ctx_for': request}
        record('endpoint', request=request, _application=_application, _route=_route,
               _dispatch_state=_dispatch_state, user_id=user_id, name=name, res_a=res_a,
               res_b=res_b, mw_req=mw_req, mw_ep=mw_ep, second=second, second_b=second_b,
               nobody_offers=nobody_offers, falsy_default=falsy_default, returned=ctx)
        return ctx

    def render(context, request, mw_rn, mw_req, name, res_b, _route, mw_ep='render default',
               render_nobody=None):
        record('render', context=context, request=request, mw_rn=mw_rn, mw_req=mw_req,
               name=name, res_b=res_b, _route=_route, mw_ep=mw_ep, render_nobody=render_nobody)
        return Response('rendered %s' % name)

    def direct_endpoint(request, word, res_a, mw_req, second):
        record('direct', request=request, word=word, res_a=res_a, mw_req=mw_req, second=second)
        return Response('direct %s' % word)

    def never_render(context):
        record('never_render', context=context)
        return Response('must not happen')

    def kwonly_endpoint(request, *, res_a='kwonly default', mw_req='kwonly mw default'):
        record('kwonly', request=request, res_a=res_a, mw_req=mw_req)
        return Response('kwonly')

    mws = [FirstMW(), SecondMW()]
    resources = {'res_a': RES_A, 'res_b': RES_B, 'res_unused': RES_UNUSED}
    app = Application([('/u/<user_id:int>/<name>', endpoint, render),
                       ('/direct/<word>', direct_endpoint, never_render),
                       ('/kwonly', kwonly_endpoint, never_render)],
                      resources=resources, middlewares=mws)
    client = app.get_local_client()

    seen_requests = []
    for user_id, name in [(1, 'alpha'), (22, 'beta'), (0, 'gamma')]:
        del LOG[:]
        resp = client.get('/u/%s/%s' % (user_id, name))
        assert resp.status_code == 200 and resp.data == ('rendered %s' % name).encode(), resp.data
        ep = logged('endpoint')
        request = ep['request']
        assert isinstance(request, app.request_type)
        assert all(request is not r for r in seen_requests)
        seen_requests.append(request)
        vals = REQ_VALUES[id(request)]
        assert sorted(vals) == ['mw_ep', 'mw_req', 'mw_rn', 'second', 'second_b']
        route = ep['_route']
        assert isinstance(route, BoundRoute) and route is app.routes[0]
        assert ep['_application'] is app
        assert isinstance(ep['_dispatch_state'], DispatchState)
        assert ep['user_id'] == user_id and type(ep['user_id']) is int
        assert ep['name'] == name
        assert ep['res_a'] is RES_A and ep['res_b'] is RES_B
        assert ep['mw_req'] is vals['mw_req'] and ep['mw_ep'] is vals['mw_ep']
        assert ep['second'] is vals['second']
        assert ep['second_b'] is vals['second_b']          # default loses to a provider
        assert ep['nobody_offers'] == 'endpoint nobody default'
        assert ep['falsy_default'] == 0 and type(ep['falsy_default']) is int

        fr = logged('first.request')
        assert fr['request'] is request and fr['res_a'] is RES_A and fr['user_id'] == user_id
        assert fr['_route'] is route and fr['unoffered'] == 'FirstMW.request default'
        sr = logged('second.request')
        assert sr['request'] is request and sr['mw_req'] is vals['mw_req']
        assert sr['_dispatch_state'] is ep['_dispatch_state'] and sr['res_b'] is RES_B
        fe = logged('first.endpoint')
        assert fe['request'] is request and fe['mw_req'] is vals['mw_req'] and fe['res_b'] is RES_B
        assert fe['_application'] is app and fe['name'] == name
        frn = logged('first.render')
        assert frn['request'] is request and frn['context'] is ep['returned']
        assert frn['second'] is vals['second'] and frn['res_a'] is RES_A
        assert frn['mw_ep'] == 'FirstMW.render default'   # endpoint phase does not leak into render
        srn = logged('second.render')
        assert srn['context'] is ep['returned'] and srn['second_b'] is vals['second_b']
        assert srn['mw_rn'] is vals['mw_rn'] and srn['mw_req'] is vals['mw_req']
        rn = logged('render')
        assert rn['context'] is ep['returned'] and rn['request'] is request
        assert rn['mw_rn'] is vals['mw_rn'] and rn['mw_req'] is vals['mw_req']
        assert rn['name'] == name and rn['res_b'] is RES_B and rn['_route'] is route
        assert rn['mw_ep'] == 'render default' and rn['render_nobody'] is None
        assert [lb for lb, _ in LOG] == ['first.request', 'second.request', 'first.endpoint',
                                         'endpoint', 'first.render', 'second.render', 'render']

    # endpoint returning a Response: render phase is skipped altogether
    del LOG[:]
    resp = client.get('/direct/hello')
    assert resp.data == b'direct hello'
    d = logged('direct')
    dvals = REQ_VALUES[id(d['request'])]
    assert d['word'] == 'hello' and d['res_a'] is RES_A
    assert d['mw_req'] is dvals['mw_req'] and d['second'] is dvals['second']
    assert [lb for lb, _ in LOG] == ['first.request', 'second.request', 'first.endpoint', 'direct']

    # keyword-only parameters: characterise whatever happens today, it must not move
    del LOG[:]
    resp = client.get('/kwonly')
    assert resp.data == b'kwonly'
    k = logged('kwonly')
    kvals = REQ_VALUES[id(k['request'])]
    assert k['res_a'] is RES_A and k['mw_req'] is kvals['mw_req']   # what this version does

    # the static argument: every call in the generated sources is name=name
    generated = dict((fn, ''.join(entry[2])) for fn, entry in linecache.cache.items()
                     if fn.startswith('<sinter generated '))
    assert generated
    call_re = re.compile(r'(?:funcs\[\d+\]|endpoint|render)\((.*)\)$')
    n_calls = 0
    for fn, src in generated.items():
        assert re.match(r'^<sinter generated (next|process_request) [0-9a-f]{16}>$', fn), fn
        for line in src.splitlines():
            line = line.strip()
            m = call_re.search(line)
            if not m or line.startswith('def '):
                continue
            n_calls += 1
            if m.group(1):
                for part in m.group(1).split(', '):
                    lhs, _, rhs = part.partition('=')
                    assert lhs == rhs and lhs.isidentifier(), (fn, line)
    assert n_calls > 10

    # the executed chain really is the registered source
    br = app.routes[0]
    chain = br._execute
    fname = chain.__code__.co_filename
    assert fname in generated
    assert generated[fname].startswith('def next(')
    assert sorted(sinter.get_arg_names(chain)) == sorted(
        ['request', '_route', 'res_a', 'res_b', 'user_id', '_dispatch_state', '_application', 'name'])

    # bind-time refusals stay what they are
    def needs_unknown(request, who_knows):
        return Response('x')
    try:
        Application([('/', needs_unknown)])
    except NameError as ne:
        assert 'who_knows' in str(ne)
    else:
        raise AssertionError('unresolved argument accepted')

    # inject(): filters by declared names, applies defaults, passes everything to **kw
    def takes_two(a, b='b default', c=None):
        return (a, b, c)
    marker = Sentinel('a')
    assert inject(takes_two, {'a': marker, 'z': 1}) == (marker, 'b default', None)
    assert inject(takes_two, {'a': marker, 'b': 0, 'c': ''}) == (marker, 0, '')
    def takes_kw(a, **kw):
        return a, kw
    got_a, got_kw = inject(takes_kw, {'a': marker, 'z': 1})
    assert got_a is marker and got_kw == {'z': 1}
    try:
        inject(takes_two, {'z': 1})
    except TypeError:
        pass
    else:
        raise AssertionError('missing required argument accepted')

    # ----------------------------------------------------------------------
    # demo3 specifics: build_chain_str, the text of the generated chain
    # ----------------------------------------------------------------------
    from clastic.sinter import make_chain

    def mw_one(next, a, b='b default'):
        return next(c=(a, b))

    def mw_two(next, c, zzz_not_in_scope=None):
        return next(d=c, e='e')

    def final(a, c, e, d='d default', next='a default named next', other=5):
        return (a, c, d, e, next, other)

    funcs = [mw_one, mw_two, final]
    params = [('a', 'b'), ('c',), ['d', 'e']]
    expected = (
        "def next(a, b):\n"
        "    def next(c):\n"
        "        def next(d, e):\n"
        "            __traceback_hide__ = True\n"
        "            return funcs[2](a=a, c=c, d=d, e=e, next=next)\n"
        "        __traceback_hide__ = True\n"
        "        return funcs[1](c=c, next=next)\n"
        "    __traceback_hide__ = True\n"
        "    return funcs[0](a=a, b=b, next=next)\n")
    assert build_chain_str(funcs, params, 'next') == expected
    assert build_chain_str(tuple(funcs), tuple(params), 'next') == expected
    assert build_chain_str(funcs, params, 'next', None, 0, None, None) == expected
    assert build_chain_str(funcs, params, 'next', func_aliaser=len, func_names=['x']) == expected
    assert build_chain_str(funcs=funcs, params=params, inner_name='next') == expected
    # extra params entries are ignored
    assert build_chain_str(funcs, params + [('never',)], 'next') == expected

    # nothing to chain
    for nothing in ([], (), None, ''):
        assert build_chain_str(nothing, [], 'next') == ''
        sofar = set(['keep'])
        assert build_chain_str(nothing, [('a',)], 'next', sofar, 3) == ''
        assert sofar == set(['keep'])

    # a single level; another inner name: only that name is in scope from the start
    assert build_chain_str([final], [()], 'next') == (
        "def next():\n"
        "    __traceback_hide__ = True\n"
        "    return funcs[0](next=next)\n")
    assert build_chain_str([final], [('e', 'a')], 'proceed') == (
        "def proceed(e, a):\n"
        "    __traceback_hide__ = True\n"
        "    return funcs[0](a=a, e=e)\n")
    def takes_nothing():
        pass
    assert build_chain_str([takes_nothing], [('e', 'a')], 'next') == (
        "def next(e, a):\n"
        "    __traceback_hide__ = True\n"
        "    return funcs[0]()\n")

    # a start level and a caller-supplied scope: indentation and funcs[] index are offset,
    # the caller's set is updated in place (aliasing) and is not seeded with the inner name
    sofar = set(['e', 'zzz_not_in_scope'])
    got = build_chain_str([mw_two, final], [('c',), ('d',)], 'next', sofar, 2)
    assert got == (
        "        def next(c):\n"
        "            def next(d):\n"
        "                __traceback_hide__ = True\n"
        "                return funcs[3](c=c, d=d, e=e)\n"
        "            __traceback_hide__ = True\n"
        "            return funcs[2](c=c, zzz_not_in_scope=zzz_not_in_scope)\n"), got
    assert sofar == set(['e', 'zzz_not_in_scope', 'c', 'd'])
    got = build_chain_str([mw_two], [('c',)], 'next', level=1)
    assert got == ("    def next(c):\n"
                   "        __traceback_hide__ = True\n"
                   "        return funcs[1](c=c, next=next)\n"), got
    # an empty set is a supplied scope too: the inner name is then not in scope
    empty_scope = set()
    assert build_chain_str([mw_two], [()], 'next', empty_scope) == (
        "def next():\n"
        "    __traceback_hide__ = True\n"
        "    return funcs[0]()\n")
    assert empty_scope == set()

    # params given as a set (make_chain does that for level 0) and as a one-shot iterator
    level0 = set(['a', 'b', 'q', 'r', 's', 't'])
    got = build_chain_str([mw_one, final], [level0, ('c', 'e')], 'next')
    assert got == (
        "def next(%s):\n"
        "    def next(c, e):\n"
        "        __traceback_hide__ = True\n"
        "        return funcs[1](a=a, c=c, e=e, next=next)\n"
        "    __traceback_hide__ = True\n"
        "    return funcs[0](a=a, b=b, next=next)\n" % ', '.join(level0)), got
    got = build_chain_str([mw_one], [iter(['a', 'b'])], 'next')
    assert got == ("def next():\n"
                   "    __traceback_hide__ = True\n"
                   "    return funcs[0](a=a, b=b, next=next)\n"), got

    # methods, callable objects, **kwargs / keyword-only functions as chain members
    class Obj(object):
        def meth(self, next, a, self_like='x'):
            pass

        def __call__(self, c, a, *args, **kwargs):
            pass

    def kwonly_final(a, *, c, unknown=1):
        pass
    got = build_chain_str([Obj().meth, Obj(), kwonly_final], [('a', 'self_like', 'self'), ('c',), ()], 'next')
    assert got == (
        "def next(a, self_like, self):\n"
        "    def next(c):\n"
        "        def next():\n"
        "            __traceback_hide__ = True\n"
        "            return funcs[2](a=a, c=c)\n"
        "        __traceback_hide__ = True\n"
        "        return funcs[1](a=a, c=c)\n"
        "    __traceback_hide__ = True\n"
        "    return funcs[0](a=a, next=next, self_like=self_like)\n"), got

    # failures: a params list that is too short, a member that cannot be introspected;
    # the scope holds exactly what was brought in up to and including the failing level
    sofar = set()
    try:
        build_chain_str(funcs, [('a',), ('c',)], 'next', sofar)
    except IndexError:
        pass
    else:
        raise AssertionError
    assert sofar == set(['a', 'c'])
    sofar = set()
    try:
        build_chain_str([mw_one, 42, final], [('a',), ('c',), ('never',)], 'next', sofar)
    except Exception as e:
        failure = (type(e), str(e))
    else:
        raise AssertionError
    assert sofar == set(['a', 'c'])
    try:
        sinter.get_fb(42)
    except Exception as e:
        assert (type(e), str(e)) == failure
    sofar = set()
    try:
        build_chain_str([mw_one, final], [('a',), (1, 2)], 'next', sofar)
    except TypeError:
        pass   # str.join refuses the ints
    else:
        raise AssertionError
    assert sofar == set(['a', 1, 2])

    # a long chain: 60 nested levels still come out fine
    depth = 60
    def passthrough(next, v0):
        return next()
    def collect(**kw):
        return kw
    many = [passthrough] * depth + [collect]
    many_params = [('v%d' % i,) for i in range(depth)] + [()]
    src = build_chain_str(many, many_params, 'next')
    lines = src.splitlines()
    assert len(lines) == (depth + 1) * 3
    for i in range(depth + 1):
        assert lines[i] == '    ' * i + 'def next(%s):' % ('v%d' % i if i < depth else '')
    assert lines[depth + 1] == '    ' * (depth + 1) + '__traceback_hide__ = True'
    assert lines[depth + 2] == '    ' * (depth + 1) + 'return funcs[%d]()' % depth
    assert lines[-1] == '    return funcs[0](next=next, v0=v0)'
    assert lines[-3] == '        return funcs[1](next=next, v0=v0)'

    # and through make_chain: what is compiled is what build_chain_str wrote
    chain, args, unresolved = make_chain([mw_one, mw_two], [('c',), ('d', 'e')], final,
                                         ['a', 'b', 'other', 'unrelated'], 'next')
    assert args == set(['a', 'b', 'other']) and unresolved == set()
    assert chain(a=1, b=2, other=3)[:4] == (1, (1, 2), (1, 2), 'e') and chain(a=1, b=2, other=3)[5] == 3
    src = ''.join(linecache.cache[chain.__code__.co_filename][2])
    assert src == build_chain_str([mw_one, mw_two, final], [args, ('c',), ('d', 'e')], 'next')
    assert ("        def next(d, e):\n"
            "            __traceback_hide__ = True\n"
            "            return funcs[2](a=a, c=c, d=d, e=e, next=next, other=other)\n"
            "        __traceback_hide__ = True\n"
            "        return funcs[1](c=c, next=next)\n"
            "    __traceback_hide__ = True\n"
            "    return funcs[0](a=a, b=b, next=next)\n") in src

    print('PASS')


if __name__ == '__main__':
    if os.environ.get('C02_DEMO_CHILD') == '1':
        child()
    else:
        parent()
