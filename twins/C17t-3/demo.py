# -*- coding: utf-8 -*-
"""C17 demo 3: tabular values render as an HTML table when HTML is asked for.

Focus: TabularRender.context_to_response (document skeleton, stylesheet
head, endpoint title from _html_format_ep incl. docstring handling, table
pass-through vs. Table.from_data) reached directly and through render_basic.
"""
import re
import json

from boltons.tableutils import Table

from clastic import Application, render_basic
from clastic.render import BasicRender, TabularRender

CHECKS = [0]


def check(cond, msg):
    CHECKS[0] += 1
    assert cond, msg


TABLE_TAG = '<table class="clastic-atr-table">'
NO_DOC = '<!-- add a docstring to display a message here! -->'


def cells(html):
    return re.findall(r'<t[dh](?:\s[^>]*)?>(.*?)</t[dh]>', html, re.S)


def reference_table_html(value, max_depth=4, orientation='auto', with_metadata=True,
                         table_type=Table):
    "what boltons itself makes of the value, independently of clastic"
    table = table_type.from_data(value, max_depth=max_depth)
    table._html_table_tag = TABLE_TAG
    return table.to_html(max_depth=max_depth, orientation=orientation,
                         with_metadata=with_metadata)


flat = {'name': 'wörld', 'n': 1, 'pi': 3.25, 'none': None, 'flag': True,
        'markup': '<b>&"\'</b>'}
TABULAR = [
    flat, {'only': 'one'}, {}, [], (),
    [1, 2, 3], ['a', 'b', 'c'], (1, 'two', 3.0, None, False), [0], [''],
    [flat, flat], [{'a': 1, 'b': 2}, {'a': 3, 'b': 4}, {'a': 5, 'b': 6}],
    [[1, 2], [3, 4]], [(1, 2, 3), (4, 5, 6)], ([1, 'x'], [2, 'y']),
    [{'a': 1}], [[1]],
]

# ------------------------------------------------------------ through the app


def documented():
    """Summary line with a link: https://example.com/a?b=1
        indented <continuation> & more at www.example.org
    """


def one_liner():
    "just one line"


def undocumented():
    pass


def empty_doc():
    ""


class Endpoints(object):
    def method(self):
        "bound method endpoint"


def with_value(func, value):
    def endpoint():
        return value
    endpoint.__doc__ = func.__doc__
    endpoint.__name__ = func.__name__
    return endpoint


for value in TABULAR:
    expected_table = reference_table_html(value)
    for doc_func in (documented, one_liner, undocumented, empty_doc):
        app = Application([('/', with_value(doc_func, value), render_basic)])
        client = app.get_local_client()
        for path, headers in [('/?format=html', {}), ('/', {'Accept': 'text/html'}),
                              ('/?format=html', {'Accept': 'application/json'})]:
            resp = client.get(path, headers=headers)
            body = resp.get_data(True)
            check(resp.status_code == 200, (value, path, resp.status_code))
            check(resp.mimetype == 'text/html', (value, path, resp.mimetype))
            lines = body.split('\n')
            check(lines[0] == '<html>' and lines[-1] == '</html>', (lines[0], lines[-1]))
            check(lines[-2] == '</body>', lines[-2])
            check(body.count('<body>') == 1 and body.count('</body>') == 1, 'one body')
            check(expected_table in body, (value, 'table differs from the boltons reference'))
            check(body.endswith('\n'.join([expected_table, '</body>', '</html>'])), 'tail')
            # stylesheet
            check(lines[1] == '<head><style type="text/css">', lines[1])
            check('</style></head>\n<body>\n<h2>' in body, 'head, body, title order')
            check(TabularRender._html_style_content in body, 'css')
            # title
            check('<h2><small><sub>__main__</sub></small><br/>%s()</h2>' % doc_func.__name__
                  in body, ('title', doc_func.__name__))
            if doc_func is documented:
                check('<p style="white-space: pre;">Summary line with a link: '
                      '<a href="https://example.com/a?b=1">https://example.com/a?b=1</a>\n'
                      'indented &lt;continuation&gt; &amp; more at '
                      '<a href="https://www.example.org">https://www.example.org</a>\n</p>'
                      in body, body[body.find('<h2>'):][:600])
            elif doc_func is one_liner:
                check('</h2><p style="white-space: pre;">just one line\n</p>\n' in body, 'one-liner')
            else:
                check('</h2>' + NO_DOC + '\n' in body, 'no doc')
                check('white-space: pre' not in body.replace(TabularRender._html_style_content, ''),
                      'no doc paragraph')
        # and the same value as JSON by default
        resp = client.get('/')
        check(resp.mimetype == 'application/json', resp.mimetype)
        check(json.loads(resp.get_data(True)) == json.loads(json.dumps(value)), value)

# cell contents are there and escaped
app = Application([('/', with_value(undocumented, flat), render_basic)])
body = app.get_local_client().get('/?format=html').get_data(True)
found = cells(body)
for key, val in flat.items():
    check(key in found, (key, found))
check('wörld' in found and '3.25' in found and 'None' in found and 'True' in found, found)
check('<b>&"' not in body.replace(TabularRender._html_style_content, ''), 'markup must be escaped')
check('&lt;b&gt;&amp;' in body, 'escaped markup')
rows = [{'a': 1, 'b': 'x'}, {'a': 2, 'b': 'y'}]
app = Application([('/', with_value(undocumented, rows), render_basic)])
found = cells(app.get_local_client().get('/?format=html').get_data(True))
check([c for c in found if c in ('a', 'b', '1', '2', 'x', 'y')] == ['a', 'b', '1', 'x', '2', 'y'], found)

# bound-method endpoints get their class in the title, lambdas are de-angled
app = Application([('/m', Endpoints().method, render_basic), ('/l', lambda: [1, 2], render_basic)])
client = app.get_local_client()
body = client.get('/m?format=html').get_data(True)   # a method returning None: not Sized
check(body == 'None', body)
body = client.get('/l?format=html').get_data(True)
check('<br/>(lambda)()</h2>' + NO_DOC in body, body[body.find('<h2>'):][:200])

# --------------------------------------------------------------- direct calls

tr = TabularRender()
check(TabularRender.__call__ is TabularRender.context_to_response, 'alias')
check((tr.max_depth, tr.orientation, tr.enable_title, tr.table_type, tr.with_metadata)
      == (4, 'auto', True, Table, True), 'defaults')
for value in TABULAR:
    for kwargs in [{}, {'orientation': 'horizontal'}, {'orientation': 'vertical'},
                   {'max_depth': 1}, {'with_metadata': False}]:
        render = TabularRender(**kwargs)
        for call in (render, render.context_to_response):
            resp = call(value)            # _route defaults to None: no title
            body = resp.get_data(True)
            check(resp.status_code == 200 and resp.mimetype == 'text/html', (value, kwargs))
            check('<h2>' not in body and NO_DOC not in body, 'no title without a route')
            expected = '\n'.join(['<html>', '<head><style type="text/css">',
                                  TabularRender._html_style_content, '</style></head>',
                                  '<body>', reference_table_html(value, **kwargs),
                                  '</body>', '</html>'])
            check(body == expected, (value, kwargs))
        check(render(value, None).get_data(True) == expected, 'explicit None route')
        check(render(value, _route=0).get_data(True) == expected, 'falsy route')


class FakeRoute(object):
    def __init__(self, endpoint):
        self.endpoint = endpoint


body = tr({'a': 1}, FakeRoute(documented)).get_data(True)
check('<br/>documented()</h2><p style="white-space: pre;">Summary line' in body, 'fake route')
body = tr({'a': 1}, _route=FakeRoute(Endpoints().method)).get_data(True)
check('<sub>__main__.Endpoints</sub></small><br/>method(self)</h2>'
      '<p style="white-space: pre;">bound method endpoint\n</p>' in body,
      body[body.find('<h2>'):][:300])

# ready-made tables pass through (same object, tagged), anything else is converted
table = Table.from_data([{'a': 1}])
check(getattr(table, '_html_table_tag', None) != TABLE_TAG, 'fresh table has the stock tag')
body = tr(table).get_data(True)
check(table._html_table_tag == TABLE_TAG, 'passed-in table is tagged in place')
check(reference_table_html([{'a': 1}]) in body, 'table passthrough')


class BoldTable(Table):
    def get_cell_html(self, value):
        return '<b>%s</b>' % super(BoldTable, self).get_cell_html(value)


bold = TabularRender(table_type=BoldTable)
body = bold([{'a': 1}]).get_data(True)
check('<b>1</b>' in body and reference_table_html([{'a': 1}], table_type=BoldTable) in body, 'custom')
body = bold(table).get_data(True)  # a plain Table is not a BoldTable: Table.from_data(table)
check('<b>' in body and body.startswith('<html>'), 'foreign table converted into a BoldTable')
body = tr(BoldTable.from_data([{'a': 1}])).get_data(True)  # subclass instance passes through
check('<b>1</b>' in body, 'subclass instance passthrough')
for render in (BasicRender(table_type=BoldTable), BasicRender(tabular_render=bold)):
    app = Application([('/', with_value(one_liner, [{'a': 1}]), render)])
    check('<b>1</b>' in app.get_local_client().get('/?format=html').get_data(True), 'via basic')


# no stylesheet -> no <head>; custom wrappers are honoured
class Bare(TabularRender):
    _html_style_content = ''
    _html_wrapper, _html_wrapper_close = '<html lang="en">', '</html><!-- bye -->'
    _html_table_tag = '<table id="t">'


body = Bare()([1, 2]).get_data(True)
lines = body.split('\n')
check(lines[:2] == ['<html lang="en">', '<body>'] and '<head>' not in body, lines[:3])
check(lines[2].startswith('<table id="t">') and lines[-2:] == ['</body>', '</html><!-- bye -->'], lines)
body = Bare()([1, 2], FakeRoute(undocumented)).get_data(True)
check(body.split('\n')[2] == '<h2><small><sub>__main__</sub></small><br/>undocumented()</h2>' + NO_DOC,
      body.split('\n')[2])

# errors: a failing title comes before any table building; untabular data
# raises whatever boltons raises
order = []


class SpyTable(Table):
    @classmethod
    def from_data(cls, *a, **kw):
        order.append('from_data')
        return super(SpyTable, cls).from_data(*a, **kw)


class NoEndpoint(object):
    @property
    def endpoint(self):
        order.append('endpoint')
        raise LookupError('no endpoint')


try:
    TabularRender(table_type=SpyTable)([1], NoEndpoint())
except LookupError:
    check(order == ['endpoint'], order)
else:
    check(False, 'LookupError expected')
del order[:]
TabularRender(table_type=SpyTable)([1], FakeRoute(one_liner))
check(order == ['from_data'], order)
for untabular in (5, None, object()):
    try:
        reference_table_html(untabular)
    except Exception as e:
        wanted = type(e)
    else:
        wanted = None
    try:
        tr(untabular)
    except Exception as e:
        check(type(e) is wanted, (untabular, e))
    else:
        check(wanted is None, untabular)

print('PASS (%d checks)' % CHECKS[0])
