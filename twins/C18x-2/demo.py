# -*- coding: utf-8 -*-
"""Demo for C18: the meta application never reveals secrets and always renders.

Standalone: prints PASS and exits 0 (on clean code and with the patch applied).
"""
import json

from clastic import (Application, MetaApplication, render_basic, render_json,
                     StaticFileRoute, StaticApplication)
from clastic.route import Route, GET, POST
from clastic.middleware import Middleware
from clastic.middleware.cookie import SignedCookieMiddleware
from clastic import meta as M

import os
_HERE = os.path.dirname(os.path.abspath(__file__))
COOKIE_KEY = 'c00kie-signing-key-XYZZY-0123456789'


# ---------------------------------------------------------------- endpoints
def func_ep(request):
    return 'func'


def args_ep(request, name, greeting, number=3, _route=None, missing_thing=None):
    return 'x'


def mw_ep(request, provided_by_mw, name='dflt'):
    return 'x'


class CallableObj(object):
    def __call__(self, request):
        return 'callable'

    def ep_method(self, request):
        return 'method'


class BadReprCallable(object):
    def __call__(self, request):
        return 'badrepr'

    def __repr__(self):
        raise RuntimeError('no repr for you')


class _HideName(type):
    def __getattribute__(cls, name):
        if name == '__name__':
            raise AttributeError(name)
        return type.__getattribute__(cls, name)


class NoNameEP(_HideName('NoNameBase', (object,), {})):
    def __call__(self, request):
        return 'noname'

    def __repr__(self):
        return '<NoNameEP instance>'


class NoNameBadReprEP(_HideName('NoNameBase2', (object,), {})):
    def __call__(self, request):
        return 'noname'

    def __repr__(self):
        raise ValueError('nope')


class ProvidingMW(Middleware):
    provides = ('provided_by_mw',)

    def request(self, next, request):
        return next(provided_by_mw='hello')

    def __repr__(self):
        return '<ProvidingMW at home>'


class SecretRepr(object):
    def __init__(self, s):
        self.s = s

    def __repr__(self):
        return 'SecretRepr(%r)' % self.s


class RenderObj(object):
    def __call__(self, context):
        return render_basic(context)


SECRETS = ['s3cr3t-VALUE-%02d-qwerty' % i for i in range(8)]


def make_resources():
    return {
        'secret_prefix': SECRETS[0],
        'an_infix_secret_key': SECRETS[1].encode('ascii'),
        'suffix_secret': {'nested': [SECRETS[2], {'deep': SECRETS[3]}]},
        'secret': SecretRepr(SECRETS[4]),
        'my_secrets_list': [SECRETS[5], 1, 2.5, None],
        'secretsecret': (SECRETS[6],),
        'xsecretx': 0,
        'visible_string': 'plainly-visible-value',
        'visible_number': 424242,
        'visible_bytes': b'visible-bytes-value',
        'visible_nested': {'k': ['visible-nested-value']},
        'visible_long': 'L' * 200,
        'visible_empty': '',
        'visible_none': None,
        'Secret_capitalised': 'capitalised-name-is-shown',
        'greeting': 'hi',
        'iterable': [1, 2, 3],
        'start': 0,
    }


def make_routes():
    obj = CallableObj()
    return [
        ('/func', func_ep, render_basic),
        ('/args/<name>', args_ep, render_json),
        ('/mw/<name?>', mw_ep, render_basic),
        ('/method', obj.ep_method, render_basic),
        ('/callable', obj, RenderObj()),
        ('/badrepr', BadReprCallable(), render_basic),
        ('/noname', NoNameEP(), render_basic),
        ('/noname_badrepr', NoNameBadReprEP(), render_basic),
        ('/builtin', sum, render_basic),
        ('/lambda', lambda request: 'l', None),
        GET('/get_only', func_ep, render_basic),
        POST('/post_only', func_ep),
        StaticFileRoute('/file', os.path.join(_HERE, 'demo1.py')),
        ('/static/', StaticApplication(_HERE)),
    ]


def check_body(body, where):
    for s in SECRETS:
        assert s not in body, (where, 'leaked', s)
    assert COOKIE_KEY not in body, (where, 'leaked cookie key')
    for visible in ('plainly-visible-value', '424242', 'visible-bytes-value',
                    'visible-nested-value', 'capitalised-name-is-shown'):
        assert visible in body, (where, 'missing', visible)
    assert '[REDACTED]' in body, where
    assert 'L' * 68 not in body, (where, 'long value must be truncated')
    assert 'L' * 66 + '...' in body, where


def check_json(data, prefix_label):
    res = dict((d['key'], d['value']) for d in data['app']['resources'])
    assert [d['key'] for d in data['app']['resources']] == list(make_resources()), prefix_label
    for key in ('secret_prefix', 'an_infix_secret_key', 'suffix_secret', 'secret',
                'my_secrets_list', 'secretsecret', 'xsecretx'):
        assert res[key] == '[REDACTED]', (key, res[key])
    assert res['visible_string'] == "'plainly-visible-value'"
    assert res['visible_number'] == '424242'
    assert res['visible_bytes'] == "b'visible-bytes-value'"
    assert res['visible_nested'] == "{'k': ['visible-nested-value']}"
    assert res['visible_long'] == "'" + 'L' * 66 + '...'
    assert len(res['visible_long']) == 70
    assert res['visible_empty'] == "''"
    assert res['visible_none'] == 'None'
    assert res['Secret_capitalised'] == "'capitalised-name-is-shown'"
    for group, info in data.items():
        if isinstance(info, dict):
            assert 'exc_content' not in info, (group, info.get('exc_content'))

    mws = data['app']['middlewares']
    assert [m['type_name'] for m in mws] == ['SignedCookieMiddleware', 'ProvidingMW'], mws
    assert mws[0] == {'type_name': 'SignedCookieMiddleware', 'provides': ['cookie'],
                      'requires': ['request'],
                      'repr': "SignedCookieMiddleware(arg_name='cookie', cookie_name='clastic_cookie')"}
    assert mws[1] == {'type_name': 'ProvidingMW', 'provides': ['provided_by_mw'],
                      'requires': ['request'], 'repr': '<ProvidingMW at home>'}

    routes = data['app']['routes']
    by_pat = {}
    for r in routes:
        by_pat.setdefault(r['url_pattern'], r)
    mod = func_ep.__module__
    assert by_pat['/func']['endpoint'] == {'module_name': mod, 'name': 'func_ep'}
    assert by_pat['/method']['endpoint'] == {'module_name': mod + '.CallableObj', 'name': 'ep_method'}
    assert by_pat['/callable']['endpoint'] == {'module_name': mod, 'name': 'CallableObj'}
    assert by_pat['/badrepr']['endpoint'] == {'module_name': mod, 'name': 'BadReprCallable'}
    assert by_pat['/noname']['endpoint'] == {'name': '<NoNameEP instance>'}
    nbr = by_pat['/noname_badrepr']['endpoint']
    assert list(nbr) == ['name'] and 'NoNameBadReprEP object at 0x' in nbr['name'], nbr
    assert by_pat['/builtin']['endpoint'] == {'module_name': 'builtins', 'name': 'sum'}
    assert by_pat['/lambda']['endpoint'] == {'module_name': mod, 'name': '<lambda>'}
    assert by_pat['/file']['endpoint'] == {'module_name': 'clastic.static.StaticFileRoute',
                                           'name': 'get_file_response'}

    assert by_pat['/func']['render'] == {'type': None, 'arg': 'BasicRender'}
    assert by_pat['/args/<name>']['render'] == {'type': None, 'arg': 'JSONRender'}
    assert by_pat['/callable']['render'] == {'type': None, 'arg': 'RenderObj'}
    assert by_pat['/lambda']['render'] == {'type': None, 'arg': None}
    assert by_pat['/post_only']['render'] == {'type': None, 'arg': None}

    assert by_pat['/args/<name>']['args'] == [
        {'name': 'request', 'source': 'builtin'},
        {'name': 'name', 'source': 'url'},
        {'name': 'greeting', 'source': 'resources'},
        {'name': 'number', 'source': 'default'},
        {'name': '_route', 'source': 'builtin'},
        {'name': 'missing_thing', 'source': 'default'}], by_pat['/args/<name>']['args']
    assert by_pat['/mw/<name?>']['args'] == [
        {'name': 'request', 'source': 'builtin'},
        {'name': 'provided_by_mw', 'source': 'middleware'},
        {'name': 'name', 'source': 'url'}]
    return len(routes)


def run_through_http():
    n_checked = 0
    layouts = []
    for prefix in ('/meta', '/_m/e/t/a', '/'):
        def flat(prefix=prefix):
            return make_routes() + [(prefix, MetaApplication())], prefix
        layouts.append(flat)

    def nested():
        routes = make_routes()
        inner = Application([('/deep', MetaApplication())])
        mid = Application([('/mid', inner)])
        return routes + [('/outer', mid)], '/outer/mid/deep'
    layouts.append(nested)

    for layout in layouts:
        routes, prefix = layout()
        app = Application(routes, make_resources(),
                          middlewares=[SignedCookieMiddleware(secret_key=COOKIE_KEY),
                                       ProvidingMW()])
        cl = app.get_local_client()
        base = prefix.rstrip('/')
        resp = cl.get(base + '/')
        assert resp.status_code == 200, (prefix, resp.status_code)
        html = resp.get_data(as_text=True)
        check_body(html, ('html', prefix))
        assert 'exc_content' not in html
        resp = cl.get(base + '/json/')
        assert resp.status_code == 200, (prefix, resp.status_code)
        text = resp.get_data(as_text=True)
        check_body(text, ('json', prefix))
        n_checked += check_json(json.loads(text), prefix)
    return n_checked


# ------------------------------------------ sections that cannot be computed
class BoomContextPeripheral(M.MetaPeripheral):
    title = 'Boom context'
    group_key = 'boomctx'

    def get_context(self):
        raise KeyError('ctx-boom')


class BoomRenderPeripheral(M.MetaPeripheral):
    title = 'Boom render'
    group_key = 'boomrender'

    def get_context(self, request, script_root, _route):
        return {'fine': 1}

    def render_main_page_html(self, context):
        raise ZeroDivisionError('render-boom')

    def get_general_items(self, context):
        return [('k1', 'v1'), (('k2', 'k2 detail'), ('v2', 'v2 detail')), ('k3', 1, 2), 7]


class SharedGroupPeripheral(M.MetaPeripheral):
    title = 'Shares basic group'
    group_key = 'basic'

    def get_context(self, _application, _meta_application):
        return {'shared_marker': 'shared-%d' % len(_application.routes),
                'is_meta': isinstance(_meta_application, MetaApplication)}


class UnknownArgPeripheral(M.MetaPeripheral):
    title = 'Unknown arg'
    group_key = 'unknownarg'

    def get_context(self, not_an_injectable):
        return {}


def run_failing_sections():
    peris = [BoomContextPeripheral(), BoomRenderPeripheral(),
             SharedGroupPeripheral(), UnknownArgPeripheral()]
    meta = MetaApplication(peripherals=peris, page_title='Demo <Title>')
    app = Application([('/m', meta), ('/f', func_ep, render_basic)],
                      {'top_secret': SECRETS[7], 'shown': 'shown-value'})
    cl = app.get_local_client()
    resp = cl.get('/m/json/')
    assert resp.status_code == 200
    data = json.loads(resp.get_data(as_text=True))
    assert data['page_title'] == 'Demo <Title>'
    assert sorted(data) == sorted(['script_root', 'page_title', 'basic', 'app', 'host', 'proc', 'rusage', 'pyvm',
                                   'boomctx', 'boomrender', 'unknownarg']), list(data)
    ctx = meta.get_main(request=None, _application=app, _route=None, script_root='/zz')
    assert list(ctx) == ['page_title', 'basic', 'app', 'host', 'proc', 'rusage', 'pyvm',
                         'boomctx', 'boomrender', 'unknownarg'], list(ctx)
    assert list(ctx['app']) == ['routes', 'script_root', 'middlewares', 'resources']
    assert ctx['app']['script_root'] == '/zz'
    for r in ctx['app']['routes']:
        assert list(r) == ['url_pattern', 'url_regex_pattern', 'endpoint', 'render', 'args'], list(r)
        assert list(r['endpoint']) == ['module_name', 'name']
        assert list(r['render']) == ['type', 'arg']
        assert all(list(a) == ['name', 'source'] for a in r['args'])
    assert data['boomctx'] == {'exc_content': "KeyError('ctx-boom')"}
    assert data['boomrender'] == {'fine': 1}
    assert data['basic']['shared_marker'] == 'shared-%d' % len(app.routes)
    assert data['basic']['is_meta'] is True
    assert 'rel_start_time' in data['basic']
    assert list(data['unknownarg']) == ['exc_content']
    assert 'TypeError' in data['unknownarg']['exc_content']
    assert data['app']['script_root'] == data['script_root'], data['app']['script_root']
    assert data['app']['resources'] == [{'key': 'top_secret', 'value': '[REDACTED]'},
                                        {'key': 'shown', 'value': "'shown-value'"}]
    assert SECRETS[7] not in resp.get_data(as_text=True)

    resp = cl.get('/m/')
    assert resp.status_code == 200
    html = resp.get_data(as_text=True)
    assert SECRETS[7] not in html and 'shown-value' in html
    assert 'ctx-boom' in html and 'render-boom' in html
    for title in ('boomctx-div', 'boomrender-div', 'unknownarg-div', 'basic-div',
                  'Routes', 'Application Resources', 'Python Runtime'):
        assert title in html, title
    for item in ('k1', 'v1', 'k2 detail', 'v2 detail', 'k3', 'Start time', 'PID'):
        assert item in html, item


def run_direct():
    "unit-level checks of the introspection helpers on hand-made objects"
    class FakeApp(object):
        pass
    fa = FakeApp()
    fa.middlewares = []
    fa.resources = {}
    fa.routes = []
    assert M.get_mw_infos(fa) == [] and M.get_resource_info(fa) == []
    assert M.get_route_infos(fa) == []

    prov = ('a', 'b')
    mw = ProvidingMW()
    mw.provides = prov
    fa.middlewares = (mw,)
    infos = M.get_mw_infos(fa)
    assert infos[0]['provides'] is prov, 'provides must be aliased, not copied'
    assert infos[0]['requires'] is mw.requires
    assert isinstance(infos, list) and len(infos) == 1
    assert list(infos[0]) == ['type_name', 'provides', 'requires', 'repr']

    class FakeRoute(object):
        render_factory = None
        render_arg = None
    fr = FakeRoute()
    fr.endpoint = NoNameEP()
    assert M.get_endpoint_info(fr) == {'name': '<NoNameEP instance>'}
    fr.endpoint = 5   # no __call__, no __name__
    assert M.get_endpoint_info(fr) == {'name': '5'}
    fr.endpoint = func_ep
    assert M.get_endpoint_info(fr) == {'module_name': __name__, 'name': 'func_ep'}

    assert M.get_render_info(fr) == {'type': None, 'arg': None}
    fr.render_arg = 'tmpl.html'      # no factory, not callable, not None
    assert M.get_render_info(fr) == {'type': None, 'arg': 'str'}
    fr.render_arg = 0
    assert M.get_render_info(fr) == {'type': None, 'arg': 'int'}
    marker = ['tmpl']
    fr.render_factory = RenderObj()
    fr.render_arg = marker
    info = M.get_render_info(fr)
    assert info == {'type': 'RenderObj', 'arg': ['tmpl']} and info['arg'] is marker
    assert list(info) == ['type', 'arg']
    fr.render_arg = None            # factory + None -> factory branch
    assert M.get_render_info(fr) == {'type': 'RenderObj', 'arg': None}
    fr.render_arg = render_basic    # factory + callable -> name branch
    assert M.get_render_info(fr) == {'type': None, 'arg': 'BasicRender'}
    fr.render_arg = func_ep         # plain function has no func_name on py3
    assert M.get_render_info(fr) == {'type': None, 'arg': 'function'}

    class WithFuncName(object):
        func_name = 'legacy_name'

        def __call__(self, ctx):
            return ctx
    fr.render_arg = WithFuncName()
    assert M.get_render_info(fr) == {'type': None, 'arg': 'legacy_name'}

    for name in ('get_route_infos', 'get_endpoint_info', 'get_render_info',
                 'get_route_arg_info', 'get_mw_infos', 'get_resource_info',
                 '_trunc', '_process_items', 'MetaApplication'):
        assert callable(getattr(M, name)), name


if __name__ == '__main__':
    n = run_through_http()
    run_failing_sections()
    run_direct()
    assert n > 60, n
    print('PASS')
