# -*- coding: utf-8 -*-
"""demo2: the static-file helpers (find_file, is_binary_string, peek_file)
and the WSGI behaviour of the file responses built on top of them.

Every request goes through wsgiref.validate with a recording start_response;
files opened by build_file_response are tracked through a recording
wsgi.file_wrapper and must be closed by the iterable's close().
"""
import io
import os
import sys
import shutil
import tempfile
import warnings
from wsgiref.validate import validator

warnings.simplefilter('ignore')

from clastic import Application, StaticApplication, StaticFileRoute
from clastic import static as static_mod
from clastic.static import find_file, is_binary_string, peek_file
from werkzeug.wsgi import FileWrapper


def make_environ(path='/', method='GET', query='', headers=None):
    env = {'REQUEST_METHOD': method,
           'SCRIPT_NAME': '',
           'PATH_INFO': path,
           'QUERY_STRING': query,
           'SERVER_NAME': 'localhost',
           'SERVER_PORT': '80',
           'SERVER_PROTOCOL': 'HTTP/1.1',
           'HTTP_HOST': 'localhost',
           'wsgi.version': (1, 0),
           'wsgi.url_scheme': 'http',
           'wsgi.input': io.BytesIO(b''),
           'wsgi.errors': io.StringIO(),
           'wsgi.multithread': False,
           'wsgi.multiprocess': False,
           'wsgi.run_once': False}
    if method == 'POST':
        env['CONTENT_LENGTH'] = '0'
    env.update(headers or {})
    return env


OPENED = []


class RecordingFileWrapper(FileWrapper):
    def __init__(self, file, buffer_size=8192):
        OPENED.append(file)
        FileWrapper.__init__(self, file, buffer_size)


def call_wsgi(app, use_file_wrapper=True, **kw):
    environ = make_environ(**kw)
    if use_file_wrapper:
        environ['wsgi.file_wrapper'] = RecordingFileWrapper
    del OPENED[:]
    calls = []
    chunks = []

    def start_response(status, headers, exc_info=None):
        assert not chunks, 'start_response after body bytes'
        calls.append((status, list(headers)))
        return chunks.append

    app_iter = validator(app)(environ, start_response)
    try:
        for chunk in app_iter:
            assert calls, 'body bytes before start_response'
            assert isinstance(chunk, bytes)
            chunks.append(chunk)
    finally:
        app_iter.close()
    assert len(calls) == 1, 'start_response called %r times' % len(calls)
    for f in OPENED:
        assert f.closed, 'file %r left open' % (f,)
    status, headers = calls[0]
    assert isinstance(status, str) and status[:3].isdigit() and status[3] == ' '
    for k, v in headers:
        assert type(k) is str and type(v) is str, (k, v)
    body = b''.join(chunks)
    if kw.get('method') == 'HEAD':
        assert body == b'', body
    return status, dict(headers), body, len(OPENED)


def expect_raises(exc_type, func, *a, **kw):
    try:
        func(*a, **kw)
    except exc_type as e:
        return e
    except Exception as e:
        raise AssertionError('expected %r, got %r' % (exc_type, e))
    raise AssertionError('expected %r, nothing raised' % (exc_type,))


def check_helpers(root_a, root_b):
    # --- is_binary_string
    assert is_binary_string(b'') is False
    assert is_binary_string(b'abc\n\t\r\x1b') is False
    assert is_binary_string(b'\x00') is True
    assert is_binary_string(b'abc\x01def') is True
    assert is_binary_string(bytes(bytearray(range(32, 256)))) is False
    assert is_binary_string(b'a' * 4096 + b'\x00') is False   # beyond sample
    assert is_binary_string(b'a' * 4095 + b'\x00') is True    # last sampled byte
    assert is_binary_string(b'a' * 4096) is False             # exactly sample_size
    assert is_binary_string(b'\x00abc', sample_size=0) is False
    assert is_binary_string(b'a\x00', sample_size=1) is False
    assert is_binary_string(b'a\x00', sample_size=2) is True
    assert is_binary_string(b'a\x00b', sample_size=-1) is True   # [:-1] keeps the NUL
    assert is_binary_string(b'ab\x00', sample_size=-1) is False  # [:-1] drops the NUL
    assert is_binary_string(bytearray(b'ab\x00')) is True
    assert is_binary_string(bytearray(b'ab')) is False
    arg = b'x' * 5000 + b'\x00'
    is_binary_string(arg)
    assert arg == b'x' * 5000 + b'\x00'
    expect_raises(TypeError, is_binary_string, u'text')   # str.translate(None, ..)
    expect_raises(TypeError, is_binary_string, None)
    expect_raises(TypeError, is_binary_string, b'abc', sample_size=None)

    # --- peek_file
    f = io.BytesIO(b'0123456789')
    assert peek_file(f, 4) == b'0123' and f.tell() == 0
    f.seek(3)
    assert peek_file(f, 4) == b'3456' and f.tell() == 3
    assert peek_file(f) == b'3456789' and f.tell() == 3
    assert peek_file(f, 0) == b'' and f.tell() == 3
    f.seek(10)
    assert peek_file(f, 5) == b'' and f.tell() == 10
    expect_raises(TypeError, peek_file, object())
    expect_raises(TypeError, peek_file, b'bytes')

    # --- find_file
    ja, jb = os.path.join(root_a, 'a.txt'), os.path.join(root_b, 'only_b.txt')
    assert find_file([root_a, root_b], 'a.txt') == ja          # first root wins
    assert find_file([root_b, root_a], 'a.txt') == os.path.join(root_b, 'a.txt')
    assert find_file([root_a, root_b], 'only_b.txt') == jb
    assert find_file((root_a, root_b), 'only_b.txt') == jb
    assert find_file(iter([root_a, root_b]), 'only_b.txt') == jb
    assert find_file([root_a, root_b], 'nope.txt') is None
    assert find_file([], 'a.txt') is None
    assert find_file([root_a], 'sub') is None                  # directory
    assert find_file([root_a], 'sub/../a.txt') == ja           # normalized
    assert find_file([root_a], './sub/./c.bin') == os.path.join(root_a, 'sub', 'c.bin')
    assert find_file([root_a], 'sub//c.bin') == os.path.join(root_a, 'sub', 'c.bin')
    assert find_file([root_a], '') is None                     # normpath('') == '.'
    for evil, needle in [('/etc/hosts', 'expected relative path'),
                         ('//etc/hosts', 'expected relative path'),
                         ('../a.txt', 'beyond root'),
                         ('sub/../../a.txt', 'beyond root'),
                         ('..', 'beyond root'),
                         ('..hidden', 'beyond root'),   # prefix test quirk
                         (ja, 'expected relative path')]:
        e = expect_raises(ValueError, find_file, [root_a], evil)
        assert needle in str(e), (evil, str(e))
        if 'relative path' in needle:
            assert repr(evil) in str(e)
    # first failing check wins: absolute path that also climbs
    e = expect_raises(ValueError, find_file, [root_a], '/../x')
    assert 'expected relative path' in str(e)
    # limit_root=False skips all of the checks
    assert find_file([root_a], ja, limit_root=False) == ja
    assert find_file([root_a], '../' + os.path.basename(root_a) + '/a.txt',
                     limit_root=False) == os.path.join(
                         root_a, '..', os.path.basename(root_a), 'a.txt')
    assert find_file([root_a], '/nonexistent/file', limit_root=False) is None
    assert find_file([root_a], 'a.txt', limit_root=0) == ja
    # checks happen before the search paths are touched at all
    def exploding():
        raise RuntimeError('search path consumed')
        yield
    expect_raises(ValueError, find_file, exploding(), '../x')
    expect_raises(RuntimeError, find_file, exploding(), 'x')
    # bytes paths are not supported with limit_root (str prefix test)
    expect_raises(TypeError, find_file, [root_a], b'a.txt')
    # windows flag: colon check sits between the two others, uses raw path
    orig = static_mod.IS_WINDOWS
    static_mod.IS_WINDOWS = True
    try:
        e = expect_raises(ValueError, find_file, [root_a], 'c:foo')
        assert 'unexpected colon' in str(e) and repr('c:foo') in str(e)
        e = expect_raises(ValueError, find_file, [root_a], '/c:foo')
        assert 'expected relative path' in str(e)
        e = expect_raises(ValueError, find_file, [root_a], '../c:foo')
        assert 'unexpected colon' in str(e)
        assert find_file([root_a], 'c:foo', limit_root=False) is None
        assert find_file([root_a], 'a.txt') == ja
    finally:
        static_mod.IS_WINDOWS = orig
    assert find_file([root_a], 'c:foo') is None


def main():
    root_a = tempfile.mkdtemp(prefix='c13u_a_')
    root_b = tempfile.mkdtemp(prefix='c13u_b_')
    try:
        def put(root, rel, data):
            full = os.path.join(root, rel)
            if not os.path.isdir(os.path.dirname(full)):
                os.makedirs(os.path.dirname(full))
            with open(full, 'wb') as f:
                f.write(data)
            return full

        put(root_a, 'a.txt', b'from a\n')
        put(root_b, 'a.txt', b'from b\n')
        put(root_b, 'only_b.txt', b'only in b\n')
        put(root_a, 'sub/c.bin', b'\x00\x01\x02binary')
        put(root_a, 'noext_text', b'just text, no extension\n')
        put(root_a, 'noext_bin', b'\x00\x01\x02\x03' * 10)
        put(root_a, 'noext_empty', b'')
        put(root_a, 'noext_latebin', b'a' * 1024 + b'\x00')  # NUL beyond the peek
        put(root_a, 'big.txt', b'0123456789abcdef' * 4096)
        put(root_a, 'page.html', b'<html></html>')
        put(root_a, '..hidden', b'dotdot prefix')
        put(root_a, 'with space.txt', b'spaced')

        check_helpers(root_a, root_b)

        sapp = StaticApplication([root_a, root_b],
                                 default_text_mime='text/x-demo',
                                 default_binary_mime='application/x-demo')
        single = StaticApplication(root_a)   # str search path is listified
        assert single.search_paths == [root_a]
        outer = Application([('/static/', sapp),
                             StaticFileRoute('/one', os.path.join(root_a, 'a.txt')),
                             StaticFileRoute('/one_typed', os.path.join(root_a, 'noext_bin'),
                                             mimetype='image/x-demo')])

        expectations = [
            ('/static/a.txt', '200', b'from a\n', 'text/plain'),
            ('/static/only_b.txt', '200', b'only in b\n', 'text/plain'),
            ('/static/sub/c.bin', '200', b'\x00\x01\x02binary', None),
            ('/static/sub/../a.txt', '200', b'from a\n', 'text/plain'),
            ('/static/noext_text', '200', b'just text, no extension\n', 'text/x-demo'),
            ('/static/noext_bin', '200', b'\x00\x01\x02\x03' * 10, 'application/x-demo'),
            ('/static/noext_empty', '200', b'', 'text/x-demo'),
            ('/static/noext_latebin', '200', b'a' * 1024 + b'\x00', 'text/x-demo'),
            ('/static/big.txt', '200', b'0123456789abcdef' * 4096, 'text/plain'),
            ('/static/page.html', '200', b'<html></html>', 'text/html'),
            ('/static/with space.txt', '200', b'spaced', 'text/plain'),
            ('/one', '200', b'from a\n', 'text/plain'),
            ('/one_typed', '200', b'\x00\x01\x02\x03' * 10, 'image/x-demo'),
            ('/static/nope.txt', '404', None, None),
            ('/static/sub', '404', None, None),
            ('/static/sub/', '404', None, None),
            ('/static/', '404', None, None),
            ('/static/../a.txt', '403', None, None),
            ('/static/sub/../../a.txt', '403', None, None),
            ('/static//etc/hosts', '403', None, None),
            ('/static/..hidden', '403', None, None),
            ('/elsewhere', '404', None, None),
        ]
        for app in (outer,):
            for use_fw in (True, False):
                for path, code, content, mime in expectations:
                    for method in ('GET', 'HEAD', 'POST', 'OPTIONS'):
                        st, hd, body, n_open = call_wsgi(app, use_file_wrapper=use_fw,
                                                         path=path, method=method)
                        assert st.startswith(code), (path, method, st)
                        if code == '200':
                            if use_fw:
                                assert n_open == 1, (path, n_open)
                            assert hd['Content-Length'] == str(len(content))
                            assert 'Last-Modified' in hd
                            if mime:
                                assert hd['Content-Type'].split(';')[0] == mime, (path, hd)
                            if method != 'HEAD':
                                assert body == content, (path, method)
                        else:
                            assert n_open == 0

        # the standalone static application (no prefix) behaves the same
        st, hd, body, n_open = call_wsgi(single, path='/a.txt')
        assert st.startswith('200') and body == b'from a\n' and n_open == 1
        st, hd, body, n_open = call_wsgi(single, path='/only_b.txt')
        assert st.startswith('404') and n_open == 0
        st, hd, body, n_open = call_wsgi(single, path='/../a.txt')
        assert st.startswith('403') and n_open == 0

        # conditional requests: 304 opens nothing and sends nothing
        st, hd, body, n_open = call_wsgi(outer, path='/static/a.txt')
        lm = hd['Last-Modified']
        for method in ('GET', 'HEAD'):
            st, hd, body, n_open = call_wsgi(outer, path='/static/a.txt', method=method,
                                             headers={'HTTP_IF_MODIFIED_SINCE': lm})
            assert st.startswith('304'), st
            assert body == b'' and n_open == 0
        st, hd, body, n_open = call_wsgi(
            outer, path='/static/a.txt',
            headers={'HTTP_IF_MODIFIED_SINCE': 'Mon, 01 Jan 1990 00:00:00 GMT'})
        assert st.startswith('200') and body == b'from a\n' and n_open == 1

        # abandoning the iterable early still releases the file
        environ = make_environ(path='/static/big.txt')
        environ['wsgi.file_wrapper'] = RecordingFileWrapper
        del OPENED[:]
        seen = []
        app_iter = outer(environ, lambda s, h, e=None: seen.append(s))
        first = next(iter(app_iter))
        assert seen == ['200 OK'] and first.startswith(b'0123456789abcdef')
        assert len(OPENED) == 1 and not OPENED[0].closed
        app_iter.close()
        assert OPENED[0].closed

        print('PASS')
    finally:
        shutil.rmtree(root_a, ignore_errors=True)
        shutil.rmtree(root_b, ignore_errors=True)


if __name__ == '__main__':
    main()
    sys.exit(0)
