# -*- coding: utf-8 -*-
"""demo1: plain-text rendering of error responses (HTTPException.to_text),
status codes and the text/plain fallback of the Accept negotiation.

Prints PASS and exits 0 when every assertion holds.
"""
import sys
import json

from clastic import Application, render_basic, errors, GET
from clastic.errors import HTTPException

STANDARD_CODES = {
    'BadRequest': 400, 'Unauthorized': 401, 'PaymentRequired': 402,
    'Forbidden': 403, 'NotFound': 404, 'MethodNotAllowed': 405,
    'NotAcceptable': 406, 'ProxyAuthenticationRequired': 407,
    'RequestTimeout': 408, 'Conflict': 409, 'Gone': 410,
    'LengthRequired': 411, 'PreconditionFailed': 412,
    'RequestEntityTooLarge': 413, 'RequestURITooLong': 414,
    'UnsupportedMediaType': 415, 'RequestedRangeNotSatisfiable': 416,
    'ExpectationFailed': 417, 'ImATeapot': 418, 'UnprocessableEntity': 422,
    'UpgradeRequired': 426, 'PreconditionRequired': 428,
    'TooManyRequests': 429, 'RequestHeaderFieldsTooLarge': 431,
    'UnavailableForLegalReasons': 451, 'InternalServerError': 500,
    'NotImplemented': 501, 'BadGateway': 502, 'ServiceUnavailable': 503,
    'GatewayTimeout': 504, 'HTTPVersionNotSupported': 505,
}

NASTY = [
    'plain detail',
    '<script>alert(1)</script>',
    '"quoted" & \'single\' <b>',
    '{detail} {0} {code!r} {{}} }{',
    '{{ template }} {% syntax %} ${x} <%= y %>',
    u'non-ascii: é中文 \U0001f600',
    'line one\nline two\n\nline four',
    'tab\tand\x0bcontrol\x01chars',
    ' ',
    '0',
]


def expected_text(code, message, detail, error_type):
    """Independent model of the text format."""
    out = '%s - %s' % (code, message)
    if detail:
        out += '\n\n' + detail
    if error_type:
        out += '\n\n' + 'Error type: %s' % (error_type,)
    return out


def check_class_defaults():
    for name in errors.__all__:
        cls = getattr(errors, name)
        assert issubclass(cls, HTTPException)
        assert errors.ERROR_CODE_MAP[cls.code] is cls
    assert sorted(errors.ERROR_CODE_MAP, key=lambda c: c or 0) == \
        [None] + sorted(STANDARD_CODES.values())
    for name, code in STANDARD_CODES.items():
        cls = getattr(errors, name)
        assert issubclass(errors.ERROR_CODE_MAP[code], cls)
        exc = cls()
        assert exc.code == code and exc.status_code == code, name
        assert exc.headers['Content-Type'].split(';')[0] == 'text/plain', name
        assert exc.headers['Content-Type'] == 'text/plain; charset=utf-8'
        body = exc.get_data(True)
        assert body == exc.to_text()
        assert body == expected_text(code, cls.message, cls.detail, None), body
        first, blank, rest = body.split('\n', 2)
        assert first == '%d - %s' % (code, cls.message)
        assert blank == '' and rest == cls.detail
        assert 'Error type' not in body


def check_overrides():
    for cls in (errors.BadRequest, errors.Forbidden, errors.ImATeapot,
                errors.InternalServerError, errors.BadGateway, HTTPException):
        for detail in NASTY:
            for error_type in (None, '', 'some_type', 'http://example.com/e?a=1&b=<2>',
                               '<i>type</i>', '{error_type}', u'typé'):
                for message in (None, 'Custom <msg> & "stuff" {message}', ''):
                    kw = {}
                    if message is not None:
                        kw['message'] = message
                    if error_type is not None:
                        kw['error_type'] = error_type
                    exc = cls(detail, code=499, **kw)
                    exp_msg = cls.message if message is None else message
                    exp = expected_text(499, exp_msg, detail, error_type)
                    assert exc.status_code == 499
                    assert exc.to_text() == exp, (exc.to_text(), exp)
                    assert exc.get_data(True) == exp
                    # the text body is verbatim (no escaping in text/plain)
                    if detail:
                        assert detail in exc.to_text()
                    # adapting to an unknown type keeps the text form
                    exc.adapt('image/png')
                    assert exc.get_data(True) == exp
                    assert exc.headers['Content-Type'] == 'text/plain; charset=utf-8'
                    exc.adapt(None)
                    assert exc.get_data(True) == exp
                    exc.adapt('text/plain')
                    assert exc.get_data(True) == exp
                    assert exc.headers['Content-Type'] == 'text/plain; charset=utf-8'

    # falsy details fall back to the class default; falsy error types are omitted
    for falsy in (None, '', 0, [], ()):
        exc = errors.Gone(falsy)
        assert exc.to_text() == expected_text(410, 'Gone', errors.Gone.detail, None)
        exc = errors.Gone('d', error_type=falsy)
        assert exc.to_text() == '410 - Gone\n\nd'
    # code None on the base class
    exc = HTTPException('x')
    assert exc.to_text() == 'None - Error\n\nx'
    # non-string (but truthy) error types are %-formatted, tuples included
    exc = errors.Gone('d', error_type=42)
    assert exc.to_text() == '410 - Gone\n\nd\n\nError type: 42'
    exc = errors.Gone('d', error_type=('one',))
    assert exc.to_text() == '410 - Gone\n\nd\n\nError type: one'
    exc = errors.Gone('d')
    exc.error_type = ('one', 'two')
    try:
        exc.to_text()
    except TypeError:
        pass
    else:
        raise AssertionError('expected TypeError')
    # non-string details cannot be joined -> TypeError out of the constructor
    for bad in ({'a': 1}, 7, [1]):
        try:
            errors.Gone(bad)
        except TypeError:
            pass
        else:
            raise AssertionError('expected TypeError for %r' % (bad,))
    # the instance attributes are left alone by to_text
    exc = errors.Gone('d', error_type='t')
    before = dict(exc.to_dict())
    exc.to_text()
    assert exc.to_dict() == before
    # MethodNotAllowed composes its detail
    exc = errors.MethodNotAllowed(['POST', 'GET'])
    assert exc.to_text() == ("405 - Method not allowed\n\nThe method used is not allowed"
                             " for the requested URL. Allowed methods: ['GET', 'POST']")
    assert exc.headers['Allow'] == 'GET, POST'


def _make_raiser(factory):
    def raiser():
        raise factory()
    return raiser


ACCEPT_TEXT = [None, '', 'text/plain', 'image/png', 'text/plain;q=0.9, image/png',
               'application/pdf, text/plain;q=0.1', 'text/*;q=0, text/plain',
               'garbage', ';;;', 'text/plain; charset=utf-8']
ACCEPT_OTHER = {'text/html': 'text/html', 'application/json': 'application/json',
                'application/xml': 'application/xml',
                'application/json;q=0.9, text/plain;q=0.5': 'application/json',
                'text/plain;q=0.5, application/xml;q=0.6': 'application/xml'}


def check_negotiation(debug):
    detail = '<b>"d" & {detail}</b>'
    routes = [GET('/teapot', _make_raiser(lambda: errors.ImATeapot(detail, error_type='<t>')),
               render_basic),
              ('/boom', _make_raiser(lambda: ValueError('<boom> & {x}')), render_basic)]
    app = Application(routes, debug=debug)
    cl = app.get_local_client()
    for accept in ACCEPT_TEXT:
        headers = {} if accept is None else {'Accept': accept}
        resp = cl.get('/teapot', headers=headers)
        assert resp.status_code == 418
        if accept in (None, ''):
            # no preference: whatever is chosen must agree with the body
            _check_agrees(resp)
            continue
        assert resp.headers['Content-Type'] == 'text/plain; charset=utf-8', (accept, resp.headers)
        assert resp.get_data(True) == expected_text(418, errors.ImATeapot.message, detail, '<t>')
        resp = cl.get('/boom', headers=headers)
        assert resp.status_code == 500
        assert resp.headers['Content-Type'] == 'text/plain; charset=utf-8'
        body = resp.get_data(True)
        assert body.startswith('500 - Internal server error\n\n'), body
        assert '<boom> & {x}' in body
        assert body.endswith('\n\nError type: http://docs.python.org/3/library/'
                             'exceptions.html#exceptions.ValueError'), body
        resp = cl.get('/<nf>&"x"', headers=headers)
        assert resp.status_code == 404
        assert resp.headers['Content-Type'] == 'text/plain; charset=utf-8'
        assert resp.get_data(True) == expected_text(404, 'Not found', errors.NotFound.detail, None)
        resp = cl.post('/teapot', headers=headers)
        assert resp.status_code == 405 and resp.headers['Allow'] == 'GET, HEAD'
        assert resp.get_data(True).startswith('405 - Method not allowed\n\n')
    for accept, ctype in ACCEPT_OTHER.items():
        for path, code in (('/teapot', 418), ('/boom', 500), ('/nf', 404)):
            resp = cl.get(path, headers={'Accept': accept})
            assert resp.status_code == code
            assert resp.mimetype == ctype, (accept, resp.mimetype)
            _check_agrees(resp)


def _check_agrees(resp):
    body = resp.get_data(True)
    mt = resp.mimetype
    assert mt in ('text/html', 'application/json', 'application/xml', 'text/plain'), mt
    if mt == 'application/json':
        data = json.loads(body)
        for key in ('code', 'message', 'detail', 'error_type'):
            assert key in data
        assert data['code'] == resp.status_code
    elif mt == 'application/xml':
        assert body.startswith('<http_error><code>%d</code>' % resp.status_code), body
    elif mt == 'text/html':
        assert body.lstrip().lower().startswith('<!doctype html>'), body[:40]
    else:
        assert body.startswith('%d - ' % resp.status_code), body


def main():
    check_class_defaults()
    check_overrides()
    check_negotiation(debug=False)
    check_negotiation(debug=True)
    print('PASS')
    return 0


if __name__ == '__main__':
    sys.exit(main())
