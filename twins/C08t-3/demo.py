# -*- coding: utf-8 -*-
"""demo3: every request gets a response (focus: BoundRoute.execute and
BoundRoute.execute_error in clastic/route.py -- what gets injected into
endpoints and error renderers, in which order and with which precedence,
and the fallback when the error renderer cannot be used).
"""
from werkzeug.test import EnvironBuilder
from werkzeug.wrappers import Response

from clastic import Application, Route, SubApplication, render_basic
from clastic.application import DispatchState
from clastic.errors import (ErrorHandler, ContextualErrorHandler, Forbidden,
                            NotFound, BadGateway, InternalServerError,
                            HTTPException)


def make_env(path='/', method='GET', accept=None):
    headers = {}
    if accept is not None:
        headers['Accept'] = accept
    return EnvironBuilder(path=path, method=method, headers=headers).get_environ()


def call(app, path='/', method='GET', accept=None):
    started = []

    def start_response(status, hdrs, exc_info=None):
        started.append((status, hdrs))

    body = b''.join(app(make_env(path, method, accept), start_response))
    assert len(started) == 1
    status, hdrs = started[0]
    return int(status[:3]), dict((k.lower(), v) for k, v in hdrs), body


def boom(x=None, y=None):
    raise ValueError('boom')


def forbidden():
    raise Forbidden('keep out')


SEEN = []


class KwargsHandler(ErrorHandler):
    def render_error(self, **kwargs):
        SEEN.append(kwargs)
        return super(KwargsHandler, self).render_error(kwargs['request'],
                                                       kwargs['_error'])


def test_error_renderer_kwargs():
    app = Application([('/a/<x>/<y:int>', boom), ('/f', forbidden),
                       ('/r', lambda: BadGateway('returned'))],
                      resources={'r1': 1, 'r2': [2]},
                      error_handler=KwargsHandler())
    builtin_order = ['_route', '_error', 'request', '_application',
                     'r1', 'r2', '_dispatch_state']
    for path, code, extra, idx in (('/a/b/3', 500, ['x', 'y'], 0),
                                   ('/f', 403, [], 1),
                                   ('/r', 502, [], 2),
                                   ('/zzz', 404, ['_ignored'], None)):
        del SEEN[:]
        status, hdrs, body = call(app, path)
        assert status == code, (path, status)
        assert len(SEEN) == 1
        kw = SEEN[0]
        assert list(kw) == builtin_order + extra, list(kw)
        err = kw['_error']
        assert isinstance(err, HTTPException) and err.code == code
        want_route = app._null_route if idx is None else app.routes[idx]
        assert kw['_route'] is want_route and err.source_route is want_route
        assert kw['_application'] is app
        assert kw['request'].path == path
        assert type(kw['_dispatch_state']) is DispatchState
        assert kw['r1'] == 1 and kw['r2'] is app.resources['r2']  # aliased, not copied
        if path == '/a/b/3':
            assert (kw['x'], kw['y']) == ('b', 3)
            assert type(err) is InternalServerError and 'ValueError' in err.detail
    # the bound routes' resources were not touched by all this
    for br in app.routes + [app._null_route]:
        assert br.resources == {'r1': 1, 'r2': [2]}, br.resources
        assert 'request' not in br.resources and '_error' not in br.resources


def test_error_renderer_signatures():
    got = []

    class Explicit(ErrorHandler):
        def render_error(self, _error, request, _route, _application,
                         _dispatch_state, r1, r2='default'):
            got.append((_error, request, _route, _application,
                        _dispatch_state, r1, r2))
            return Response('explicit %s' % _error.code, status=_error.code)

    class Minimal(ErrorHandler):
        def render_error(self, _error):
            got.append((_error,))
            _error.adapt('application/json')
            return _error

    class WithDefault(ErrorHandler):
        def render_error(self, _error, r1=None, **kw):
            got.append((_error, r1, sorted(kw)))
            return _error

    app = Application([('/boom', boom), ('/f', forbidden)],
                      resources={'r1': 'one', 'r2': 0}, error_handler=Explicit())
    for path, code in (('/boom', 500), ('/f', 403), ('/nope', 404)):
        del got[:]
        status, hdrs, body = call(app, path)
        assert (status, body) == (code, ('explicit %d' % code).encode()), (status, body)
        (_error, request, _route, _application, _ds, r1, r2), = got
        assert _error.code == code and _route is _error.source_route
        assert _application is app and r1 == 'one'
        assert r2 == 0  # falsy resource still beats the signature default
        assert request.path == path

    app = Application([('/boom', boom), ('/f', forbidden)], error_handler=Minimal())
    for path, code in (('/boom', 500), ('/f', 403), ('/nope', 404)):
        status, hdrs, body = call(app, path, accept='text/html')
        assert status == code and hdrs['content-type'].startswith('application/json')

    app = Application([('/boom', boom)], resources={'r1': 'x'},
                      error_handler=WithDefault())
    del got[:]
    assert call(app, '/boom')[0] == 500
    assert got[0][1] == 'x'
    assert got[0][2] == ['_application', '_dispatch_state', '_route', 'request'], got[0][2]
    # direct call on a route that lost the resource: the signature default is used
    br = app.routes[0]
    del br.resources['r1']
    err = Forbidden()
    assert br.execute_error(app.request_type(make_env('/boom')), err) is err
    assert got[-1][0] is err and got[-1][1] is None
    assert got[-1][2] == ['_application', '_route', 'request'], got[-1][2]


def test_route_level_settings():
    def route_render_error(_error, request, r3, r1):
        return Response('route-level %s %s %s' % (_error.code, r3, r1),
                        status=_error.code)

    def ep(r1, r3, _route):
        if r3 == 'route-only' and _route.resources['r1'] == 'route':
            raise Forbidden('r1=%s' % r1)
        return Response('unexpected')

    route = Route('/x', ep, render_error=route_render_error,
                  resources={'r1': 'route', 'r3': 'route-only'})
    app = Application([], resources={'r1': 'app'})
    app.add(route, rebind_render_error=False)
    app.add(Route('/y', ep, resources={'r1': 'route', 'r3': 'route-only'}))
    status, hdrs, body = call(app, '/x')
    # dispatch passes the application's resources explicitly, so they win
    assert (status, body) == (403, b'route-level 403 route-only app'), (status, body)
    status, hdrs, body = call(app, '/y', accept='text/plain')
    assert status == 403 and b'r1=app' in body, (status, body)
    assert app.routes[0].resources == {'r1': 'route', 'r3': 'route-only'}
    assert app.resources == {'r1': 'app'}


def test_direct_execute():
    seen = []

    def ep(request, _route, _application, r1, x, _dispatch_state):
        seen.append((request, _route, _application, r1, x, _dispatch_state))
        return Response('direct')

    inner = Application([('/e/<x>', ep)], resources={'r1': 'inner'})
    outer = Application([SubApplication('/sub', inner)], resources={'r1': 'outer'})
    br = outer.routes[0]
    assert br.bound_apps == [inner, outer]
    request = outer.request_type(make_env('/sub/e/1'))

    resp = br.execute(request, x='X', _dispatch_state='no state')
    assert resp.status_code == 200 and resp.get_data() == b'direct'
    req, rt, application, r1, x, ds = seen.pop()
    assert req is request and rt is br and application is outer
    # the embedded route carries the inner application's resources; only
    # dispatch (which passes the outer ones explicitly) overrides them
    assert r1 == 'inner' and x == 'X' and ds == 'no state', (r1, x, ds)
    assert br.resources == {'r1': 'inner'}

    # explicit keyword arguments beat both builtins and resources
    caller_kwargs = {'x': 0, '_route': 'R', '_application': None, 'r1': '',
                     '_dispatch_state': 'DS', 'unused': object()}
    snapshot = dict(caller_kwargs)
    resp = br.execute(request=request, **caller_kwargs)
    req, rt, application, r1, x, ds = seen.pop()
    assert (rt, application, r1, x, ds) == ('R', None, '', 0, 'DS')
    assert caller_kwargs == snapshot and br.resources == {'r1': 'inner'}
    assert call(outer, '/sub/e/7')[::2] == (200, b'direct')
    assert seen.pop()[3:5] == ('outer', '7')

    # a missing required argument is a TypeError from the call itself
    try:
        br.execute(request)
    except TypeError:
        pass
    else:
        raise AssertionError('expected TypeError')
    try:
        br.execute(x=1)
    except TypeError:
        pass
    else:
        raise AssertionError('expected TypeError (request is required)')


def test_direct_execute_error():
    got = []

    class Handler(ErrorHandler):
        def render_error(self, **kwargs):
            got.append(kwargs)
            return kwargs['_error']

    inner = Application([('/e', boom)], resources={'r1': 'inner', 'r9': 9})
    outer = Application([SubApplication('/sub', inner)], resources={'r1': 'outer'},
                        error_handler=Handler())
    br = outer.routes[0]
    request = outer.request_type(make_env('/sub/e'))
    err = Forbidden('direct')

    assert br.execute_error(request, err) is err
    kw = got.pop()
    assert list(kw) == ['_route', '_error', 'request', '_application', 'r1', 'r9'], list(kw)
    assert kw['_route'] is br and kw['_application'] is outer
    assert kw['r1'] == 'inner' and kw['r9'] == 9

    assert br.execute_error(_error=err, request=request, zeta=1, r1=None,
                            _route='R', alpha=2) is err
    kw = got.pop()
    assert list(kw) == ['_route', '_error', 'request', '_application', 'r1', 'r9',
                        'zeta', 'alpha'], list(kw)
    assert kw['_route'] == 'R' and kw['r1'] is None and kw['_error'] is err
    assert br.resources == {'r1': 'inner', 'r9': 9}

    for args, kwargs in (((), {}), ((request,), {}), ((), {'_error': err})):
        try:
            br.execute_error(*args, **kwargs)
        except TypeError:
            pass
        else:
            raise AssertionError('expected TypeError')

    # non-callable render_error: TypeError, checked before anything else
    for bad in (None, 'a string', 0, False):
        br.render_error = bad
        saved, br.bound_apps = br.bound_apps, []
        try:
            br.execute_error(request, err)
        except TypeError as e:
            assert str(e) == 'render_error not set or not callable'
        else:
            raise AssertionError('expected TypeError')
        finally:
            br.bound_apps = saved
        # through the application this means: default rendering of the same error
        for accept, ct in (('text/html', 'text/html'), ('application/json', 'application/json'),
                           (None, 'text/plain')):
            status, hdrs, body = call(outer, '/sub/e', accept=accept)
            assert status == 500 and b'ValueError' in body
            assert hdrs['content-type'].startswith(ct)
    assert not got

    # callable render_error but no bound application: IndexError
    br.render_error = lambda _error: _error
    saved, br.bound_apps = br.bound_apps, []
    try:
        br.execute_error(request, err)
    except IndexError:
        pass
    else:
        raise AssertionError('expected IndexError')
    finally:
        br.bound_apps = saved
    assert br.execute_error(request, err) is err


def test_every_request_gets_a_response():
    class Broken(ErrorHandler):
        def render_error(self, **kwargs):
            raise RuntimeError('renderer broke')

    routes = [('/ok', lambda: Response('ok')),
              ('/ctx', lambda: {'a': 1}, render_basic),
              ('/none', lambda: None), ('/str', lambda: 'text'),
              ('/boom', boom), ('/f', forbidden),
              ('/rf', lambda: Forbidden('returned')),
              ('/nb', lambda: NotFound('nb', is_breaking=False))]
    for eh in (None, ErrorHandler(), ContextualErrorHandler(), Broken(), KwargsHandler()):
        app = Application(routes, resources={'r1': 1, 'r2': 2}, error_handler=eh)
        for _ in range(2):
            for accept in (None, 'text/html', 'application/json', 'application/xml', 'a/b'):
                assert call(app, '/ok', accept=accept)[::2] == (200, b'ok')
                assert call(app, '/ctx', accept=accept)[0] == 200
                for path in ('/none', '/str', '/boom'):
                    status, hdrs, body = call(app, path, accept=accept)
                    assert status == 500 and body and 'content-type' in hdrs
                for path in ('/f', '/rf'):
                    assert call(app, path, accept=accept)[0] == 403
                status, hdrs, body = call(app, '/nb', accept='text/plain')
                assert status == 404 and b'nb' in body
                assert call(app, '/nope', accept=accept)[0] == 404
                assert call(app, '/ok', method='DELETE', accept=accept)[0] == 200
    app = Application(routes, error_handler=ErrorHandler(reraise_uncaught=True))
    for path, exc_type in (('/boom', ValueError), ('/none', TypeError)):
        try:
            call(app, path)
        except exc_type:
            pass
        else:
            raise AssertionError('expected escape')
        assert call(app, '/f')[0] == 403
        assert call(app, '/ok')[0] == 200


def main():
    test_error_renderer_kwargs()
    test_error_renderer_signatures()
    test_route_level_settings()
    test_direct_execute()
    test_direct_execute_error()
    test_every_request_gets_a_response()
    print('PASS')


if __name__ == '__main__':
    main()
