# -*- coding: utf-8 -*-
"""demo1: the StatsMiddleware never changes what the client receives, and
records one Hit (same six fields, same bucket) per request."""
import json
import os
import re
import sys
import time
import warnings

warnings.simplefilter('ignore')
sys.path.insert(0, os.path.dirname(os.path.abspath(__file__)))

from clastic import Application, render_basic, redirect, Response, GET, POST
from clastic.errors import NotFound, Forbidden, BadRequest, ServiceUnavailable
from clastic.middleware import GzipMiddleware
from clastic.middleware.stats import (StatsMiddleware, Hit, RouteStatReservoir,
                                      create_stats_app)

# ---- the scenario application: every kind of response -------------------

def ep_resp():
    return Response('plain response body', mimetype='text/plain')

def ep_ctx():
    return {'a': 1, 'b': [1, 2, 3]}

def ep_redirect():
    return redirect('/resp')

def ep_raise_403():
    raise Forbidden('no entry')

def ep_return_404():
    return NotFound('returned, not raised')

def ep_nonbreaking():
    raise BadRequest('try the next one', is_breaking=False)

def ep_503():
    raise ServiceUnavailable()

def ep_boom():
    raise ValueError('uncaught \udcff <b>boom</b>')

def ep_binary():
    return Response(bytes(bytearray(range(256))) * 4,
                    mimetype='application/octet-stream')

def ep_empty():
    return Response(b'', mimetype='text/plain')


def make_routes(extra=()):
    return [('/resp', ep_resp),
            ('/ctx', ep_ctx, render_basic),
            ('/redir', ep_redirect),
            ('/403', ep_raise_403),
            ('/404', ep_return_404),
            ('/nb', ep_nonbreaking),
            ('/503', ep_503),
            ('/boom', ep_boom),
            ('/bin', ep_binary),
            ('/empty', ep_empty),
            GET('/getonly', ep_resp),
            POST('/postonly', ep_resp)] + list(extra)


REQUESTS = [('GET', '/resp'), ('HEAD', '/resp'), ('GET', '/ctx'),
            ('GET', '/ctx?format=json'), ('GET', '/redir'), ('GET', '/403'),
            ('GET', '/404'), ('GET', '/nb'), ('GET', '/503'), ('GET', '/boom'),
            ('GET', '/bin'), ('GET', '/empty'), ('GET', '/unknown/url'),
            ('POST', '/getonly'), ('GET', '/postonly'), ('POST', '/postonly'),
            ('GET', '/resp?a=1&n=5&n=6&bad=xyz'), ('GET', '/403?a=1&n=notint')]
ACCEPTS = [None, 'text/html', 'application/json', 'application/xml', 'text/plain']


def normalize(resp):
    """The body of an uncaught-exception 500 describes the call stack (which
    legitimately contains the middleware frames): blank that part out."""
    body = resp.get_data()
    if resp.status_code != 500:
        return body
    body = re.sub(br'\(\d+ frames', b'(N frames', body)
    if resp.headers.get('Content-Type') == 'application/json':
        parsed = json.loads(body.decode('utf8'))
        assert parsed['exc_info'].pop('exc_tb')['frames']
        body = json.dumps(parsed, sort_keys=True).encode('utf8')
    return body


def observe(app):
    cl = app.get_local_client()
    out = []
    for method, url in REQUESTS:
        for accept in ACCEPTS:
            headers = {'Accept': accept} if accept else {}
            data = {'a': 'x', 'n': '7'} if method == 'POST' else None
            resp = cl.open(url, method=method, headers=headers, data=data)
            body = normalize(resp)
            out.append((method, url, accept, resp.status_code, body,
                        resp.headers.get('Content-Type'),
                        resp.headers.get('Location'), resp.headers.get('Allow')))
    return out


baseline = observe(Application(make_routes()))
assert {r[3] for r in baseline} >= {200, 302, 403, 404, 405, 400, 500, 503}

# ---- status and body are the same with the middleware ------------------------

stats_mw = StatsMiddleware()
before = time.time()
got = observe(Application(make_routes(), middlewares=[stats_mw]))
after = time.time()
assert got == baseline, [(g, b) for g, b in zip(got, baseline) if g != b][:2]

# also in a stack, on either side of gzip
for mws in ([StatsMiddleware(), GzipMiddleware()], [GzipMiddleware(), StatsMiddleware()]):
    assert observe(Application(make_routes(), middlewares=mws)) == baseline


# ---- what was recorded ------------------------------------------------------

assert Hit._fields == ('start_time', 'url', 'pattern', 'status_code',
                       'duration', 'content_type')
by_pattern = {}
for route, by_status in stats_mw.route_hits.items():
    for status, reservoir in by_status.items():
        assert type(reservoir) is RouteStatReservoir
        hits = reservoir.to_list()
        assert reservoir.total_count == len(hits) > 0
        for hit in hits:
            assert type(hit) is Hit
            assert hit.pattern == route.pattern
            assert hit.status_code == status and type(status) is str
            assert before <= hit.start_time <= after
            assert type(hit.duration) is float and 0 <= hit.duration < after - before + 1
            assert hit.start_time + hit.duration <= after + 1e-6
            assert ';' not in hit.content_type
        assert reservoir.last_hit == hits[-1].start_time
        assert abs(reservoir.total_duration - sum(h.duration for h in hits)) < 1e-9
        by_pattern.setdefault(route.pattern, {})[status] = \
            sorted(set((h.url, h.content_type) for h in hits))

n_acc = len(ACCEPTS)
expected = {
    '/resp': {'200': [('/resp', 'text/plain')]},
    '/ctx': {'200': [('/ctx', 'application/json'), ('/ctx', 'text/html')]},
    '/redir': {'302': [('/redir', 'text/html')]},
    # HTTPExceptions are BaseResponses: no content_type attribute, so no mime type
    '/403': {'403': [('/403', '')]},                 # raised: labelled from the exception
    '/404': {'404': [('/404', '')]},                 # returned
    '/nb': {'400': [('/nb', '')]},
    '/503': {'503': [('/503', '')]},
    '/boom': {"'ValueError'": [('/boom', '')]},      # uncaught: class name
    '/bin': {'200': [('/bin', 'application/octet-stream')]},
    '/empty': {'200': [('/empty', 'text/plain')]},
    '/postonly': {'200': [('/postonly', 'text/plain')]},
    # the null route: non-breaking error re-raised, unknown URL, wrong methods
    '/<_ignored*>': {'400': [('/nb', '')],
                     '404': [('/unknown/url', '')],
                     '405': [('/getonly', ''), ('/postonly', '')]},
}
assert by_pattern == expected, by_pattern
total = sum(res.total_count for by_status in stats_mw.route_hits.values()
            for res in by_status.values())
assert total >= len(REQUESTS) * n_acc   # non-breaking errors try further routes too


# ---- Hit is built field by field: a fake route/request shows the mapping ------

class FakeRoute(object):
    pattern = '/fake/<pattern>'

class FakeRequest(object):
    path = '/fake/path'

mw = StatsMiddleware()
resp_obj = Response('x', status=201, content_type='text/x-demo; charset=latin-1')
assert mw.request(lambda: resp_obj, FakeRequest(), FakeRoute) is resp_obj
(hit,) = mw.route_hits[FakeRoute]['201'].to_list()
assert hit[1:4] == ('/fake/path', '/fake/<pattern>', '201') and hit[5] == 'text/x-demo'
assert hit == Hit(hit.start_time, '/fake/path', '/fake/<pattern>', '201', hit.duration, 'text/x-demo')

def raiser():
    raise Forbidden('nope')
try:
    mw.request(raiser, FakeRequest(), FakeRoute)
except Forbidden as exc:
    assert exc.code == 403
else:
    raise AssertionError('exception swallowed')
(hit,) = mw.route_hits[FakeRoute]['403'].to_list()
assert (hit.url, hit.pattern, hit.status_code, hit.content_type) == \
    ('/fake/path', '/fake/<pattern>', '403', '')

# a non-response return value is labelled by its class name
assert mw.request(lambda: None, FakeRequest(), FakeRoute) is None
(hit,) = mw.route_hits[FakeRoute]["'NoneType'"].to_list()
assert hit.content_type == ''

# a BaseException that is not an Exception leaves the labels unset: the
# finally block fails with UnboundLocalError (unchanged quirk), nothing recorded
def interrupt():
    raise KeyboardInterrupt()
try:
    mw.request(interrupt, FakeRequest(), FakeRoute)
except UnboundLocalError as ule:
    assert isinstance(ule.__context__, KeyboardInterrupt)
else:
    raise AssertionError('expected UnboundLocalError')
assert sorted(mw.route_hits[FakeRoute]) == ["'NoneType'", '201', '403']


# ---- the stats application reads the recorded hits ---------------------------

app = Application([('/', ep_resp), ('/403', ep_raise_403), ('/_stats', create_stats_app())],
                  middlewares=[StatsMiddleware()])
cl = app.get_local_client()
for _ in range(3):
    assert cl.get('/').status_code == 200
    assert cl.get('/403').status_code == 403
stats = json.loads(cl.get('/_stats/?format=json').get_data(True))
assert stats['route_stats']['/']['200']['count'] == 3
assert stats['route_stats']['/403']['403']['count'] == 3
assert stats['route_stats']['/']['200']['total_duration'] >= 0
assert cl.post('/_stats/reset').status_code == 200

print('PASS')
