# -*- coding: utf-8 -*-
"""demo2: make_middleware_chain (clastic/middleware/core.py).

Exercises: 'next' forbidden in endpoint/render, 'context' available only in
the render phase, unresolved-argument errors per phase, what 'preprovided'
contributes, phase ordering of the checks, and that valid stacks still run.
"""
import warnings
warnings.simplefilter('ignore')

from clastic import Application, Route, Response
from clastic.middleware import Middleware
from clastic.middleware.core import make_middleware_chain
from clastic.route import RESERVED_ARGS


def raises(exc_type, func, *a, **kw):
    try:
        func(*a, **kw)
    except Exception as e:
        assert type(e) is exc_type, 'expected %r, got %r' % (exc_type, e)
        return str(e)
    raise AssertionError('expected %r, nothing raised' % (exc_type,))


NEXT_MSG = "argument 'next' reserved for middleware use only (%r)"
PROVIDED = set(RESERVED_ARGS) | set(['item', 'res'])


def make_mw(name, provides=(), endpoint_provides=(), render_provides=(),
            request=None, endpoint=None, render=None):
    attrs = {'provides': provides,
             'endpoint_provides': endpoint_provides,
             'render_provides': render_provides}
    if request is not None:
        attrs['request'] = request
    if endpoint is not None:
        attrs['endpoint'] = endpoint
    if render is not None:
        attrs['render'] = render
    return type(name, (Middleware,), attrs)()


def ep_plain():
    return 'ctx'


def ep_item(item, res):
    return (item, res)


def ep_next(next):
    return next()


def ep_next_default(item, next=None):
    return item


def ep_context(context):
    return context


def ep_context_default(context=None):
    return context


def ep_unknown(nope):
    return nope


def rn_plain(context):
    return ('rendered', context)


def rn_nocontext():
    return 'static'


def rn_next(context, next):
    return context


def rn_next_default(context, next=3):
    return context


def rn_unknown(context, nope):
    return context


class CallableEndpoint(object):
    def __call__(self, next):
        return None


# --- 1. 'next' is reserved for middlewares -----------------------------------

for bad_ep in (ep_next, ep_next_default, CallableEndpoint()):
    msg = raises(NameError, make_middleware_chain, [], bad_ep, rn_plain, PROVIDED)
    assert msg == NEXT_MSG % (bad_ep,), msg
    raises(NameError, Application, [('/<item>', bad_ep, rn_plain)])
    raises(NameError, Route('/<item>', bad_ep, rn_plain).bind, Application())
    raises(NameError, Application().add, ('/<item>', bad_ep, rn_plain))

for bad_rn in (rn_next, rn_next_default):
    msg = raises(NameError, make_middleware_chain, [], ep_plain, bad_rn, PROVIDED)
    assert msg == NEXT_MSG % (bad_rn,), msg
    raises(NameError, Application, [('/', ep_plain, bad_rn)])

# endpoint is reported before render when both are wrong
msg = raises(NameError, make_middleware_chain, [], ep_next, rn_next, PROVIDED)
assert msg == NEXT_MSG % (ep_next,), msg
# and 'next' misuse is reported before any unresolved argument
msg = raises(NameError, make_middleware_chain, [], ep_unknown, rn_next, PROVIDED)
assert msg == NEXT_MSG % (rn_next,), msg
# even if the caller claims to pre-provide next
msg = raises(NameError, make_middleware_chain, [], ep_next, rn_plain, ['next'])
assert msg == NEXT_MSG % (ep_next,), msg


# --- 2. 'context' only exists in the render phase ----------------------------

msg = raises(NameError, make_middleware_chain, [], ep_context, rn_plain, PROVIDED)
assert msg == "unresolved endpoint middleware arguments: ['context']", msg
raises(NameError, Application, [('/', ep_context, rn_plain)])
# preproviding context explicitly does not help outside render
msg = raises(NameError, make_middleware_chain, [], ep_context, rn_plain,
             ['context', 'next'])
assert msg == "unresolved endpoint middleware arguments: ['context']", msg


def req_wants_context(self, next, context):
    return next()


def epmw_wants_context(self, next, context):
    return next()


def rnmw_wants_context(self, next, context):
    return next()


mw_req_ctx = make_mw('ReqCtx', request=req_wants_context)
msg = raises(NameError, make_middleware_chain, [mw_req_ctx], ep_plain, rn_plain, PROVIDED)
assert msg == "unresolved request middleware arguments: ['context']", msg
raises(NameError, Application, [('/', ep_plain, rn_plain)], middlewares=[mw_req_ctx])

mw_ep_ctx = make_mw('EpCtx', endpoint=epmw_wants_context)
msg = raises(NameError, make_middleware_chain, [mw_ep_ctx], ep_plain, rn_plain, PROVIDED)
assert msg == "unresolved endpoint middleware arguments: ['context']", msg
raises(NameError, Application, [('/', ep_plain, rn_plain)], middlewares=[mw_ep_ctx])
raises(NameError, Application,
       [Route('/', ep_plain, rn_plain, middlewares=[mw_ep_ctx])])

mw_rn_ctx = make_mw('RnCtx', render=rnmw_wants_context)
chain = make_middleware_chain([mw_rn_ctx], ep_plain, rn_plain, PROVIDED)
assert chain() == ('rendered', 'ctx')
Application([('/', ep_plain, rn_plain)], middlewares=[mw_rn_ctx])

# a defaulted 'context' in the endpoint is simply never supplied
chain = make_middleware_chain([], ep_context_default, rn_plain, PROVIDED)
assert chain() == ('rendered', None)

# a middleware may not smuggle context in through provides either: whatever
# the request phase provides becomes available to endpoint phase ...
mw_prov = make_mw('Prov', provides=('extra',),
                  request=lambda self, next: next(extra='E'))
chain = make_middleware_chain([mw_prov], lambda extra: extra, rn_plain, PROVIDED)
assert chain() == ('rendered', 'E')
# ... but endpoint_provides / render_provides are not visible to the request
# or endpoint function signature check of *earlier* phases
mw_eprov = make_mw('EProv', endpoint_provides=('late',),
                   endpoint=lambda self, next: next(late='L'))
msg = raises(NameError, make_middleware_chain,
             [mw_eprov, make_mw('WantsLate', request=lambda self, next, late: next())],
             ep_plain, rn_plain, PROVIDED)
assert msg == "unresolved request middleware arguments: ['late']", msg
chain = make_middleware_chain([mw_eprov], lambda late: late, rn_plain, PROVIDED)
assert chain() == ('rendered', 'L')
mw_rprov = make_mw('RProv', render_provides=('rlate',),
                   render=lambda self, next: next(rlate='RL'))
msg = raises(NameError, make_middleware_chain, [mw_rprov],
             lambda rlate: rlate, rn_plain, PROVIDED)
assert msg == "unresolved endpoint middleware arguments: ['rlate']", msg
chain = make_middleware_chain([mw_rprov], ep_plain,
                              lambda context, rlate: (context, rlate), PROVIDED)
assert chain() == ('ctx', 'RL')


# --- 3. unresolved arguments, per phase, in phase order ----------------------

msg = raises(NameError, make_middleware_chain, [], ep_unknown, rn_plain, PROVIDED)
assert msg == "unresolved endpoint middleware arguments: ['nope']", msg
msg = raises(NameError, make_middleware_chain, [], ep_plain, rn_unknown, PROVIDED)
assert msg == "unresolved render middleware arguments: ['nope']", msg
# endpoint phase is checked before render phase before request phase
msg = raises(NameError, make_middleware_chain, [mw_req_ctx], ep_unknown, rn_unknown, PROVIDED)
assert msg.startswith('unresolved endpoint'), msg
msg = raises(NameError, make_middleware_chain, [mw_req_ctx], ep_plain, rn_unknown, PROVIDED)
assert msg.startswith('unresolved render'), msg
# nothing preprovided at all
msg = raises(NameError, make_middleware_chain, [], ep_item, rn_plain, ())
assert msg.startswith('unresolved endpoint middleware arguments: ['), msg
assert sorted(eval(msg.split(': ', 1)[1])) == ['item', 'res'], msg
raises(NameError, Application, [('/', ep_item, rn_plain)])
raises(NameError, Application, [('/<item>', ep_item, rn_plain)])
Application([('/<item>', ep_item, rn_plain)], resources={'res': 1})

# middlewares whose phase function is unset/falsy are left out of that phase
mw_none = make_mw('NoFuncs', provides=('ghost',))
msg = raises(NameError, make_middleware_chain, [mw_none],
             lambda ghost: ghost, rn_plain, PROVIDED)
assert msg == "unresolved endpoint middleware arguments: ['ghost']", msg
chain = make_middleware_chain([mw_none], ep_plain, rn_nocontext, PROVIDED)
assert chain() == 'static'
chain = make_middleware_chain((), ep_plain, rn_plain, ())
assert chain() == ('rendered', 'ctx')


# --- 4. a full, valid stack runs in the right order --------------------------

calls = []


class Full(Middleware):
    provides = ('a',)
    endpoint_provides = ('b',)
    render_provides = ('c',)

    def request(self, next, item):
        calls.append(('request', item))
        return next(a=item + '-a')

    def endpoint(self, next, a):
        calls.append(('endpoint', a))
        return next(b=a + '-b')

    def render(self, next, context, a):
        calls.append(('render', context, a))
        return next(c=a + '-c')


def full_ep(a, b, res):
    calls.append(('ep', a, b, res))
    return {'v': b}


def full_rn(context, c, request):
    calls.append(('rn', context, c))
    return Response(c)


chain = make_middleware_chain([Full()], full_ep, full_rn, PROVIDED)
resp = chain(item='i', res='r', request=None)
assert resp.data == b'i-a-c', resp.data
assert calls == [('request', 'i'), ('endpoint', 'i-a'), ('ep', 'i-a', 'i-a-b', 'r'),
                 ('render', {'v': 'i-a-b'}, 'i-a'), ('rn', {'v': 'i-a-b'}, 'i-a-c')], calls

# endpoint_provides are not visible to the render phase
msg = raises(NameError, make_middleware_chain, [Full()], full_ep,
             lambda context, b: context, PROVIDED)
assert msg == "unresolved render middleware arguments: ['b']", msg

# a Response from the endpoint short-circuits render
chain = make_middleware_chain([Full()], lambda a: Response('direct'), full_rn, PROVIDED)
assert chain(item='i', request=None).data == b'direct'

app = Application([Route('/<item>', full_ep, full_rn, middlewares=[Full()])],
                  resources={'res': 'R'})
# the same middleware at application level cannot be satisfied by the
# catch-all null route (no 'item' binding there): rejected at construction
msg = raises(NameError, Application, [('/<item>', full_ep, full_rn)],
             resources={'res': 'R'}, middlewares=[Full()])
assert msg == "unresolved request middleware arguments: ['item']", msg
resp = app.get_local_client().get('/zz')
assert resp.status_code == 200 and resp.data == b'zz-a-c', resp.data

print('PASS')
