# -*- coding: utf-8 -*-
"""demo2: concurrent requests on one Application do not interfere
(focus: DispatchState, NullRoute.handle_sentinel_condition,
default_render_error).  Prints PASS and exits 0."""

import json
import sys
import threading
import time

from clastic import Application, Middleware, Route, GET, POST
from clastic.errors import NotFound
from werkzeug.wrappers import Response

SEEN_IDS = []  # list.append is atomic


class TokenMW(Middleware):
    provides = ('token',)

    def request(self, next, request):
        SEEN_IDS.append((request.request_id, request.request_guid, request))
        return next(token=request.args.get('t', '-'))


class TagMW(Middleware):
    endpoint_provides = ('ep_tag',)

    def endpoint(self, next, request, token):
        time.sleep(0)  # invite a thread switch inside the chain
        return next(ep_tag='%s@%s' % (token, request.path))


def render_json(context):
    return Response(json.dumps(context, sort_keys=True),
                    mimetype='application/json')


def echo(request, name, num, token, ep_tag, salt, flavor='plain'):
    time.sleep(0)
    return {'name': name, 'num': num, 'token': token, 'ep_tag': ep_tag,
            'salt': salt, 'flavor': flavor, 'path': request.path,
            'path_params': sorted(request.path_params.items()),
            'q': request.args.get('t', '-')}


def post_only(request, token):
    return {'posted': request.get_data(as_text=True), 'token': token}


def boom(token):
    raise ValueError('boom for %s' % token)


def fall_first(x, token):
    time.sleep(0)
    raise NotFound(is_breaking=False)


def fall_second(x, token, _dispatch_state):
    return {'fell_to': x, 'token': token,
            'n_exc': len(_dispatch_state.exceptions)}


def branch(token):
    return {'branch': token}


def make_app():
    routes = [GET('/echo/<name>/<num:int>', echo, render_json),
              POST('/post', post_only, render_json),
              Route('/boom', boom, render_json),
              Route('/fall/<x>', fall_first, render_json),
              Route('/fall/<x>', fall_second, render_json),
              Route('/redir/', branch, render_json)]
    return Application(routes, resources={'salt': 0},
                       middlewares=[TokenMW(), TagMW()])


def request_specs():
    specs = []
    for i in range(6):
        specs.append(('GET', '/echo/n%d/%d?t=tok%d' % (i, i * 7 - 3, i), None))
    specs += [('POST', '/post?t=p', 'body-1'),
              ('POST', '/post?t=q', 'body-2'),
              ('GET', '/post?t=g', None),          # 405
              ('PUT', '/echo/a/1?t=h', None),      # 405
              ('GET', '/boom?t=b1', None),         # 500
              ('GET', '/boom?t=b2', None),
              ('GET', '/missing/%C3%A9?t=m', None),  # 404
              ('GET', '/echo/a/notint?t=m2', None),  # 404 (converter)
              ('GET', '/fall/one?t=f1', None),     # non-breaking fallthrough
              ('GET', '/fall/two?t=f2', None),
              ('GET', '/redir?t=r1', None),        # slash redirect
              ('GET', '/redir/?t=r2', None),
              ('GET', '/echo/zero/0?t=', None)]    # falsy num, empty token
    return specs


def perform(app, spec):
    method, url, body = spec
    client = app.get_local_client()
    resp = client.open(url, method=method, data=body)
    return (resp.status_code, resp.headers.get('Location'),
            resp.headers.get('Allow'), resp.get_data(as_text=True))


def check_concurrent(app, specs, expected, n_threads, rounds):
    for rnd in range(rounds):
        # rotate so that different requests meet each other
        batch = [specs[(rnd * 3 + k * 5) % len(specs)] for k in range(n_threads)]
        results = [None] * n_threads
        barrier = threading.Barrier(n_threads)

        def work(k):
            barrier.wait()
            try:
                results[k] = perform(app, batch[k])
            except Exception as e:  # pragma: no cover
                results[k] = ('EXC', repr(e))

        threads = [threading.Thread(target=work, args=(k,)) for k in range(n_threads)]
        for t in threads:
            t.start()
        for t in threads:
            t.join()
        for k in range(n_threads):
            assert results[k] == expected[batch[k]], (batch[k], results[k], expected[batch[k]])


def check_dispatch_state_unit():
    from clastic.application import DispatchState, default_render_error
    from clastic.errors import NotFound, MethodNotAllowed, BadRequest
    from clastic.route import NullRoute
    from werkzeug.test import EnvironBuilder
    from werkzeug.wrappers import Request

    ds, other = DispatchState(), DispatchState()
    assert ds.exceptions == [] and ds.attempted_routes == []
    assert ds.allowed_methods == set() and isinstance(ds.allowed_methods, set)
    assert sorted(vars(ds)) == ['allowed_methods', 'attempted_routes', 'exceptions']
    assert ds.exceptions is not other.exceptions
    assert ds.allowed_methods is not other.allowed_methods
    assert ds.attempted_routes is not other.attempted_routes
    assert repr(ds) == '<DispatchState exceptions=[] allowed_methods=set()>', repr(ds)

    # falsy method collections are ignored, any other iterable is merged
    for falsy in (None, set(), [], (), '', 0):
        assert ds.update_methods(falsy) is None
        assert ds.allowed_methods == set()
    assert ds.update_methods(set(['GET'])) is None
    ds.update_methods(['POST', 'GET'])
    ds.update_methods(('PUT',))
    ds.update_methods(frozenset(['HEAD']))
    ds.update_methods(m for m in ['PATCH'])
    assert ds.allowed_methods == set(['GET', 'POST', 'PUT', 'HEAD', 'PATCH'])
    assert other.allowed_methods == set()
    try:
        ds.update_methods(5)
    except TypeError:
        pass
    else:
        raise AssertionError('expected TypeError')
    src = set(['DELETE'])
    ds.update_methods(src)
    src.add('TRACE')  # copied, not aliased
    assert 'TRACE' not in ds.allowed_methods and 'DELETE' in ds.allowed_methods

    one = DispatchState()
    exc = ValueError('x')
    one.add_exception(exc)
    one.update_methods(['GET'])
    one.add_route('r')
    assert one.exceptions == [exc] and one.attempted_routes == ['r']
    assert repr(one) == "<DispatchState exceptions=[ValueError('x')] allowed_methods={'GET'}>", repr(one)

    class SubState(DispatchState):
        pass
    assert repr(SubState()) == '<SubState exceptions=[] allowed_methods=set()>'

    # the sentinel endpoint: last exception > 405 > 404
    app = Application([])
    req = Request(EnvironBuilder(path='/x').get_environ())
    sentinel = NullRoute().handle_sentinel_condition
    st = DispatchState()
    res = sentinel(req, app, None, st)
    assert isinstance(res, NotFound) and res.dispatch_state is st
    st.update_methods(['POST'])
    res = sentinel(req, app, None, st)
    assert isinstance(res, MethodNotAllowed) and res.allowed_methods == set(['POST'])
    first_exc, last_exc = BadRequest(is_breaking=False), NotFound(is_breaking=False)
    st.add_exception(first_exc)
    st.add_exception(last_exc)
    assert sentinel(req, app, None, st) is last_exc

    # the exact keyword arguments handed to the error types
    class RecHandler(object):
        @staticmethod
        def not_found_type(**kw):
            return ('nf', kw)

        @staticmethod
        def method_not_allowed_type(**kw):
            return ('mna', kw)

    class RecApp(object):
        error_handler = RecHandler()
    rec_app, st2 = RecApp(), DispatchState()
    assert sentinel(req, rec_app, 'route', st2) == \
        ('nf', {'dispatch_state': st2, 'request': req, 'application': rec_app})
    st2.update_methods(['GET', 'HEAD'])
    kind, kw = sentinel(req, rec_app, 'route', st2)
    assert kind == 'mna' and list(kw) == ['allowed_methods']
    assert kw['allowed_methods'] is st2.allowed_methods
    st2.add_exception(0)  # a single falsy "exception" still counts
    assert sentinel(req, rec_app, 'route', st2) == 0

    class NoHandlerApp(object):
        pass
    try:  # error_handler is looked up before anything else
        sentinel(req, NoHandlerApp(), None, st)
    except AttributeError:
        pass
    else:
        raise AssertionError('expected AttributeError')

    # default_render_error adapts and returns the very same error object
    for accept, marker in (('application/json', 'application/json'),
                           ('text/html', 'text/html'),
                           ('text/plain', 'text/plain'),
                           ('image/png', 'text/')):
        req = Request(EnvironBuilder(path='/x', headers={'Accept': accept}).get_environ())
        err = NotFound()
        assert default_render_error(req, err, extra=1, _route=None) is err
        assert marker in err.headers['Content-Type'], (accept, err.headers['Content-Type'])


def main():
    check_dispatch_state_unit()

    app = make_app()
    specs = request_specs()
    expected = {}
    for spec in specs:
        expected[spec] = perform(app, spec)
        assert perform(app, spec) == expected[spec], spec  # deterministic
    by_status = {}
    for spec, res in expected.items():
        by_status.setdefault(res[0], []).append(spec)
    assert set(by_status) >= {200, 404, 405, 500}, sorted(by_status)
    assert any(s in by_status for s in (301, 302, 307, 308)), sorted(by_status)
    body = json.loads(expected[('GET', '/echo/zero/0?t=', None)][3])
    assert body['num'] == 0 and body['token'] == '' and body['salt'] == 0
    assert body['ep_tag'] == '@/echo/zero/0' and body['flavor'] == 'plain'
    fell = json.loads(expected[('GET', '/fall/one?t=f1', None)][3])
    assert fell == {'fell_to': 'one', 'token': 'f1', 'n_exc': 1}, fell

    old = sys.getswitchinterval()
    sys.setswitchinterval(1e-6)
    try:
        for n_threads in (2, 3, 4):
            check_concurrent(app, specs, expected, n_threads, rounds=40)
    finally:
        sys.setswitchinterval(old)

    # a falling-through request passes TokenMW once per attempted route,
    # so count request objects (kept alive in SEEN_IDS), not MW calls
    by_request = {}
    for req_id, guid, req in SEEN_IDS:
        assert by_request.setdefault(id(req), (req_id, guid)) == (req_id, guid)
    ids = [i for i, _ in by_request.values()]
    guids = [g for _, g in by_request.values()]
    assert len(ids) > 100
    assert len(ids) == len(set(ids)), 'request ids must be unique'
    assert len(guids) == len(set(guids))
    assert all(isinstance(i, int) for i in ids)
    print('PASS')


if __name__ == '__main__':
    main()
