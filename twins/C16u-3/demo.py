#!/usr/bin/env python
# -*- coding: utf-8 -*-
"""demo3: signed cookies -- only intact, unexpired, server-signed data is ever
presented.  Emphasis of this demo: the expiry policy of
SignedCookieMiddleware.request (session / never / numeric, sliding stamp,
application override, forged stamps, no state carried between requests), plus
a model-based run through a real Application.

Prints PASS and exits 0 when every assertion holds.
"""
import sys
import json
import base64
import random
import warnings

warnings.filterwarnings('ignore')

from werkzeug.test import Client
from werkzeug.http import parse_cookie, dump_cookie, cookie_date

import secure_cookie.cookie as sc_mod
from secure_cookie.cookie import UnquoteError
import clastic.middleware.cookie as ck_mod
from clastic import Application, Response
from clastic.middleware.cookie import (SignedCookieMiddleware, JSONCookie,
                                       NEVER, SESSION, NOW)


# ---------------------------------------------------------------- fake clock
class Clock(object):
    def __init__(self, now):
        self.now = now

    def time(self):
        return self.now


CLOCK = Clock(1000000000.0)
ck_mod.time = CLOCK          # the module only ever calls time.time()
sc_mod.time = CLOCK.time     # "from time import time" in secure_cookie


# ------------------------------------------------------------------ endpoint
def _handle(request, cookie):
    seen = dict(cookie)
    op = request.args.get('op', 'read')
    if op == 'set':
        cookie[request.args['k']] = json.loads(request.args['v'])
    elif op == 'del':
        cookie.pop(request.args['k'], None)
    elif op == 'clear':
        cookie.clear()
    elif op == 'expire_now':
        cookie.set_expires()
    elif op == 'expire_at':
        cookie.set_expires(float(request.args['t']))
    return Response(json.dumps(seen, sort_keys=True),
                    mimetype='application/json')


def make_endpoint(arg_name):
    src = ('def endpoint(request, %s):\n    return _handle(request, %s)\n'
           % (arg_name, arg_name))
    ns = {'_handle': _handle}
    exec(src, ns)
    return ns['endpoint']


def make_app(arg_name='cookie', **mw_kwargs):
    mw = SignedCookieMiddleware(arg_name=arg_name, **mw_kwargs)
    app = Application([('/', make_endpoint(arg_name))], middlewares=[mw])
    return app, mw


# ------------------------------------------------------------------- browser
def parse_set_cookie(header):
    parts = header.split('; ')
    name, value = list(parse_cookie(parts[0]).items())[0]
    attrs = {}
    for p in parts[1:]:
        k, _, v = p.partition('=')
        attrs[k.lower()] = v
    return name, value, attrs


class Browser(object):
    """A hand-made cookie jar holding one cookie; nothing is hidden."""

    def __init__(self, app, cookie_name):
        self.client = Client(app, Response, use_cookies=False)
        self.cookie_name = cookie_name
        self.value = None      # decoded cookie value (text) or None
        self.raw = None        # if set: raw Cookie header sent verbatim

    def cookie_header(self):
        if self.raw is not None:
            return self.raw
        if self.value is None:
            return None
        dumped = dump_cookie(self.cookie_name, self.value, path=None)
        return dumped

    def get(self, **params):
        overrides = {}
        hdr = self.cookie_header()
        if hdr is not None:
            overrides['HTTP_COOKIE'] = hdr
        resp = self.client.get('/', query_string=params,
                               environ_overrides=overrides)
        issued = [parse_set_cookie(h)
                  for h in resp.headers.getlist('Set-Cookie')]
        return resp, issued


def decode_independently(value):
    """Decode a server cookie without clastic: returns (sig_bytes, dict)."""
    sig, _, payload = value.partition('?')
    out = {}
    for item in payload.split('&'):
        if not item:
            continue
        k, _, v = item.partition('=')
        from werkzeug.urls import url_unquote_plus
        out[url_unquote_plus(k)] = json.loads(base64.b64decode(v).decode('utf8'))
    return base64.b64decode(sig), out


# --------------------------------------------------------------------- model
class Model(object):
    def __init__(self):
        self.state = 'none'    # none | valid | garbage
        self.data = {}
        self.expires = None


def is_timed(expiry):
    return expiry != NEVER and expiry != SESSION


def step(browser, model, mw, op='read', **args):
    now = CLOCK.now
    if model.state == 'valid' and (model.expires is None
                                   or not now > model.expires):
        seen_exp = dict(model.data)
    else:
        seen_exp = {}
    resp, issued = browser.get(op=op, **args)
    assert resp.status_code == 200, (resp.status_code, browser.cookie_header())
    seen = json.loads(resp.data.decode('utf8'))
    assert seen == seen_exp, (seen, seen_exp, browser.cookie_header())

    new = dict(seen_exp)
    app_expires = None
    if op == 'set':
        new[args['k']] = json.loads(args['v'])
    elif op == 'del':
        new.pop(args['k'], None)
    elif op == 'clear':
        new = {}
    elif op == 'expire_now':
        app_expires = 123456
    elif op == 'expire_at':
        app_expires = float(args['t'])

    if app_expires is not None:
        raw_e = app_expires
    elif is_timed(mw.expiry):
        raw_e = now + mw.expiry
    else:
        raw_e = None

    must_issue = op in ('set', 'expire_now', 'expire_at') or is_timed(mw.expiry)
    issued = [i for i in issued if i[0] == mw.cookie_name]
    assert len(issued) <= 1
    if must_issue:
        assert issued, (op, args)
    if not issued:
        assert new == seen_exp and raw_e is None
        return seen
    name, value, attrs = issued[0]
    # Set-Cookie attributes
    if raw_e is not None:
        assert attrs.get('expires') == cookie_date(raw_e), (attrs, raw_e)
    else:
        assert 'expires' not in attrs, attrs
    assert 'max-age' not in attrs
    assert attrs.get('path') == mw.path
    if mw.domain:
        assert attrs.get('domain') == mw.domain
    else:
        assert 'domain' not in attrs
    assert ('secure' in attrs) == bool(mw.secure)
    assert ('httponly' in attrs) == bool(mw.http_only)
    # contents: exactly what the application stored (+ the _expires stamp)
    sig, payload = decode_independently(value)
    stored = dict(new)
    if raw_e is not None:
        stored['_expires'] = int(raw_e) if raw_e else raw_e
    assert payload == stored, (payload, stored)
    assert len(sig) == 20
    browser.value, browser.raw = value, None
    model.state, model.data = 'valid', new
    model.expires = stored.get('_expires')
    return seen


# ------------------------------------------------------------------ tampering
B64 = 'ABCDEFGHIJKLMNOPQRSTUVWXYZabcdefghijklmnopqrstuvwxyz0123456789+/'


def flip(ch):
    return B64[(B64.index(ch) + 7) % 64] if ch in B64 else 'A'


def tamper(kind, value, rng, other_value=None, mw=None):
    """Return a cookie value that the server did NOT produce."""
    sig, _, payload = value.partition('?')
    if kind == 'flip_sig':
        i = rng.randrange(0, 20)
        return sig[:i] + flip(sig[i]) + sig[i + 1:] + '?' + payload
    if kind == 'flip_payload':
        idx = [i for i, c in enumerate(payload) if c in B64]
        i = rng.choice(idx)
        return sig + '?' + payload[:i] + flip(payload[i]) + payload[i + 1:]
    if kind == 'truncate':
        return value[:-rng.randrange(1, max(2, len(payload)))]
    if kind == 'truncate_sig':
        return value[rng.randrange(1, 20):]
    if kind == 'extend':
        return value + rng.choice(['A', '&x=MQ==', '&', '=', '&admin=dHJ1ZQ=='])
    if kind == 'swap':
        osig, _, opayload = other_value.partition('?')
        return sig + '?' + opayload
    if kind == 'resign':
        _, data = decode_independently(value)
        data['admin'] = True
        forged = JSONCookie(data, b'not the server key').serialize()
        return forged.decode('ascii')
    if kind == 'random':
        return ''.join(chr(rng.randrange(33, 127)) for _ in range(rng.randrange(1, 60)))
    if kind == 'nonascii':
        return rng.choice([u'\xfc\xf1\xee?k\xe9y=dmFs', u'☃?☃=☃',
                           sig + u'?\xfc=' + payload.partition('=')[2],
                           sig + u'?\xff\xfe' + payload])
    if kind == 'bad_b64':
        return rng.choice(['!!!!?' + payload, '=?' + payload, 'A?' + payload,
                           sig[:-1] + '?' + payload, sig + '?a=!!!',
                           sig + '?a=A', '?', '??', '?=', '=', '&', '?a',
                           '?a=', '?=MQ==', sig + '?', sig + '?%ff=MQ=='])
    if kind == 'no_sep':
        return rng.choice([sig, payload, sig + payload, value.replace('?', ''),
                           value.replace('=', ''), value.replace('?', '&')])
    raise ValueError(kind)


KINDS = ['flip_sig', 'flip_payload', 'truncate', 'truncate_sig', 'extend',
         'swap', 'resign', 'random', 'nonascii', 'bad_b64', 'no_sep']

VALUES = [0, 1, -1, 1.5, 1e100, '', 'x', u'\xfcn\xefc\xf6de ☃', True, False,
          None, [], {}, [1, [2, [3, {'a': None}]]], {'k': {'k': [u'é', '']}},
          'a' * 300, '"quoted"', '?&=;, ', 12345678901234567890]
KEYS = ['name', 'a b', 'k=1', u'\xfc&?', 'x', '', '0', 'admin', u'☃']


def random_run(seed, n_steps, n_browsers=3, **mw_kwargs):
    rng = random.Random(seed)
    arg_name = mw_kwargs.pop('arg_name', 'cookie')
    app, mw = make_app(arg_name=arg_name, **mw_kwargs)
    browsers = [Browser(app, mw.cookie_name) for _ in range(n_browsers)]
    models = [Model() for _ in range(n_browsers)]
    n_tampered = 0
    for _ in range(n_steps):
        i = rng.randrange(n_browsers)
        b, m = browsers[i], models[i]
        r = rng.random()
        if r < 0.30:
            step(b, m, mw, 'set', k=rng.choice(KEYS),
                 v=json.dumps(rng.choice(VALUES)))
        elif r < 0.38:
            step(b, m, mw, 'del', k=rng.choice(KEYS))
        elif r < 0.42:
            step(b, m, mw, 'clear')
        elif r < 0.60:
            step(b, m, mw, 'read')
        elif r < 0.64:
            step(b, m, mw, 'expire_now')
        elif r < 0.70:
            step(b, m, mw, 'expire_at', t=repr(CLOCK.now + rng.choice([1, 3.5, 20, -5])))
        elif r < 0.80:
            CLOCK.now += rng.choice([0.25, 0.5, 1, 2, 7, 30])
        else:
            if b.value is None or m.state != 'valid' or not m.data:
                continue
            kind = rng.choice(KINDS)
            other = None
            if kind == 'swap':
                others = [x.value for x in browsers
                          if x.value and x.value.partition('?')[2] != b.value.partition('?')[2]]
                if not others:
                    continue
                other = rng.choice(others)
            forged = tamper(kind, b.value, rng, other, mw)
            assert forged != b.value
            b.value = forged
            m.state = 'garbage'
            n_tampered += 1
            # a tampered cookie: empty contents, normal response
            step(b, m, mw, 'read')
    return n_tampered


# ------------------------------------------- configuration-level checks
class StubRequest(object):
    def __init__(self, cookies):
        self.cookies = cookies


class StubResponse(object):
    def __init__(self):
        self.calls = []

    def set_cookie(self, *a, **kw):
        self.calls.append((a, kw))


def call_request(mw, cookies, action):
    """Drive mw.request() by hand; returns (seen, set_cookie calls)."""
    seen = {}
    resp = StubResponse()

    def next(**kw):
        assert list(kw) == [mw.arg_name], kw
        cookie = kw[mw.arg_name]
        assert type(cookie) is JSONCookie
        seen.update(cookie)
        action(cookie)
        return resp
    out = mw.request(next, StubRequest(cookies))
    assert out is resp
    return seen, resp.calls


def expiry_checks():
    key = b'k'
    T0 = 1000000000.0

    def noop(c):
        pass

    def put(c):
        c['a'] = 1

    def opts(mw, expires):
        return dict(expires=expires, max_age=None, path=mw.path,
                    domain=mw.domain, secure=mw.secure, httponly=mw.http_only)

    # ---- 1. numeric expiry slides with every response; boundary is strict
    CLOCK.now = T0
    app, mw = make_app(expiry=10, secret_key=key)
    b, m = Browser(app, mw.cookie_name), Model()
    assert step(b, m, mw, 'set', k='name', v='"Kurt"') == {}
    first_cookie = b.value
    assert m.expires == T0 + 10
    CLOCK.now = T0 + 5
    assert step(b, m, mw, 'read') == {'name': 'Kurt'}
    assert m.expires == T0 + 15 and b.value != first_cookie
    CLOCK.now = T0 + 15                       # exactly at the expiry: valid
    assert step(b, m, mw, 'read') == {'name': 'Kurt'}
    CLOCK.now = T0 + 25.5                     # past it: gone
    assert step(b, m, mw, 'read') == {}
    assert step(b, m, mw, 'read') == {}
    # replaying the first (long expired, but genuine) cookie gives nothing
    b.value, m.state, m.data, m.expires = first_cookie, 'valid', {'name': 'Kurt'}, T0 + 10
    assert step(b, m, mw, 'read') == {}
    # ... but replayed in time it is still genuine server data
    CLOCK.now = T0 + 9
    b.value, m.state, m.data, m.expires = first_cookie, 'valid', {'name': 'Kurt'}, T0 + 10
    assert step(b, m, mw, 'read') == {'name': 'Kurt'}

    # ---- 2. the application's own expiry overrides the configured one, once
    CLOCK.now = T0
    b, m = Browser(app, mw.cookie_name), Model()
    step(b, m, mw, 'set', k='n', v='[1, 2]')
    step(b, m, mw, 'expire_at', t=repr(T0 + 100))
    assert m.expires == T0 + 100
    CLOCK.now = T0 + 50
    assert step(b, m, mw, 'read') == {'n': [1, 2]}
    assert m.expires == T0 + 60               # back to the sliding default
    CLOCK.now = T0 + 61
    assert step(b, m, mw, 'read') == {}
    # expire "now": gone at once
    step(b, m, mw, 'set', k='n', v='3')
    assert step(b, m, mw, 'expire_now') == {'n': 3}
    assert m.expires == 123456
    assert step(b, m, mw, 'read') == {}

    # ---- 3. forging the expiry inside the cookie
    CLOCK.now = T0
    b, m = Browser(app, mw.cookie_name), Model()
    step(b, m, mw, 'set', k='n', v='"x"')
    sig, _, payload = b.value.partition('?')
    items = payload.split('&')
    assert len(items) == 2 and items[0].startswith('_expires=')
    later = base64.b64encode(json.dumps(T0 + 10 ** 6).encode('ascii')).decode('ascii')
    for forged in (sig + '?' + items[1],                       # stamp removed
                   sig + '?_expires=' + later + '&' + items[1],   # stamp extended
                   sig + '?' + items[1] + '&' + items[0],      # items reordered
                   sig + '?' + payload + '&' + items[0]):      # stamp doubled
        b2, m2 = Browser(app, mw.cookie_name), Model()
        b2.value, m2.state = forged, 'garbage'
        for now in (T0, T0 + 5, T0 + 11):
            CLOCK.now = now
            b2.value = forged
            assert step(b2, m2, mw, 'read') == {}
            m2.state = 'garbage'
    CLOCK.now = T0

    # ---- 4. SESSION and NEVER never stamp; data survives any clock advance
    for expiry in (SESSION, NEVER):
        CLOCK.now = T0
        app, mw = make_app(expiry=expiry, secret_key=key)
        b, m = Browser(app, mw.cookie_name), Model()
        step(b, m, mw, 'set', k='k', v='{"deep": [null, ""]}')
        assert m.expires is None
        CLOCK.now = T0 + 10 * 365 * 86400
        assert step(b, m, mw, 'read') == {'k': {'deep': [None, '']}}
        # an application expiry still works there, and is not re-stamped later
        step(b, m, mw, 'expire_at', t=repr(CLOCK.now + 3))
        CLOCK.now += 2
        assert step(b, m, mw, 'set', k='j', v='0') == {'k': {'deep': [None, '']}}
        assert m.expires is None
        CLOCK.now += 10 ** 6
        assert step(b, m, mw, 'read') == {'j': 0, 'k': {'deep': [None, '']}}
        step(b, m, mw, 'expire_at', t=repr(CLOCK.now + 3))
        CLOCK.now += 4
        assert step(b, m, mw, 'read') == {}

    # ---- 5. several clients, one middleware: no state leaks between
    #         requests (in particular not the 'expires' of a previous save)
    CLOCK.now = T0
    for kwargs in (dict(), dict(expiry=NEVER), dict(expiry=30)):
        mw = SignedCookieMiddleware(secret_key=key, **kwargs)
        timed = is_timed(mw.expiry)
        default = (T0 + 30) if timed else None
        seen, calls = call_request(mw, {}, lambda c: c.set_expires(T0 + 77))
        assert calls[0][1] == opts(mw, T0 + 77)
        seen, calls = call_request(mw, {}, put)
        assert calls[0][1] == opts(mw, default), calls
        seen, calls = call_request(mw, {}, lambda c: c.set_expires())
        assert calls[0][1] == opts(mw, 123456)
        seen, calls = call_request(mw, {}, put)
        assert calls[0][1] == opts(mw, default), calls
        data = calls[0][0][1].decode('ascii')
        seen, calls = call_request(mw, {mw.cookie_name: data}, noop)
        assert seen == {'a': 1}
        assert calls == ([] if not timed else calls) and len(calls) == int(timed)
        # reconfiguring the middleware between requests takes effect
        mw.path, mw.domain, mw.expiry = '/new', 'new.example', 5
        seen, calls = call_request(mw, {mw.cookie_name: data}, noop)
        assert seen == {'a': 1} and calls[0][1] == opts(mw, T0 + 5)
        assert calls[0][1]['path'] == '/new' and calls[0][1]['domain'] == 'new.example'
        mw.expiry = NEVER
        assert call_request(mw, {mw.cookie_name: data}, noop) == ({'a': 1}, [])

    # ---- 6. stamping happens after the endpoint ran, using the clock then
    mw = SignedCookieMiddleware(secret_key=key, expiry=10)

    def slow(c):
        c['a'] = 1
        CLOCK.now += 3
    CLOCK.now = T0
    seen, calls = call_request(mw, {}, slow)
    assert calls[0][1] == opts(mw, T0 + 13)
    CLOCK.now = T0

    # ---- 7. odd expiry settings
    for expiry in (0, 0.0, False):             # equal to SESSION
        mw = SignedCookieMiddleware(secret_key=key, expiry=expiry)
        assert call_request(mw, {}, noop) == ({}, [])
        assert call_request(mw, {}, put)[1][0][1] == opts(mw, None)
    for expiry in (True, 1, 0.25, -5, 2 ** 40, float('inf')):
        mw = SignedCookieMiddleware(secret_key=key, expiry=expiry)
        if expiry == float('inf'):
            try:
                call_request(mw, {}, noop)
            except OverflowError:               # int(inf) while serializing
                continue
            raise AssertionError('expected OverflowError')
        seen, calls = call_request(mw, {}, noop)
        assert calls[0][1] == opts(mw, T0 + expiry)
    mw = SignedCookieMiddleware(secret_key=key, expiry='soon')
    try:
        call_request(mw, {}, noop)
    except TypeError:
        pass
    else:
        raise AssertionError('expected TypeError')
    assert call_request(mw, {}, lambda c: c.set_expires(9))[1][0][1] == opts(mw, 9)
    nan = float('nan')
    mw = SignedCookieMiddleware(secret_key=key, expiry=nan)
    try:
        call_request(mw, {}, noop)
    except ValueError:                          # int(nan) while serializing
        pass
    else:
        raise AssertionError('expected ValueError')


def main():
    expiry_checks()
    total = 0
    total += random_run(21, 400, expiry=NEVER, secret_key='s3cret')
    total += random_run(22, 400, secret_key=b'bytes key')                # SESSION
    total += random_run(23, 400, expiry=10, secret_key='k')
    total += random_run(24, 300, expiry=0.5)                             # random key
    total += random_run(25, 300, expiry=3, arg_name='jar', cookie_name='my-jar',
                        domain='example.com', path='/', secure=True,
                        http_only=True, secret_key=u'k\xe9y')
    total += random_run(26, 200, arg_name='sess', expiry=SESSION)
    assert total > 150, total
    print('PASS')
    return 0


if __name__ == '__main__':
    sys.exit(main())
