# -*- coding: utf-8 -*-
"""demo3: every pair of name sources (url / resource / builtin / middleware provides of
each of the three phases) conflicts with NameError at construction; next must be the first
parameter of every middleware function (focus: the per-phase walks over a middleware in
clastic/middleware/core.py)."""
import itertools
import warnings
warnings.simplefilter('ignore')

from werkzeug.test import Client

from clastic import Application, Route, Response
from clastic.middleware import Middleware
from clastic.middleware.core import (check_middleware, check_middlewares,
                                     make_middleware_chain)
from clastic.route import RESERVED_ARGS

assert RESERVED_ARGS == ('request', '_application', '_route', '_dispatch_state',
                         'context', 'next')


def raises(exc_type, func, *a, **kw):
    try:
        func(*a, **kw)
    except Exception as e:
        assert type(e) is exc_type, 'expected %s, got %r' % (exc_type.__name__, e)
        return e
    raise AssertionError('expected %s, nothing raised' % exc_type.__name__)


def ep(request):
    return Response('ok')


def ep_ctx():
    return {}


def rn(context):
    return Response('rendered')


PHASES = ('request', 'endpoint', 'render')
PROVIDES_ATTR = {'request': 'provides', 'endpoint': 'endpoint_provides',
                 'render': 'render_provides'}
_counter = itertools.count()


def make_mw(phase, names):
    "a middleware type (fresh each time) offering *names* in *phase*"
    if phase == 'render':
        def func(self, next, context):
            return next(**dict.fromkeys(names, phase))
    else:
        def func(self, next):
            return next(**dict.fromkeys(names, phase))
    attrs = {phase: func, PROVIDES_ATTR[phase]: tuple(names)}
    return type('MW%s_%s' % (next(_counter), phase), (Middleware,), attrs)()


# --- middleware/middleware, across and within phases, both orders -----------------
for ph1, ph2 in itertools.product(PHASES, PHASES):
    mws = [make_mw(ph1, ['x', 'y']), make_mw(ph2, ['z', 'x'])]
    err = raises(NameError, Application, [Route('/', ep_ctx, rn)], middlewares=mws)
    assert 'conflicting provides' in str(err) and "'x'" in str(err)
    assert "'y'" not in str(err) and "'z'" not in str(err)
    raises(NameError, check_middlewares, mws)
    # app-level vs route-level
    raises(NameError, Application, [Route('/', ep_ctx, rn, middlewares=[mws[0]])],
           middlewares=[mws[1]])
    # disjoint names: fine
    ok = [make_mw(ph1, ['x', 'y']), make_mw(ph2, ['z', 'w'])]
    assert check_middlewares(ok) is True
    Application([Route('/', ep_ctx, rn)], middlewares=ok)

# one middleware offering the same name in two of its own phases, or twice in one
for ph1, ph2 in itertools.combinations(PHASES, 2):
    class TwoPhase(Middleware):
        def request(self, next):
            return next()

        def endpoint(self, next):
            return next()

        def render(self, next, context):
            return next()
    setattr(TwoPhase, PROVIDES_ATTR[ph1], ('dup',))
    setattr(TwoPhase, PROVIDES_ATTR[ph2], ('dup',))
    raises(NameError, Application, [Route('/', ep_ctx, rn)], middlewares=[TwoPhase()])
raises(NameError, check_middlewares, [make_mw('request', ['t', 't'])])

# --- middleware (each phase) vs url / resource / route resource / every builtin ----
for phase in PHASES:
    raises(NameError, Application, [Route('/<x>', ep_ctx, rn)], middlewares=[make_mw(phase, ['x'])])
    raises(NameError, Application, [Route('/', ep_ctx, rn)], {'x': 1}, middlewares=[make_mw(phase, ['x'])])
    raises(NameError, Application, [Route('/', ep_ctx, rn, resources={'x': 1})],
           middlewares=[make_mw(phase, ['x'])])
    raises(NameError, Application, [Route('/', ep_ctx, rn, resources={'x': 1}, middlewares=[make_mw(phase, ['x'])])])
    for reserved in RESERVED_ARGS:
        err = raises(NameError, Application, [Route('/', ep_ctx, rn)],
                     middlewares=[make_mw(phase, [reserved])])
        assert 'conflicting provides' in str(err) and 'builtins' in str(err)
        # but the application-level pre-check alone knows no builtins
        assert check_middlewares([make_mw(phase, [reserved])]) is True
    # explicit source map
    mw = make_mw(phase, ['x'])
    for src in ('url', 'resources', 'builtins'):
        err = raises(NameError, check_middlewares, [mw], {src: {'x'}, 'other': {'y'}})
        assert src in str(err) and 'other' not in str(err)
    assert check_middlewares([mw], {'url': {'y'}, 'resources': set()}) is True
    assert check_middlewares([mw], None) is True and check_middlewares([mw], {}) is True
# sources among themselves
raises(NameError, check_middlewares, [], {'url': {'x'}, 'resources': {'x'}})
assert check_middlewares([]) is True and check_middlewares(()) is True

# --- url / resource / builtin pairs ---------------------------------------------------
raises(NameError, Application, [Route('/<x>', ep)], {'x': 1})
raises(NameError, Application, [Route('/<x>', ep, resources={'x': 1})])
Application([Route('/', ep, resources={'x': 2})], {'x': 1})  # route resource overrides: same source
for reserved in RESERVED_ARGS:
    err = raises(NameError, Application, [Route('/', ep)], {reserved: 1})
    assert 'resource names conflict with builtins' in str(err)
    raises(NameError, Application, [Route('/', ep, resources={reserved: 1})])
    raises(NameError, Application, [Route('/<%s>' % reserved, ep)])
    raises(NameError, Application, [Route('/<%s*int>' % reserved, ep)])


# --- next must come first, in every phase; unset / non-callable hooks --------------
class Obj(object):
    pass


for phase in PHASES:
    def bad_order(self, request, next):
        return next()

    def no_next(self, request):
        return None

    def no_args():
        return None

    def next_kw(self, next=None):
        return next()
    for bad in (bad_order, no_next):
        mw = type('Bad', (Middleware,), {phase: bad})()
        err = raises(TypeError, check_middleware, mw)
        assert "'next' as the first parameter (Bad.%s)" % phase in str(err)
        raises(TypeError, Application, [Route('/', ep)], middlewares=[mw])
        raises(TypeError, Application, [Route('/', ep, middlewares=[mw])])
        raises(TypeError, Application, [], middlewares=[mw])
    mw = type('NonFunc', (Middleware,), {phase: 'a string'})()
    err = raises(TypeError, check_middleware, mw)
    assert 'expected NonFunc.%s to be a function' % phase in str(err)
    raises(TypeError, Application, [Route('/', ep)], middlewares=[mw])
    # zero-argument hook: IndexError from looking at the first argument (as ever)
    mw = type('ZeroArgs', (Middleware,), {phase: staticmethod(no_args)})()
    raises(IndexError, check_middleware, mw)
    # defaulted next in first position is accepted
    assert check_middleware(type('KW', (Middleware,), {phase: next_kw})()) is None
    # falsy hooks count as unset
    for falsy in (None, 0, '', ()):
        assert check_middleware(type('Unset', (Middleware,), {phase: falsy})()) is None
    # objects without the attribute at all are fine for check_middleware
    assert check_middleware(Obj()) is None

# first failing phase wins: request is looked at before endpoint before render
mw = type('Multi', (Middleware,), {'request': lambda self, a: 1, 'endpoint': 'str',
                                   'render': lambda self, b: 1})()
assert 'Multi.request' in str(raises(TypeError, check_middleware, mw))
mw = type('Multi', (Middleware,), {'endpoint': 'str', 'render': lambda self, b: 1})()
assert 'Multi.endpoint' in str(raises(TypeError, check_middleware, mw))
# the signature check precedes the conflict check
mws = [make_mw('request', ['x']), type('Bad', (Middleware,), {'request': lambda self, a: 1,
                                                             'provides': ('x',)})()]
raises(TypeError, check_middlewares, mws)
# a middleware lacking a provides attribute: AttributeError (not a Middleware subclass)
o = Obj()
o.provides = ()
raises(AttributeError, check_middlewares, [o])


# --- Middleware.requires / .arguments walk the same three phases -----------------
class Full(Middleware):
    provides = ('p',)
    endpoint_provides = ('q',)
    render_provides = ('r',)

    def request(self, next, request, a, b=1):
        return next(p='P')

    def endpoint(self, next, p, c, a, d=None):
        return next(q='Q')

    def render(self, next, context, e=5):
        return next(r='R')


full = Full()
assert type(full.requires) is list and type(full.arguments) is set
assert sorted(full.requires) == ['a', 'c', 'context', 'p', 'request'], full.requires
assert full.arguments == {'next', 'request', 'a', 'b', 'p', 'c', 'd', 'context', 'e'}
assert full.requires is full.requires  # cached
assert Middleware().requires == [] and Middleware().arguments == set()


class OnlyRender(Middleware):
    request = None
    endpoint = 0

    def render(self, next, context, zz):
        return next()


assert sorted(OnlyRender().requires) == ['context', 'zz']
assert OnlyRender().arguments == {'next', 'context', 'zz'}


# --- make_middleware_chain: phases see only what they may -------------------------
def ep_full(request, p, q, res, a, c):
    return {'p': p, 'q': q, 'res': res}


def rn_full(context, r, p, request):
    return Response(repr((sorted(context.items()), r, p)))


app = Application([Route('/<a>/<c>', ep_full, rn_full, middlewares=[full])], {'res': 'RES'})
resp = Client(app, Response).get('/1/2')
assert resp.get_data(True) == repr(([('p', 'P'), ('q', 'Q'), ('res', 'RES')], 'R', 'P')), resp.get_data(True)

provided = {'request', 'res', 'a', 'c', 'next', 'context', '_route'}
chain = make_middleware_chain([full], ep_full, rn_full, provided)
assert chain(request=None, res=1, a=2, c=3).get_data(True) == repr(
    ([('p', 'P'), ('q', 'Q'), ('res', 1)], 'R', 'P'))
assert make_middleware_chain([], ep, rn, ['request'])(request=None).get_data(True) == 'ok'
assert make_middleware_chain((), ep_ctx, rn, [])().get_data(True) == 'rendered'
# next in endpoint / render
for e_, r_ in [(lambda next: 1, rn), (lambda request, next=None: 1, rn),
               (ep, lambda context, next: 1), (ep, lambda context, next=2: 1)]:
    err = raises(NameError, make_middleware_chain, [], e_, r_, provided)
    assert "argument 'next' reserved for middleware use only" in str(err)
    raises(NameError, Application, [Route('/', e_, r_)])
# the endpoint's 'next' is reported before the render's
def ep_with_next(next):
    return 1


def rn_with_next(context, next):
    return 1


err = raises(NameError, make_middleware_chain, [], ep_with_next, rn_with_next, provided)
assert 'ep_with_next' in str(err) and 'rn_with_next' not in str(err)


# context is available in the render phase only; pre-provided next/context are ignored
class CtxIn(Middleware):
    def __init__(self, phase):
        if phase == 'request':
            self.request = lambda next, context: next()
        elif phase == 'endpoint':
            self.endpoint = lambda next, context: next()
        else:
            self.render = lambda next, context: next()


for phase, word in (('request', 'request'), ('endpoint', 'endpoint')):
    err = raises(NameError, make_middleware_chain, [CtxIn(phase)], ep_ctx, rn, provided)
    assert 'unresolved %s middleware arguments' % word in str(err) and 'context' in str(err)
    raises(NameError, Application, [Route('/', ep_ctx, rn)], middlewares=[CtxIn(phase)])
make_middleware_chain([CtxIn('render')], ep_ctx, rn, provided)
Application([Route('/', ep_ctx, rn)], middlewares=[CtxIn('render')])
raises(NameError, make_middleware_chain, [], lambda context: 1, rn, provided)
raises(NameError, Application, [Route('/', lambda context: 1, rn)])
# endpoint_provides is invisible to request middlewares and to render; render_provides to the endpoint
raises(NameError, make_middleware_chain, [full], lambda r: 1, rn, provided)
raises(NameError, make_middleware_chain, [full], ep_full, lambda context, q: 1, provided)
err = raises(NameError, make_middleware_chain,
             [type('NeedsQ', (Middleware,), {'request': lambda self, next, q: next()})(), full],
             ep_full, rn_full, provided)
assert 'unresolved request middleware arguments' in str(err)
err = raises(NameError, make_middleware_chain, [full], ep_full, rn_full, provided - {'a'})
assert 'unresolved' in str(err) and "'a'" in str(err)

print('PASS')
