# -*- coding: utf-8 -*-
"""demo2: the Flaw failsafe page works for any start-up error text.

Specific focus: flaw._filter_site_files (which monitored files are shown in the
visible "Monitoring" list) compared with a reference copy of the original
four-pass implementation, including aliasing, None / empty input and error cases.
Prints PASS and exits 0 on unmodified code and with patch2.diff applied.
"""
import os
import ast
import sys
import html
import traceback

from werkzeug.test import Client
from werkzeug.wrappers import Response

from clastic import flaw


def esc(text):
    return html.escape(text, True)


def get(app, path='/', method='GET'):
    resp = Client(app, Response).open(path, method=method)
    return resp.status_code, resp.get_data(as_text=True)


def real_tb(exc, depth=0):
    def rec(n):
        if n:
            return rec(n - 1)
        raise exc
    try:
        rec(depth)
    except BaseException:
        return traceback.format_exc()


SE_TB = ('  File "broken.py", line 3\n'
         '    def f(:\n'
         '          ^\n'
         'SyntaxError: invalid syntax\n')

HAND_TB = ('Traceback (most recent call last):\n'
           '  File "/srv/app/run.py", line 10, in <module>\n'
           '    main()\n'
           '  File "/srv/app/my "mod".py", line 7, in main\n'
           "    raise ValueError('v: w')\n"
           'ValueError: v: w\n')

TEXTS = [
    HAND_TB,
    real_tb(ValueError('bad <b>value</b> & "more"'), 0),
    real_tb(KeyError('k'), 3),
    real_tb(RuntimeError('{tb_str} {#parsed_err}x{/parsed_err}'), 1),
    real_tb(OSError(2, 'No such file'), 2),
    real_tb(ZeroDivisionError('division by zero'), 7),
    SE_TB,
    real_tb(NameError('nope'), 2)[:-20],
    real_tb(NameError('a'), 1) + real_tb(TypeError('b: c'), 2),
    'just some text',
    'one\ntwo\nthree: four',
    '<script>alert(1)</script>',
    '{#mon_files}{.}{/mon_files} {>partial/} {~lb} {!c!} {@eq key=1 value=1}y{/eq}',
    '\x00\x01\x7f \t tab',
    u'unicode ☃ snowman: \xe9',
    'Traceback (most recent call last):',
    'Traceback (most recent call last):\n  File "x.py", line 1, in f\nFooError: msg',
    '',
    '   \n  \n',
]
FILES = [None, [], ['/srv/app/a.py'],
         ['/srv/<b>.py', '/srv/a&b.py', '/srv/"q".py', '/s/{x}.py'],
         ['/srv/app/m%03d.py' % i for i in range(60)]]
PATHS = ['/', '/x', '/a/b/c', '/clastic_assetsx', '/%7Bx%7D', '/a//b/']


def check_page(text, files):
    app = flaw.create_app(text, files and list(files))
    for path in PATHS:
        for method in ('GET', 'POST'):
            status, body = get(app, path, method)
            assert status == 200, (status, path, text)
            assert '<pre>%s</pre>' % esc(text) in body, (path, text)
            for fn in files or ():
                assert '<li>%s</li>' % esc(fn) in body, (fn, path)
    return get(app, '/')[1]


def reference_filter(paths):
    """verbatim copy of the original clastic.flaw._filter_site_files"""
    ret = paths or []
    if not paths:
        return ret
    main_lib_dir = os.path.dirname(ast.__file__)
    ret = [fn for fn in ret if not fn.startswith(main_lib_dir)]
    venv_lib_dir = os.path.dirname(os.__file__)
    ret = [fn for fn in ret if not fn.startswith(venv_lib_dir)]
    try:
        import werkzeug
        venv_site_dir = os.path.dirname(werkzeug.__file__)
        ret = [fn for fn in ret if not fn.startswith(venv_site_dir)]
    except:
        pass
    try:
        import clastic
        clastic_dir = os.path.dirname(clastic.__file__)
        ret = [fn for fn in ret if not fn.startswith(clastic_dir)]
    except:
        pass

    return ret


def outcome(func, arg):
    try:
        return ('ok', func(arg))
    except Exception as e:
        return ('exc', type(e))


def main():
    for text in TEXTS:
        for files in FILES:
            check_page(text, files)

    # standard tracebacks name type and message
    for exc, depth in [(ValueError('bad <b>value</b>'), 0), (KeyError('k'), 3),
                       (RuntimeError('{tb_str}'), 1),
                       (ZeroDivisionError('division by zero'), 9)]:
        text = real_tb(exc, depth)
        body = check_page(text, ['/srv/a.py'])
        last = text.splitlines()[-1]
        etype, _, emsg = last.partition(':')
        assert ('<h2 class="parsed-error-h2">%s<p>%s</p></h2>'
                % (esc(etype), esc(emsg))) in body, body
        assert "<title>Oh, Flaw'd: %s in </title>" % esc(etype) in body
        assert 'unparsed-error-h2' not in body
    body = check_page(SE_TB, None)
    assert '<h2 class="parsed-error-h2">SyntaxError<p> invalid syntax</p></h2>' in body

    # unparseable text falls back to the last line
    body = check_page('one\ntwo\n<three>', None)
    assert '<h2 class="unparsed-error-h2">&lt;three&gt;</h2>' in body
    assert "<title>Oh, Flaw'd:  in </title>" in body
    body = check_page('', None)
    assert '<h2 class="unparsed-error-h2">Unknown error</h2>' in body

    # not text at all
    for text in (None, b'Traceback (most recent call last):\n  File "x.py", line 1, in f\n    y\nFooError: msg',
                 b'\xff\xfe junk', 12, ['a']):
        app = flaw.create_app(text, ['/srv/<a>.py'])
        for path in PATHS:
            status, body = get(app, path)
            assert status == 200, (status, text)
            assert '<li>/srv/&lt;a&gt;.py</li>' in body
    body = get(flaw.create_app(b'Traceback (most recent call last):\n  File "x.py", line 1, in f\n    y\nFooError: msg'))[1]
    assert '<h2 class="parsed-error-h2">FooError<p> msg</p></h2>' in body

    # -- specific to refactoring 2: the site-file filter ----------------
    import json
    import werkzeug
    import clastic
    import ashes
    fsf = flaw._filter_site_files
    std_dir = os.path.dirname(ast.__file__)
    wz_dir = os.path.dirname(werkzeug.__file__)
    cl_dir = os.path.dirname(clastic.__file__)

    # None / empty: always a fresh empty list (`[] or []` is the second one)
    empty = []
    assert fsf(empty) == [] and fsf(empty) is not empty
    assert fsf(None) == [] and fsf(()) == [] and fsf('') == []
    assert fsf(None) is not fsf(None)

    mine = ['/srv/app/a.py', '/srv/<b>.py', 'relative.py', '', '/', std_dir[:-1],
            os.path.dirname(std_dir) + '/other.py', 'x' + cl_dir + '/y.py']
    theirs = [ast.__file__, os.__file__, json.__file__, ashes.__file__,
              werkzeug.__file__, os.path.join(wz_dir, 'routing', 'map.py'),
              clastic.__file__, flaw.__file__, cl_dir, cl_dir + 'x/y.py',
              wz_dir + '_extra.py', std_dir, std_dir + '/']
    mixes = [mine, theirs, mine + theirs, theirs + mine,
             [x for pair in zip(mine, theirs) for x in pair],
             list(reversed(mine + theirs)), mine * 2,
             tuple(mine + theirs), [ast.__file__], ['/srv/a.py']]
    for paths in mixes:
        before = list(paths)
        got = fsf(paths)
        assert got == reference_filter(paths), paths
        assert type(got) is list and got is not paths
        assert list(paths) == before          # input untouched
    assert fsf(mine) == mine                  # order kept, nothing of ours dropped
    assert fsf([flaw.__file__, '/srv/a.py', werkzeug.__file__]) == ['/srv/a.py']

    # elements that are not text fail the same way
    for bad in ([b'/srv/a.py'], ['/srv/a.py', b'/srv/b.py'], [ast.__file__, b'x'],
                [1], ['/srv/a.py', None], [('a',)]):
        assert outcome(fsf, bad) == outcome(reference_filter, bad), bad
        assert outcome(fsf, bad)[0] == 'exc'

    # and the page shows exactly the filtered list first, the full list second
    files = [flaw.__file__, '/srv/<b>.py', werkzeug.__file__, ast.__file__, '/srv/a.py']
    body = get(flaw.create_app('boom', list(files)))[1]
    by_len = sorted(files, key=len)
    visible = ''.join('<li>%s</li>' % esc(f) for f in by_len if f.startswith('/srv/'))
    every = ''.join('<li>%s</li>' % esc(f) for f in by_len)
    assert '<ul>%s</ul>' % visible in body, body
    assert '<ul id="all_files" style="display:none;">%s</ul>' % every in body, body
    print('PASS')


if __name__ == '__main__':
    main()
    sys.exit(0)
