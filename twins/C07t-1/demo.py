# -*- coding: utf-8 -*-
"""demo1: C07 -- trailing-slash redirects lead to the same resource in one hop.

Focus: Application.dispatch (branch check, Location assembly, strict NotFound,
method gating) observed end-to-end through WSGI.
"""
from __future__ import print_function, unicode_literals

import os
import sys
import json
import itertools

sys.path.insert(0, os.path.dirname(os.path.abspath(__file__)))

try:
    from urllib.parse import urlsplit, unquote
except ImportError:  # pragma: no cover
    from urlparse import urlsplit
    from urllib import unquote

from werkzeug.test import EnvironBuilder, run_wsgi_app
from werkzeug.wrappers import Response

import clastic
from clastic import Application, Route
from clastic.route import S_REDIRECT, S_STRICT, S_REWRITE

assert os.path.dirname(os.path.abspath(__file__)) in os.path.abspath(clastic.__file__)

ALL_METHODS = ['GET', 'HEAD', 'POST', 'PUT', 'DELETE',
               'OPTIONS', 'TRACE', 'CONNECT', 'PATCH']
CHECKS = [0]


def check(cond, *info):
    CHECKS[0] += 1
    if not cond:
        raise AssertionError(repr(info))


def _echo(_route_label, request, **params):
    body = json.dumps({'route': _route_label,
                       'params': params,
                       'path': request.path,
                       'qs': request.query_string.decode('latin1')},
                      sort_keys=True)
    return Response(body, mimetype='application/json')


def ep_root(request):
    return _echo('root', request)


def ep_static(request):
    return _echo('static', request)


def ep_item(request, name):
    return _echo('item', request, name=name)


def ep_multi(request, parts):
    return _echo('multi', request, parts=parts)


def ep_deep(request, name, parts):
    return _echo('deep', request, name=name, parts=parts)


def ep_getonly(request, name):
    return _echo('getonly', request, name=name)


def ep_postonly(request, name):
    return _echo('postonly', request, name=name)


def ep_leaf(request):
    return _echo('leaf', request)


def ep_leafitem(request, name):
    return _echo('leafitem', request, name=name)


def make_routes():
    return [Route('/', ep_root),
            Route('/static/', ep_static),
            Route('/static/page/', ep_static),
            Route('/item/<name>/', ep_item),
            Route('/multi/<parts+>/', ep_multi),
            Route('/deep/<name>/x/<parts*>/', ep_deep),
            Route('/getonly/<name>/', ep_getonly, methods=['GET']),
            Route('/postonly/<name>/', ep_postonly, methods=['POST']),
            Route('/leaf', ep_leaf),
            Route('/leafitem/<name>', ep_leafitem)]


def wsgi_path(decoded):
    # PEP 3333 "latin-1 dance" for a decoded (unicode) path
    return decoded.encode('utf8').decode('latin1')


def call(app, path, qs='', method='GET', script_name=''):
    """path is the *decoded* path, exactly what a server puts in PATH_INFO."""
    environ = EnvironBuilder(method=method).get_environ()
    environ['PATH_INFO'] = wsgi_path(path)
    environ['QUERY_STRING'] = qs
    environ['SCRIPT_NAME'] = script_name
    app_iter, status, headers = run_wsgi_app(app, environ, buffered=True)
    body = b''.join(app_iter)
    return int(status.split()[0]), headers, body


def canonical(path, branch=True):
    """Independent reference: single slashes, exactly one trailing slash."""
    segs = []
    for seg in path.split('/'):
        if seg != '':
            segs.append(seg)
    if not segs:
        return '/'
    out = ''
    for seg in segs:
        out += '/' + seg
    return out + ('/' if branch else '')


def seen_path(path):
    # werkzeug collapses *leading* slashes before clastic sees the path
    return '/' + path.lstrip('/')


def follow(app, location, method='GET', script_name=''):
    """Do what a client + server do with a Location: split, unquote, request."""
    parts = urlsplit(location)
    check(parts.scheme == 'http' and parts.netloc == 'localhost', location)
    check(parts.fragment == '', location)
    raw_path = parts.path
    check(raw_path.startswith(script_name), location)
    raw_path = raw_path[len(script_name):]
    decoded = unquote(raw_path)
    return decoded, parts.query, call(app, decoded, parts.query, method,
                                     script_name=script_name)


SEGMENTS = ['a', 'a?b', 'a#b', '100%', '%41', 'a b', 'a;b', 'a&b=c', 'x=y',
            'caf\xe9', '☃', '中文', 'a+b', "it's", 'a:b', '~t', '%2F',
            '%', '??', '#', 'A%3Fb', '0', '.', '..', 'a,b', '@', '[x]', '"q"', '<t>',
            'a\\b', '^', '`', '{}', '|', '\t']
QUERIES = ['', 'a=1', 'a=1&b=2', 'x=%2F%3F&y=a+b', 'q=caf%C3%A9', '?', 'a=b?c=d',
           '&&', 'a', '%', 'next=/item//x/']


def slash_variants(segs):
    """Non-canonical and canonical spellings of the same segment list."""
    canon = canonical('/' + '/'.join(segs))
    out = [canon,
           canon[:-1],                       # missing trailing slash
           canon + '/',                      # doubled trailing slash
           canon + '///',
           '/' + canon,                      # doubled leading slash
           canon.replace('/', '//'),
           canon[:-1].replace('/', '///')]
    return out


def expect_redirect(app, path, qs, method, script_name=''):
    status, headers, body = call(app, path, qs, method, script_name)
    spath = seen_path(path)
    canon = canonical(spath)
    check(canon != spath)
    check(300 <= status < 400, path, qs, method, status)
    location = headers['Location']
    # query string unchanged, verbatim
    # (werkzeug's Location post-processing drops a bare trailing '?')
    if qs:
        check(location.endswith('?' + qs), location, qs)
    else:
        check('?' not in location, location)
    prefix = 'http://localhost' + script_name
    check(location.startswith(prefix + '/'), location)
    decoded, query, (status2, headers2, body2) = follow(app, location, method,
                                                       script_name)
    check(decoded == canon, path, location, decoded, canon)
    check(query == qs, location, query, qs)
    # one hop only: canonical path is a fixed point
    check(status2 == 200, path, location, status2)
    check('Location' not in headers2)
    check(canonical(decoded) == decoded)
    return location, body2


def expect_direct(app, path, qs='', method='GET', status=200):
    got, headers, body = call(app, path, qs, method)
    check(got == status, path, qs, method, got, status)
    check('Location' not in headers, path, headers)
    return body


def test_redirect_mode():
    app = Application(make_routes(), slash_mode=S_REDIRECT)
    n_redirects = 0
    qs_cycle = itertools.cycle(QUERIES)
    for prefix, arity in [('item', 1), ('multi', 1), ('multi', 3), ('deep', 1),
                          ('deep', 3)]:
        for i, seg in enumerate(SEGMENTS):
            others = [SEGMENTS[(i + k) % len(SEGMENTS)] for k in range(1, arity)]
            if prefix == 'deep':
                segs = [prefix, seg, 'x'] + others
            else:
                segs = [prefix, seg] + others
            variants = slash_variants(segs)
            canon = variants[0]
            qs = next(qs_cycle)
            body = expect_direct(app, canon, qs)
            want = json.loads(body.decode('utf8'))
            check(want['path'] == canon and want['qs'] == qs, want)
            if prefix == 'item':
                check(want['params'] == {'name': seg}, want, seg)
            elif prefix == 'multi':
                check(want['params'] == {'parts': [seg] + others}, want)
            else:
                check(want['params'] == {'name': seg, 'parts': others}, want)
            for variant in variants[1:]:
                if seen_path(variant) == canon:
                    # only leading slashes differ; werkzeug hides that
                    expect_direct(app, variant, qs)
                    continue
                loc, body2 = expect_redirect(app, variant, qs, 'GET')
                n_redirects += 1
                # same resource: identical params/path/query as canonical request
                check(json.loads(body2.decode('utf8')) == want, variant, loc)
    check(n_redirects > 500, n_redirects)

    # static branch routes and root
    for qs in QUERIES:
        for path in ['/static', '/static//', '//static', '/static/page', '/static//page',
                     '/static/page//', '///static///page///']:
            loc, body2 = expect_redirect(app, path, qs, 'GET')
            check(json.loads(body2.decode('utf8'))['route'] == 'static')
        expect_direct(app, '/static/', qs)
        expect_direct(app, '/static/page/', qs)
        # '/', '', '//' and '///' all reach clastic as '/', already canonical
        for path in ['/', '', '//', '///']:
            body = expect_direct(app, path, qs)
            check(json.loads(body.decode('utf8'))['route'] == 'root')

    # exact Location for a few hand-computed cases
    status, headers, _ = call(app, '/static', '')
    check(headers['Location'] == 'http://localhost/static/', headers['Location'])
    status, headers, _ = call(app, '/item//a b', 'x=1')
    check(headers['Location'] == 'http://localhost/item/a%20b/?x=1', headers['Location'])
    status, headers, _ = call(app, '/item/a?b', 'x=1')
    check(headers['Location'] == 'http://localhost/item/a%3Fb/?x=1', headers['Location'])
    status, headers, _ = call(app, '/item/a#b', '')
    check(headers['Location'] == 'http://localhost/item/a%23b/', headers['Location'])
    status, headers, _ = call(app, '/item/%41', '')
    check(headers['Location'] == 'http://localhost/item/%2541/', headers['Location'])
    status, headers, _ = call(app, '/item/caf\xe9', 'q=1')
    check(headers['Location'] == 'http://localhost/item/caf%C3%A9/?q=1', headers['Location'])
    check(status == 302)

    # mounted under a SCRIPT_NAME: url_root ends in '/', must not double it
    for seg in SEGMENTS:
        for qs in ['', 'a=1&b=2']:
            loc, body2 = expect_redirect(app, '/item//' + seg, qs, 'GET',
                                         script_name='/mount')
            check(loc.startswith('http://localhost/mount/item/'), loc)
            check(json.loads(body2.decode('utf8'))['params'] == {'name': seg})

    # leaf routes never redirect, whatever the slashes
    for path in ['/leaf', '/leaf/', '/leaf//', '//leaf', '/leafitem/a', '/leafitem//a/',
                 '/leafitem/a?b//']:
        expect_direct(app, path, 'z=1')
    return app


def test_methods():
    app = Application(make_routes(), slash_mode=S_REDIRECT)
    for method in ALL_METHODS:
        # no methods restriction: every method redirected
        for seg in ['a', 'a?b', '%41', 'caf\xe9']:
            loc, _ = expect_redirect(app, '/item//' + seg, 'm=' + method, method)
        # GET-only route (HEAD implied): others must not be redirected
        status, headers, _ = call(app, '/getonly/a', 'k=v', method)
        if method in ('GET', 'HEAD'):
            check(300 <= status < 400, method, status)
            check(headers['Location'] == 'http://localhost/getonly/a/?k=v')
        else:
            check(status == 405, method, status)
            check('Location' not in headers)
            check(sorted(headers['Allow'].replace(' ', '').split(',')) == ['GET', 'HEAD'],
                  headers['Allow'])
        status, headers, _ = call(app, '/getonly/a/', 'k=v', method)
        check(status == (200 if method in ('GET', 'HEAD') else 405), method, status)
        # POST-only route
        status, headers, _ = call(app, '/postonly//a?b', 'k=v', method)
        if method == 'POST':
            check(status == 302, method, status)
            check(headers['Location'] == 'http://localhost/postonly/a%3Fb/?k=v',
                  headers['Location'])
            decoded, query, (status2, headers2, _) = follow(app, headers['Location'], 'POST')
            check(status2 == 200 and decoded == '/postonly/a?b/' and query == 'k=v')
        else:
            check(status == 405, method, status)
            check('Location' not in headers)
    # a later route admitting the method takes the request after an earlier
    # method-mismatching branch route; the redirect comes from the admitting one
    routes = [Route('/thing/<name>/', ep_getonly, methods=['GET']),
              Route('/thing/<name>/', ep_postonly, methods=['POST'])]
    app2 = Application(routes)
    for method, route_name in [('GET', 'getonly'), ('POST', 'postonly')]:
        loc, body2 = expect_redirect(app2, '/thing//n', 'a=1', method)
        check(json.loads(body2.decode('utf8'))['route'] == route_name)
    status, headers, _ = call(app2, '/thing//n', '', 'PUT')
    check(status == 405 and 'Location' not in headers)


def test_strict_and_rewrite():
    strict = Application(make_routes(), slash_mode=S_STRICT)
    rewrite = Application(make_routes(), slash_mode=S_REWRITE)
    for seg in SEGMENTS:
        for qs in ['', 'a=1']:
            segs = ['item', seg]
            variants = slash_variants(segs)
            canon = variants[0]
            want = json.loads(expect_direct(strict, canon, qs).decode('utf8'))
            check(want['params'] == {'name': seg})
            got = json.loads(expect_direct(rewrite, canon, qs).decode('utf8'))
            check(got == want)
            for variant in variants[1:]:
                if seen_path(variant) == canon:
                    expect_direct(strict, variant, qs)
                    expect_direct(rewrite, variant, qs)
                    continue
                for method in ('GET', 'POST'):
                    # strict: no match, no redirect
                    expect_direct(strict, variant, qs, method, status=404)
                    # rewrite: the route runs directly, same params
                    body = expect_direct(rewrite, variant, qs, method)
                    got = json.loads(body.decode('utf8'))
                    check(got['params'] == want['params'] and got['route'] == 'item')
                    check(got['path'] == seen_path(variant) and got['qs'] == qs)
    for path in ['/static', '/static//', '/static/page', '/static//page/']:
        expect_direct(strict, path, status=404)
        expect_direct(rewrite, path)
    # strict: leaf with trailing slash does not match either
    expect_direct(strict, '/leaf')
    expect_direct(strict, '/leaf/', status=404)
    expect_direct(rewrite, '/leaf/')
    # unmatched paths: NullRoute answers 404, never a redirect, in every mode
    for app in (strict, rewrite, Application(make_routes())):
        for path in ['/nothing', '/nothing//here/', '/item', '/item//', '/multi/']:
            expect_direct(app, path, 'a=1', status=404)


def main():
    test_redirect_mode()
    test_methods()
    test_strict_and_rewrite()
    print('checks: %d' % CHECKS[0])
    print('PASS')


if __name__ == '__main__':
    main()
