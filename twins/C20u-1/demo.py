# -*- coding: utf-8 -*-
"""demo1: the Flaw failsafe page is total over start-up error texts.

Exercises flaw.create_app(text, files) + GET/POST/... of arbitrary paths and
compares every page byte-for-byte with an independent model (a reference
traceback parser + a re-statement of the template written in this file).
Additionally pins the small value-object API of flaw._ParsedTB
(__init__ / source_file / to_dict), which feeds the page.

Prints PASS and exits 0 when everything holds.
"""
import ast
import html
import os
import random
import re
import sys
import traceback

import werkzeug

import clastic
from clastic import flaw

# --------------------------------------------------------------------------
# independent model
# --------------------------------------------------------------------------

_F_RE = re.compile(r'^File "(?P<filepath>.+)", line (?P<lineno>\d+), in (?P<funcname>.+)$')
_SE_RE = re.compile(r'^File "(?P<filepath>.+)", line (?P<lineno>\d+)')


def ref_parse(text):
    """Reference parser: dict for a recognised traceback, {} otherwise."""
    try:
        if not isinstance(text, str):
            text = text.decode('utf-8')
        lines = text.lstrip().splitlines()
        if lines[0].strip() == 'Traceback (most recent call last):':
            body, rx = lines[1:-1], _F_RE
        elif len(lines) > 1 and lines[-2].lstrip().startswith('^'):
            body, rx = lines[:-2], _SE_RE
        else:
            return {}
        while lines and lines[-1].startswith('Exception ') and lines[-1].endswith('ignored'):
            lines.pop()
        found = None
        for line in reversed(lines):
            etype, sep, emsg = line.partition(':')
            found = (etype, emsg)
            if sep and etype and len(etype.split()) == 1:
                break
        etype, emsg = found  # TypeError when there was no line at all
        frames = []
        for i in range(0, len(body), 2):
            m = rx.match(body[i].strip())
            if not m:
                continue
            d = m.groupdict()
            d['source_line'] = body[i + 1].strip()
            frames.append(d)
        return {'exc_type': etype, 'exc_msg': emsg, 'frames': frames}
    except Exception:
        return {}


def ref_site_filter(files):
    if not files:
        return files or []
    prefixes = [os.path.dirname(ast.__file__), os.path.dirname(os.__file__),
                os.path.dirname(werkzeug.__file__), os.path.dirname(clastic.__file__)]
    return [f for f in files if not any(f.startswith(p) for p in prefixes)]


def esc(value):
    """How ashes renders {value}: nothing for None / False / empty, else HTML-escaped str()."""
    try:
        if value is None or value is False or len(value) == 0:
            return ''
    except TypeError:
        pass
    return html.escape(str(value), True)


def ref_last_line(text):
    try:
        return text.splitlines()[-1]
    except Exception:
        return 'Unknown error'


def ref_page(text, files):
    """files: the list as create_app leaves it (sorted by length, stable)."""
    parsed = ref_parse(text)
    # the title section has no {:else}: ashes renders it for an empty dict too
    title = ': %s in ' % esc(parsed.get('exc_type'))
    if parsed:
        head = ('\n      <h2 class="parsed-error-h2">%s<p>%s</p></h2>\n    '
                % (esc(parsed['exc_type']), esc(parsed['exc_msg'])))
    else:
        head = ('\n      <h2 class="unparsed-error-h2">%s</h2>\n    '
                % esc(ref_last_line(text)))
    lis = ''.join('<li>%s</li>' % esc(f) for f in ref_site_filter(files))
    all_lis = ''.join('<li>%s</li>' % esc(f) for f in (files or []))
    return (u"""\
<!doctype html>
<html>
  <head>
    <title>Oh, Flaw'd%s</title>
    <link rel="stylesheet" type="text/css" href="/clastic_assets/normalize.css">
    <link rel="stylesheet" type="text/css" href="/clastic_assets/common.css">
  </head>
  <body>
    <h1 class="page_title">Whopps!</h1>

    <p>Clastic detected a modification, but couldn't restart your application. This is often the result of a module-level error that prevents one of your application's modules from being imported. Fix the error and try refreshing the page.</p>

    %s
    <h2>Stack trace</h2>
    <pre>%s</pre>
    <br><hr>
    <p>Monitoring:
      <ul>%s</ul>
      <ul id="all_files" style="display:none;">%s</ul>
    </p>
  </body>
</html>
""" % (title, head, esc(text), lis, all_lis))


# --------------------------------------------------------------------------
# inputs
# --------------------------------------------------------------------------

class CustomError(Exception):
    pass


EXC_CATALOGUE = [
    ValueError('bad <value> & "quotes"'), KeyError('k'), NameError("name 'plarp' is not defined"),
    ZeroDivisionError('division by zero'), ImportError('No module named {x}'),
    AttributeError("'NoneType' object has no attribute 'x'"), TypeError(''), RuntimeError(),
    OSError(2, 'No such file'), IndexError('list index out of range: a: b: c'),
    UnicodeError(u'sn\xf6wman ☃'), CustomError('{#tb_str}{.}{/tb_str}'), AssertionError(),
    StopIteration('multi\nline message'), LookupError('Exception x ignored'),
]


def _raise_at_depth(exc, depth):
    if depth <= 0:
        raise exc
    return _raise_at_depth(exc, depth - 1)


def real_tracebacks():
    out = []
    for i, exc in enumerate(EXC_CATALOGUE):
        for depth in (0, 1, 4):
            try:
                _raise_at_depth(exc, depth)
            except Exception:
                out.append(traceback.format_exc())
    # chained exception report (two tracebacks concatenated by Python itself)
    try:
        try:
            _raise_at_depth(KeyError('inner'), 2)
        except KeyError as e:
            raise ValueError('outer') from e
    except ValueError:
        out.append(traceback.format_exc())
    return out


def classic_tracebacks():
    """(text, exc_type, exc_msg) in the classic two-lines-per-frame layout."""
    out = []
    for exc in EXC_CATALOGUE:
        name = type(exc).__name__
        msg = str(exc).splitlines()[0] if str(exc) else ''
        for depth in (1, 2, 7):
            lines = ['Traceback (most recent call last):']
            for d in range(depth):
                lines.append('  File "/srv/app/mod_%d.py", line %d, in func_%d' % (d, d * 10 + 1, d))
                lines.append('    call_%d(<arg> & "x")' % d)
            last = '%s: %s' % (name, msg) if msg else '%s:' % name
            lines.append(last)
            for text in ('\n'.join(lines), '\n'.join(lines) + '\n', '\n\n  ' + '\n'.join(lines) + '\n'):
                out.append((text, name, ' ' + msg if msg else ''))
    return out


def syntax_error_reports():
    out = []
    for src in ('foo(', 'x = = 1', 'def f(:\n  pass', "print 'a'", 'a = "unterminated'):
        try:
            compile(src, '<demo & "src">', 'exec')
        except SyntaxError:
            out.append(traceback.format_exc())
            out.append(''.join(traceback.format_exception_only(*sys.exc_info()[:2])))
    out.append('  File "x.py", line 3\n    foo(\n       ^\nSyntaxError: invalid syntax\n')
    out.append('  File "x.py", line 3\n    foo(\n       ^\nSyntaxError: invalid syntax\n'
               'Exception AttributeError in <bound method X.__del__> ignored\n')
    out.append('    ^\nSyntaxError: x')
    out.append('^\n')
    return out


def odd_texts():
    rnd = random.Random(20)
    printable = ''.join(chr(c) for c in range(32, 127)) + '\n\n\t'
    anychar = ''.join(chr(c) for c in list(range(0, 32)) + [127, 0x85, 0xa0, 0x2028, 0x2603, 0x1f600]) + printable
    out = ['', ' ', '\n', '\n\n\n', 'just one line', ':', 'a:', ':b', 'A: b\nno colon here',
           '<script>alert("x")</script>', '<b>bold</b> &amp; &lt; \' "',
           '{tb_str}', '{#parsed_err}{exc_type}{/parsed_err}', '{>flaw_tmpl/}', '{~lb}{~rb}{!c!}{@eq key=1/}',
           '{', '}', '{{', '}}', '{.}', '{:else}', '%s %d %(x)s', '\\n\\t\\', '\x00\x01\x02', u'☃\U0001f600',
           'Traceback (most recent call last):',
           'Traceback (most recent call last):\n',
           'Traceback (most recent call last):\nValueError: x',
           'Traceback (most recent call last):\n  File "a.py", line 1, in <module>\nValueError: x',
           'Traceback (most recent call last):\n  File "a.py", line 1, in <module>\n    x\n',
           'Traceback (most recent call last):\n  File "a.py", line 1, in <module>\n    x\nno exception line',
           'Traceback (most recent call last):\n  File "a.py", line 1, in <module>\n    x\nTwo Words: msg',
           'Traceback (most recent call last):\n  File "a.py", line 1, in <module>\n    x\n: empty type',
           'Traceback (most recent call last):\n  File "a.py", line one, in <module>\n    x\nKeyError: 1',
           'Traceback (most recent call last):\n  File "a.py", line 1, in <module>\n    x\nKeyError: 1\n'
           'Exception KeyError in <x> ignored\nException SystemError: y ignored',
           'Exception a ignored', 'Exception a ignored\nException b ignored',
           '   Traceback (most recent call last):   \n  File "a.py", line 1, in f\n    y\n<b>Err</b>: <i>m</i>',
           'prefix\nTraceback (most recent call last):\n  File "a.py", line 1, in f\n    y\nKeyError: 1',
           ]
    for _ in range(40):
        out.append(''.join(rnd.choice(printable) for _ in range(rnd.randint(1, 200))))
    for _ in range(40):
        out.append(''.join(rnd.choice(anychar) for _ in range(rnd.randint(1, 200))))
    return out


def derived_texts(tbs):
    rnd = random.Random(7)
    out = []
    for tb in tbs:
        lines = tb.splitlines(True)
        k = rnd.randint(0, len(lines))
        out.append(''.join(lines[:k]))            # truncated at a line
        out.append(tb[:rnd.randint(0, len(tb))])  # truncated anywhere
        out.append(''.join(lines[k:]))            # head cut off
        out.append(tb + rnd.choice(tbs))          # concatenated
        out.append(tb + 'Exception ValueError in <function f> ignored\n')
    return out


def file_lists():
    stdlib = os.path.dirname(ast.__file__)
    site = os.path.dirname(werkzeug.__file__)
    cl_dir = os.path.dirname(clastic.__file__)
    return [
        None,
        [],
        ['/srv/app/main.py'],
        ['/srv/<b>app</b>/m&m.py', '/srv/"q"/\'s\'.py', '/srv/{tb_str}/{#x}.py', 'z', ''],
        ['/srv/app/mod_%03d.py' % i for i in range(150, 0, -1)],
        [os.path.join(stdlib, 'json', '__init__.py'), '/srv/app/b.py', os.path.join(site, 'wrappers.py'),
         os.path.join(cl_dir, 'flaw.py'), '/srv/a.py', os.__file__, stdlib + '_not_really/x.py', u'/srv/☃.py'],
    ]


PATHS = ['/', '/foo', '/foo/bar/', '/a/b/c/d.e', '/%7Btb_str%7D', '/<script>', '/index.html?x=1&y=<2>',
         '/favicon.ico', '//', '/' + 'x' * 300]
METHODS = ['get', 'post', 'put', 'delete', 'patch']

# --------------------------------------------------------------------------
# checks
# --------------------------------------------------------------------------

N_PAGES = 0


def check_text(text, files, paths=PATHS[:3], methods=('get',)):
    global N_PAGES
    original = None if files is None else list(files)
    app = flaw.create_app(text, files)
    if original is not None:
        # the caller's list is sorted in place, shortest first, stable
        assert files == sorted(original, key=len), (files, original)
    expected = ref_page(text, files)
    client = app.get_local_client()
    for path in paths:
        for method in methods:
            resp = getattr(client, method)(path)
            assert resp.status_code == 200, (text, path, method, resp.status_code)
            assert resp.mimetype == 'text/html', resp.mimetype
            body = resp.get_data(True)
            assert body == expected, (text, files, path, method, body, expected)
            N_PAGES += 1
    resp = client.head(paths[0])
    assert resp.status_code == 200 and resp.get_data() == b''
    # the property, stated directly
    body = client.get('/any/path').get_data(True)
    assert '<pre>%s</pre>' % esc(text) in body
    for f in (files or []):
        assert '<li>%s</li>' % esc(f) in body
    return body


def check_parsed_tb_api():
    cls = flaw._ParsedTB
    # frames: None / empty / falsy containers -> fresh empty list
    for empty in (None, [], (), {}, '', 0):
        obj = cls('T', 'm', empty)
        assert obj.frames == [] and type(obj.frames) is list
        assert obj.source_file is None
    assert cls('T', 'm').frames == []
    a, b = cls('T', 'm'), cls('T', 'm')
    assert a.frames is not b.frames
    # non-empty: copied into a new list, elements shared
    f1, f2 = {'filepath': 'a.py', 'lineno': '1'}, {'filepath': 'b.py', 'lineno': '2'}
    src = [f1, f2]
    obj = cls('KeyError', " 'k'", src)
    assert obj.frames == src and obj.frames is not src and obj.frames[0] is f1
    assert obj.source_file == 'b.py'
    assert cls('T', 'm', (f1,)).frames == [f1]
    assert cls('T', 'm', iter([f1, f2])).frames == [f1, f2]      # iterator: always truthy, consumed once
    assert cls('T', 'm', iter([])).frames == []
    assert cls('T', 'm', (x for x in [f2, f1])).source_file == 'a.py'
    # last frame without 'filepath' -> KeyError (not swallowed); non-mapping frame -> TypeError
    for bad, exc_type in (([f1, {}], KeyError), ([f1, 'str'], TypeError), ([f1, [1]], TypeError)):
        try:
            cls('T', 'm', bad).source_file
        except exc_type:
            pass
        else:
            raise AssertionError('expected %s' % exc_type)
    # frames emptied / refilled later is reflected
    obj.frames[:] = []
    assert obj.source_file is None
    obj.frames.append(f1)
    assert obj.source_file == 'a.py'
    # to_dict: exact keys in order, values are the very same objects (no copy)
    for et, em in (('KeyError', " 'k'"), ('', ''), (None, None), (0, 0), ('<b>', '{x}')):
        obj = cls(et, em, src)
        d = obj.to_dict()
        assert type(d) is dict and list(d) == ['exc_type', 'exc_msg', 'frames']
        assert d['exc_type'] is et and d['exc_msg'] is em and d['frames'] is obj.frames
        assert obj.to_dict() is not d and obj.to_dict() == d
    # from_string round trip
    tb = ('Traceback (most recent call last):\n  File "example.py", line 2, in <module>\n    plarp\n'
          "NameError: name 'plarp' is not defined\n")
    for text in (tb, tb.encode('utf-8'), bytearray(tb.encode('utf-8'))):
        obj = cls.from_string(text)
        assert obj.to_dict() == ref_parse(tb) == {
            'exc_type': 'NameError', 'exc_msg': " name 'plarp' is not defined",
            'frames': [{'filepath': 'example.py', 'lineno': '2', 'funcname': '<module>', 'source_line': 'plarp'}]}
        assert obj.source_file == 'example.py'
    obj = cls.from_string('Traceback (most recent call last):\nValueError: x')
    assert obj.frames == [] and obj.source_file is None and obj.exc_type == 'ValueError'
    for text, exc_type in (('', IndexError), ('nope', ValueError), (None, AttributeError), (5, AttributeError),
                           ('Traceback (most recent call last):\n  File "a", line 1, in f\nE: x', IndexError)):
        try:
            cls.from_string(text)
        except exc_type:
            pass
        else:
            raise AssertionError('expected %s for %r' % (exc_type, text))


def main():
    check_parsed_tb_api()

    lists = file_lists()
    reals = real_tracebacks()
    classics = classic_tracebacks()
    syntaxes = syntax_error_reports()
    texts = (reals + [c[0] for c in classics] + syntaxes + odd_texts()
             + derived_texts(reals[::3] + [c[0] for c in classics[::5]] + syntaxes))
    texts += [None, b'', b'raw bytes <b>', b'\xff\xfe not utf8', 12345, 0, 3.5, ['a', 'list'], ('t',), {'d': 1}]
    texts += [t.encode('utf-8') for t in reals[:4] + syntaxes[:2]]

    n_parsed = 0
    for i, text in enumerate(texts):
        files = lists[i % len(lists)]
        files = None if files is None else list(files)
        check_text(text, files)
        n_parsed += bool(ref_parse(text))

    # every file list x a few representative texts, all paths and methods
    for files in lists:
        for text in (classics[0][0], 'not a traceback <&>', '', None, syntaxes[-4]):
            check_text(text, None if files is None else list(files), paths=PATHS, methods=METHODS)

    # classic tracebacks: the page names type and message
    for text, name, msg in classics:
        body = check_text(text, ['/srv/app/main.py'], paths=['/'])
        assert '<h2 class="parsed-error-h2">%s<p>%s</p></h2>' % (esc(name), esc(msg)) in body, (text, body)
        assert "<title>Oh, Flaw'd: %s in </title>" % esc(name) in body
        assert 'unparsed-error-h2' not in body
        assert ref_parse(text)['frames'][-1]['funcname'].startswith('func_')

    # real tracebacks of this interpreter: last line 'Type: message' is named when recognised
    for text in reals:
        parsed = ref_parse(text)
        body = check_text(text, None, paths=['/x'])
        if parsed:
            assert 'parsed-error-h2">%s<p>' % esc(parsed['exc_type']) in body

    assert n_parsed > 50, n_parsed
    assert N_PAGES > 1000, N_PAGES
    print('pages checked: %d, texts: %d (recognised as tracebacks: %d)' % (N_PAGES, len(texts), n_parsed))
    print('PASS')


if __name__ == '__main__':
    main()
