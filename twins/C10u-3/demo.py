# -*- coding: utf-8 -*-
"""demo3: embedding == flat declaration, with the focus on the compiled
path patterns: prefix + pattern with bindings of every type / arity under
each slash mode, the errors of invalid combinations, and the exact regexes
and converters that _compile_path_pattern produces.

Prints PASS and exits 0 when every assertion holds.
"""
import sys
import warnings

warnings.simplefilter('ignore')

from werkzeug.wrappers import Response

from clastic import Application, Route, SubApplication, Middleware
from clastic.route import GET, S_REDIRECT, S_REWRITE, S_STRICT
from clastic.errors import ErrorHandler, Forbidden
from clastic.middleware.core import check_middlewares

TRACE = []


# ---------------------------------------------------------------- middlewares
class _TraceMW(Middleware):
    def __init__(self, tag):
        self.tag = tag

    def __repr__(self):
        return '%s@%s' % (self.__class__.__name__, self.tag)

    def request(self, next, request):
        TRACE.append('>%r' % self)
        try:
            return next()
        finally:
            TRACE.append('<%r' % self)


class MwA(_TraceMW):
    pass


class MwB(_TraceMW):
    pass


class MwC(_TraceMW):
    pass


class MwWho(_TraceMW):
    provides = ('who',)

    def request(self, next, request):
        TRACE.append('>%r' % self)
        return next(who=self.tag)


class MwEp(_TraceMW):
    endpoint_provides = ('ep_val',)
    request = None

    def endpoint(self, next):
        TRACE.append('e%r' % self)
        return next(ep_val='ep-' + self.tag)


class MwRn(_TraceMW):
    render_provides = ('rn_val',)
    request = None

    def render(self, next, context):
        TRACE.append('r%r' % self)
        return next(rn_val='rn-' + self.tag)


class MwWho2(_TraceMW):
    # a different type providing the same name as MwWho -> conflict
    endpoint_provides = ('who',)
    request = None

    def endpoint(self, next):
        return next(who='two-' + self.tag)


class MwFixed(_TraceMW):
    reorderable = False


# ------------------------------------------------------------- error handlers
class TagErrorHandler(ErrorHandler):
    def __init__(self, tag):
        ErrorHandler.__init__(self)
        self.tag = tag

    def render_error(self, request, _error, shared):
        return Response('EH[%s] %s shared=%s' % (self.tag, _error.code, shared),
                        status=_error.code)


def make_rf(tag):
    def render_factory(arg):
        def render(context):
            return Response('RF[%s](%s) %s' % (tag, arg, context))
        return render
    return render_factory


def callable_render(context):
    return Response('CALLABLE %s' % (context,))


def rn_render(context, rn_val):
    return Response('RN %s %s' % (rn_val, context))


# ------------------------------------------------------------------ endpoints
def ep_shared(shared, own):
    return 'ep_shared(shared=%s, own=%s)' % (shared, own)


def ep_deep(shared, deep):
    return 'ep_deep(shared=%s, deep=%s)' % (shared, deep)


def ep_mid(shared, mid_only):
    return Response('ep_mid(shared=%s, mid_only=%s)' % (shared, mid_only))


def ep_top(shared, top_only):
    return 'ep_top(shared=%s, top_only=%s)' % (shared, top_only)


def ep_num(num, shared):
    return 'ep_num(%r, shared=%s)' % (num, shared)


def ep_parts(parts):
    return Response('ep_parts(%r)' % (parts,))


def ep_who(who, shared):
    return 'ep_who(%s, shared=%s)' % (who, shared)


def ep_val_ep(ep_val):
    return 'ep_val_ep(%s)' % ep_val


def ep_boom(shared):
    raise ValueError('boom')


def ep_forbidden():
    raise Forbidden()


def ep_app(_application, _route, shared):
    return Response('ep_app(app_shared=%s, pattern=%s, n_apps=%d, shared=%s)'
                    % (_application.resources.get('shared'), _route.pattern,
                       len(_route.bound_apps), shared))


# ---------------------------------------------------------------------- specs
class Lvl(object):
    """Declaration of one application level (independent of clastic)."""
    def __init__(self, name, entries, res=None, mws=(), slash=S_REDIRECT,
                 rf=None, eh=None):
        self.name, self.entries = name, entries
        self.res, self.mws = dict(res or {}), list(mws)
        self.slash, self.rf, self.eh = slash, rf, eh


class R(object):
    def __init__(self, pattern, ep, render=None, mws=(), methods=None):
        self.pattern, self.ep, self.render = pattern, ep, render
        self.mws, self.methods = list(mws), methods


class Sub(object):
    def __init__(self, prefix, lvl, rebind_render=False, inherit_slashes=True,
                 as_tuple=False):
        self.prefix, self.lvl = prefix, lvl
        self.rebind_render, self.inherit_slashes = rebind_render, inherit_slashes
        self.as_tuple = as_tuple


def build_nested(lvl):
    routes = []
    for e in lvl.entries:
        if isinstance(e, R):
            kw = {}
            if e.methods:
                kw['methods'] = e.methods
            routes.append(Route(e.pattern, e.ep, e.render,
                                middlewares=e.mws, **kw))
        else:
            inner = build_nested(e.lvl)
            if e.as_tuple:
                assert not e.rebind_render and e.inherit_slashes
                routes.append((e.prefix, inner))
            else:
                routes.append(SubApplication(e.prefix, inner,
                                             rebind_render=e.rebind_render,
                                             inherit_slashes=e.inherit_slashes))
    kw = {}
    if lvl.eh is not None:
        kw['error_handler'] = TagErrorHandler(lvl.eh)
    return Application(routes, resources=lvl.res, middlewares=lvl.mws,
                       render_factory=make_rf(lvl.rf) if lvl.rf else None,
                       slash_mode=lvl.slash, **kw)


def _dedupe(mws):
    out = []
    for mw in mws:
        if not any(type(o) is type(mw) for o in out):
            out.append(mw)
    return out


def flatten(top):
    """Independent flattening: one record per leaf route, in order."""
    recs = []

    def walk(lvl, prefix, levels, links):
        for e in lvl.entries:
            if isinstance(e, Sub):
                walk(e.lvl, prefix + e.prefix.rstrip('/'),
                     levels + [e.lvl], links + [e])
                continue
            # slash mode: innermost first, outward while inheriting
            slash = levels[-1].slash
            for parent, link in reversed(list(zip(levels[:-1], links))):
                if link.inherit_slashes:
                    slash = parent.slash
            # render: the most recent factory at the time of a (re)binding
            render, bound = None, False
            if callable(e.render):
                render = e.render
            elif e.render is not None:
                rebinds = [True] + [l.rebind_render for l in reversed(links)]
                seen = []
                for cur, rebind in zip(reversed(levels), rebinds):
                    seen.append(cur.rf)
                    facs = [f for f in seen if f]
                    if (rebind or not bound) and facs:
                        render, bound = make_rf(facs[-1])(e.render), True
            inner_mws, inner_res = [], {}
            for cur in levels[1:]:
                inner_mws.extend(cur.mws)
                inner_res.update(cur.res)
            inner_mws.extend(e.mws)
            all_mws = _dedupe(list(top.mws) + inner_mws)
            recs.append(dict(pattern=prefix + e.pattern, ep=e.ep, render=render,
                             mws=_dedupe(inner_mws), res=inner_res, slash=slash,
                             methods=e.methods, all_mws=all_mws))

    walk(top, '', [top], [])
    return recs


def build_flat(top):
    kw = {}
    if top.eh is not None:
        kw['error_handler'] = TagErrorHandler(top.eh)
    app = Application([], resources=top.res, middlewares=top.mws,
                      slash_mode=top.slash, **kw)
    for rec in flatten(top):
        rkw = {}
        if rec['methods']:
            rkw['methods'] = rec['methods']
        rt = Route(rec['pattern'], rec['ep'], rec['render'],
                   middlewares=rec['mws'], resources=rec['res'],
                   slash_mode=rec['slash'], **rkw)
        app.add(rt, inherit_slashes=False)
    return app


# ------------------------------------------------------------------- requests
def catalogue(patterns):
    paths = ['/', '/nope', '/nope/', '//', '/x/../y']
    for patt in patterns:
        base = (patt.replace('<num:int>', '42').replace('<parts*>', 'a/b')
                .replace('<name>', 'zed'))
        stripped = base.rstrip('/') or '/'
        paths += [base, stripped, stripped + '/', stripped + '//',
                  '/' + base, base.replace('/', '//'), stripped + '/extra',
                  stripped + 'x']
        if '42' in base:
            paths += [base.replace('42', 'notint'), base.replace('42', '-7'),
                      base.replace('42', '')]
        if 'a/b' in base:
            paths += [base.replace('a/b', ''), base.replace('/a/b', ''),
                      base.replace('a/b', 'a//b/')]
    seen, out = set(), []
    for p in paths:
        if p not in seen:
            seen.add(p)
            out.append(p)
    reqs = []
    for p in out:
        reqs.append(('GET', p, ''))
        reqs.append(('POST', p, ''))
    for p in out[::3]:
        reqs.append(('HEAD', p, ''))
        reqs.append(('GET', p, 'q=1&r=%20x'))
    return reqs


def observe(app, method, path, query):
    del TRACE[:]
    cl = app.get_local_client()
    try:
        resp = cl.open(path=path, method=method, query_string=query,
                       headers={'Accept': 'text/plain'})
        out = (resp.status_code, resp.get_data(True),
               resp.headers.get('Location'), resp.headers.get('Allow'))
    except Exception as e:  # must not happen, but must then be the same
        out = ('EXC', type(e).__name__, str(e), None)
    return out + (tuple(TRACE),)


def compare(top, min_ok=1):
    nested, flat = build_nested(top), build_flat(top)
    recs = flatten(top)
    assert len(nested.routes) == len(flat.routes) == len(recs)
    for nbr, fbr, rec in zip(nested.routes, flat.routes, recs):
        assert nbr.pattern == fbr.pattern == rec['pattern'], (nbr.pattern, rec)
        assert nbr.slash_mode == fbr.slash_mode == rec['slash'], (nbr.pattern,)
        assert nbr.methods == fbr.methods
        want = [repr(m) for m in rec['all_mws']]
        assert [repr(m) for m in nbr.middlewares] == want, (nbr.middlewares, want)
        assert [repr(m) for m in fbr.middlewares] == want, (fbr.middlewares, want)
        assert type(nbr.middlewares) is tuple
        assert set(nbr.resources) == set(fbr.resources)
        assert nbr.bound_apps[-1] is nested and fbr.bound_apps[-1] is flat
        assert nbr.get_required_args() == fbr.get_required_args()
    n_ok = 0
    for method, path, query in catalogue([r['pattern'] for r in recs]):
        got_n = observe(nested, method, path, query)
        got_f = observe(flat, method, path, query)
        assert got_n == got_f, (top.name, method, path, query, got_n, got_f)
        assert got_n[0] != 'EXC', got_n
        if got_n[0] == 200:
            n_ok += 1
    assert n_ok >= min_ok, (top.name, n_ok)
    return nested, flat


def expect_same_error(top, exc_type, *needles):
    errs = []
    for build in (build_nested, build_flat):
        try:
            build(top)
        except Exception as e:
            errs.append(e)
        else:
            raise AssertionError('%s: %s did not raise' % (top.name, build.__name__))
    for e in errs:
        assert type(e) is exc_type, (top.name, e)
        for needle in needles:
            assert needle in str(e), (top.name, needle, str(e))


def body(app, path, method='GET'):
    return observe(app, method, path, '')[:2]


# ------------------------------------------------- demo3: pattern handling
import re
import hashlib
from clastic.route import (_compile_path_pattern, InvalidPattern, BINDING,
                           BoundRoute)

MODES = (S_REDIRECT, S_REWRITE, S_STRICT)
VALUES = ['42', '-7', '+3', '4.5', '.5', '1e3', 'abc', 'a%20b', '', 'x/y',
          '1/2/3', '%2F', '-']


def ep_params(request, shared):
    items = sorted(request.path_params.items())
    return Response('ep_params(%r, shared=%s)' % (items, shared))


def ep_ctx(request, shared):
    return 'ctx(%r)' % (sorted(request.path_params.items()),)


def paths_for(pattern):
    """Requests around *pattern*: every binding varied over VALUES."""
    parts = pattern.split('/')
    idxs = [i for i, p in enumerate(parts) if BINDING.match(p)]
    base = [('1' if i in idxs else p) for i, p in enumerate(parts)]
    out = ['/'.join(base)]
    for i in idxs:
        for v in VALUES:
            cur = list(base)
            cur[i] = v
            out.append('/'.join(cur))
    extra = []
    for p in out[:3]:
        extra += [p + '/', p.rstrip('/') or '/', p.replace('/', '//'), p + '/zzz']
    return out + extra


def catalogue(patterns):
    seen, reqs = set(), []
    for patt in patterns:
        for p in paths_for(patt):
            if not p.startswith('/'):
                p = '/' + p
            if p not in seen:
                seen.add(p)
                reqs.append(('GET', p, ''))
    reqs += [('POST', p, 'a=b') for (_, p, _) in reqs[::7]]
    return reqs + [('GET', '/', ''), ('GET', '/nope', '')]


INNER_PATTERNS = ['/', '/num/<num:int>', '/flt/<f:float>/', '/s/<s:str>/tail',
                  '/u/<u>', '/colon/<c:>', '/opt/<opt?int>', '/optb/<optb?>/',
                  '/many/<many+int>', '/manyf/<mf+float>/', '/any/<anyp*>',
                  '/two/<a:int>/<b*unicode>', '/mix/<k>/mid/<v?float>',
                  '/<first>/end', '/<catch_all*>']


def inner_level(slash):
    entries = [R(p, ep_ctx if i % 3 == 0 else ep_params,
                 'r%d.tmpl' % i if i % 3 == 0 else None)
               for i, p in enumerate(INNER_PATTERNS)]
    return Lvl('I', entries, res={'shared': 'I', 'own': 'I'}, mws=[MwA('I')],
               slash=slash, rf='I')


def scenario_patterns_under_prefix():
    prefixes = ['/p', '/p/', '/', '/deep/er/', '/<tenant>', '/v/<ver:int>/']
    n = 0
    for outer_mode in MODES:
        for inner_mode in MODES:
            for inherit in (True, False):
                prefix = prefixes[n % len(prefixes)]
                n += 1
                top = Lvl('O', [R('/own/<num:int>/', ep_params),
                                Sub(prefix, inner_level(inner_mode),
                                    inherit_slashes=inherit)],
                          res={'shared': 'O', 'own': 'O'}, mws=[MwB('O')],
                          slash=outer_mode, eh='O')
                nested, flat = compare(top, min_ok=25)
                eff = outer_mode if inherit else inner_mode
                for nbr, fbr in zip(nested.routes, flat.routes):
                    assert nbr.regex.pattern == fbr.regex.pattern
                    assert sorted(nbr.converters) == sorted(fbr.converters)
                    assert list(nbr.path_args) == list(fbr.path_args)
                    if nbr.pattern.startswith('/own/'):
                        continue
                    assert nbr.slash_mode == eff
                    assert nbr.pattern.startswith(prefix.rstrip('/'))
                    strict = nbr.regex.pattern.endswith('/*$') is False
                    assert strict == (eff == S_STRICT), (nbr.regex.pattern, eff)
    assert n == 18


def scenario_depth3_bindings():
    inner = Lvl('I', [R('/leaf/<leaf_id:int>', ep_params),
                      R('/rest/<rest*>', ep_ctx, 'rest.tmpl')],
                res={'shared': 'I'}, slash=S_STRICT, rf='I')
    mid = Lvl('M', [R('/m/<m_id?int>', ep_params),
                    Sub('/in/<in_key>/', inner, inherit_slashes=False)],
              res={'shared': 'M'}, slash=S_REWRITE)
    top = Lvl('O', [Sub('/t/<tenant:str>', mid), R('/<anything+>', ep_params)],
              res={'shared': 'O'}, slash=S_REDIRECT, eh='O')
    nested, flat = compare(top, min_ok=20)
    for app in (nested, flat):
        assert [r.pattern for r in app.routes] == [
            '/t/<tenant:str>/m/<m_id?int>',
            '/t/<tenant:str>/in/<in_key>/leaf/<leaf_id:int>',
            '/t/<tenant:str>/in/<in_key>/rest/<rest*>',
            '/<anything+>']
        assert [r.slash_mode for r in app.routes] == [S_REDIRECT] * 4
        assert body(app, '/t/acme/in/k1/leaf/12') == (
            200, "ep_params([('in_key', 'k1'), ('leaf_id', 12), ('tenant', 'acme')], shared=O)")
        assert body(app, '/t/acme/in/k1/leaf/x12') == (
            200, "ep_params([('anything', ['t', 'acme', 'in', 'k1', 'leaf', 'x12'])], shared=O)")
        assert body(app, '/t/acme/in/k1/rest') == (
            200, "RF[I](rest.tmpl) ctx([('in_key', 'k1'), ('rest', []), ('tenant', 'acme')])")
        assert body(app, '/t/acme/in/k1/rest/a/b') == (
            200, "RF[I](rest.tmpl) ctx([('in_key', 'k1'), ('rest', ['a', 'b']), ('tenant', 'acme')])")
        assert body(app, '/t/acme/m') == (
            200, "ep_params([('m_id', None), ('tenant', 'acme')], shared=O)")
        assert body(app, '/t//acme//m//7//') == (
            200, "ep_params([('m_id', 7), ('tenant', 'acme')], shared=O)")
        assert body(app, '/') == (404, 'EH[O] 404 shared=O')


def scenario_invalid_combinations():
    def inner(pattern):
        return Lvl('I', [R(pattern, ep_params)], res={'shared': 'I'})

    def top(name, prefix, pattern, **kw):
        return Lvl(name, [Sub(prefix, inner(pattern), **kw)], res={'shared': 'O'})

    expect_same_error(top('dup', '/<num>', '/x/<num:int>'), InvalidPattern,
                      'duplicate path binding num')
    expect_same_error(top('dup-deep', '/a/<k>/b/', '/<j>/<k*>'), InvalidPattern,
                      'duplicate path binding k')
    expect_same_error(top('no-slash', 'p', '/x'), InvalidPattern,
                      "must start with a forward slash (got 'p/x')")
    expect_same_error(top('double', '/p//q', '/x'), InvalidPattern,
                      "multiplecontiguous slashes (got '/p//q/x')")
    expect_same_error(top('bad-type', '/<t:bogus>', '/x'), InvalidPattern,
                      'unknown type specifier bogus')
    expect_same_error(top('bad-op', '/<t!int>/', '/x', inherit_slashes=False),
                      InvalidPattern, "unknown arity operator '!', expected one of")
    # '//' wins over everything else, then duplicate, then type, then op
    expect_same_error(top('order-1', '/q//<t:bogus>', '/<t>'), InvalidPattern,
                      'multiplecontiguous slashes')
    expect_same_error(top('order-2', '/<t>/<t!bogus>', '/x'), InvalidPattern,
                      'duplicate path binding t')
    expect_same_error(top('order-3', '/<s>/<t!bogus>/', '/x'), InvalidPattern,
                      'unknown type specifier bogus')
    expect_same_error(top('order-4', '/<s!int>/<u:bogus>', '/<t>'), InvalidPattern,
                      "unknown arity operator '!'")


def _match(regex, convs, path):
    m = regex.match(path)
    if not m:
        return None
    groups = m.groupdict()
    try:
        return sorted((k, conv(groups[k])) for k, conv in convs.items())
    except (KeyError, TypeError, ValueError) as e:
        return 'ERR:' + type(e).__name__


UNIT_PATTERNS = ['/', '/a', '/a/', '/a/b/', '/<x>', '/<x>/', '/<x:int>',
                 '/<x:float>/t', '/<x:str>', '/<x:unicode>/', '/<x:>', '/<x?>',
                 '/<x?int>/', '/<x+>', '/<x+float>', '/<x*>', '/<x*int>/',
                 '/p/<a:int>/q/<b?>', '/p/<a>/<b+int>/', '/<a>/<b>/<c>',
                 '/pre<x>', '/<x>post', '/<_priv9:int>', '/a.b-c/<d>']
UNIT_PATHS = ['/', '//', '/a', '/a/', '/a//', '//a', '/a/b', '/a/b/', '/a//b//',
              '/1', '/1/', '/-1', '/+ 1', '/1.5', '/1.5/t', '/.5/t', '/1e3//t',
              '/x y', '/1/2/3', '/1/2/3/', '/1//2', '/p/1/q', '/p/1/q/', '/p/1/q/z',
              '/p/x/q/z', '/p/z/1/2', '/p/z/1/2/', '/p/z/one', '/a/b/c', '/pre',
              '/prefoo', '/1post', '/a.b-c/d', '/aXb-c/d', '', 'a', '/a\n', u'/\xe9']


def compile_outcome(pattern, mode):
    try:
        regex, convs = _compile_path_pattern(pattern, mode)
    except Exception as e:
        return ('RAISED', type(e).__name__, str(e).split('dict_keys')[0])
    assert isinstance(convs, dict)
    return (regex.pattern, list(convs),
            [_match(regex, convs, p) for p in UNIT_PATHS])


ERROR_PATTERNS = ['', 'a', 'a//b', '/a//b', '//', '/<x>/<x>', '/<x>/<y>/<x:int>',
                  '/<x:bogus>', '/<x!>', '/<x!int>', '/<x?:int>', '/<x!bogus>',
                  '/<x>/<x!bogus>', '/<x:bogus>//', '<x>', '/<x>//<x>']


def unit_table():
    table = {}
    for mode in MODES + (None, 'other'):
        for patt in UNIT_PATTERNS + ERROR_PATTERNS:
            table[(patt, mode)] = compile_outcome(patt, mode)
    table['default-mode'] = [compile_outcome(p, S_REWRITE) ==
                             (lambda r: (r[0].pattern, list(r[1]),
                                         [_match(r[0], r[1], q) for q in UNIT_PATHS]))
                             (_compile_path_pattern(p)) for p in UNIT_PATTERNS]
    return table


GOLDEN = {'default-mode': '13e7a1d915347509',
 ('', 'other'): '77362550e446e5ad',
 ('', 'redirect'): '77362550e446e5ad',
 ('', 'rewrite'): '77362550e446e5ad',
 ('', 'strict'): '77362550e446e5ad',
 ('', None): '77362550e446e5ad',
 ('/', None): '8357ff9d4ad60fcb',
 ('/', 'other'): '8357ff9d4ad60fcb',
 ('/', 'redirect'): '8357ff9d4ad60fcb',
 ('/', 'rewrite'): '8357ff9d4ad60fcb',
 ('/', 'strict'): '0719060a5150cfe1',
 ('//', 'other'): 'facd509b4eb3e1a7',
 ('//', 'redirect'): 'facd509b4eb3e1a7',
 ('//', 'rewrite'): 'facd509b4eb3e1a7',
 ('//', 'strict'): 'facd509b4eb3e1a7',
 ('//', None): 'facd509b4eb3e1a7',
 ('/<_priv9:int>', 'other'): '1841a51712d8765d',
 ('/<_priv9:int>', 'redirect'): '1841a51712d8765d',
 ('/<_priv9:int>', 'rewrite'): '1841a51712d8765d',
 ('/<_priv9:int>', 'strict'): '3c2f2498a11a90ee',
 ('/<_priv9:int>', None): '1841a51712d8765d',
 ('/<a>/<b>/<c>', 'other'): '54c6af66ce2dc597',
 ('/<a>/<b>/<c>', 'redirect'): '54c6af66ce2dc597',
 ('/<a>/<b>/<c>', 'rewrite'): '54c6af66ce2dc597',
 ('/<a>/<b>/<c>', 'strict'): '2a18cac000f57288',
 ('/<a>/<b>/<c>', None): '54c6af66ce2dc597',
 ('/<x!>', 'other'): 'cce6a9f7f067d5a3',
 ('/<x!>', 'redirect'): 'cce6a9f7f067d5a3',
 ('/<x!>', 'rewrite'): 'cce6a9f7f067d5a3',
 ('/<x!>', 'strict'): 'cce6a9f7f067d5a3',
 ('/<x!>', None): 'cce6a9f7f067d5a3',
 ('/<x!bogus>', 'other'): 'e8d11d9373a2e958',
 ('/<x!bogus>', 'redirect'): 'e8d11d9373a2e958',
 ('/<x!bogus>', 'rewrite'): 'e8d11d9373a2e958',
 ('/<x!bogus>', 'strict'): 'e8d11d9373a2e958',
 ('/<x!bogus>', None): 'e8d11d9373a2e958',
 ('/<x!int>', 'other'): 'cce6a9f7f067d5a3',
 ('/<x!int>', 'redirect'): 'cce6a9f7f067d5a3',
 ('/<x!int>', 'rewrite'): 'cce6a9f7f067d5a3',
 ('/<x!int>', 'strict'): 'cce6a9f7f067d5a3',
 ('/<x!int>', None): 'cce6a9f7f067d5a3',
 ('/<x*>', None): 'c5e3e57f7853df95',
 ('/<x*>', 'other'): 'c5e3e57f7853df95',
 ('/<x*>', 'redirect'): 'c5e3e57f7853df95',
 ('/<x*>', 'rewrite'): 'c5e3e57f7853df95',
 ('/<x*>', 'strict'): 'd96b63eecd079770',
 ('/<x*int>/', None): 'a750111a1c8ae58b',
 ('/<x*int>/', 'other'): 'a750111a1c8ae58b',
 ('/<x*int>/', 'redirect'): 'a750111a1c8ae58b',
 ('/<x*int>/', 'rewrite'): 'a750111a1c8ae58b',
 ('/<x*int>/', 'strict'): '40414cac6fa401a6',
 ('/<x+>', None): '33f45eb2dbbad28b',
 ('/<x+>', 'other'): '33f45eb2dbbad28b',
 ('/<x+>', 'redirect'): '33f45eb2dbbad28b',
 ('/<x+>', 'rewrite'): '33f45eb2dbbad28b',
 ('/<x+>', 'strict'): 'e99e5192c9105bdb',
 ('/<x+float>', None): 'c04a2b61cea5d15b',
 ('/<x+float>', 'other'): 'c04a2b61cea5d15b',
 ('/<x+float>', 'redirect'): 'c04a2b61cea5d15b',
 ('/<x+float>', 'rewrite'): 'c04a2b61cea5d15b',
 ('/<x+float>', 'strict'): 'beb43b85caa64122',
 ('/<x:>', 'other'): '20dd2b78585c230d',
 ('/<x:>', 'redirect'): '20dd2b78585c230d',
 ('/<x:>', 'rewrite'): '20dd2b78585c230d',
 ('/<x:>', 'strict'): '2afa3476d30497ab',
 ('/<x:>', None): '20dd2b78585c230d',
 ('/<x:bogus>', 'other'): 'e8d11d9373a2e958',
 ('/<x:bogus>', 'redirect'): 'e8d11d9373a2e958',
 ('/<x:bogus>', 'rewrite'): 'e8d11d9373a2e958',
 ('/<x:bogus>', 'strict'): 'e8d11d9373a2e958',
 ('/<x:bogus>', None): 'e8d11d9373a2e958',
 ('/<x:bogus>//', 'other'): '1dae2e685f90ebff',
 ('/<x:bogus>//', 'redirect'): '1dae2e685f90ebff',
 ('/<x:bogus>//', 'rewrite'): '1dae2e685f90ebff',
 ('/<x:bogus>//', 'strict'): '1dae2e685f90ebff',
 ('/<x:bogus>//', None): '1dae2e685f90ebff',
 ('/<x:float>/t', 'other'): '897dc8b80bc01f7c',
 ('/<x:float>/t', 'redirect'): '897dc8b80bc01f7c',
 ('/<x:float>/t', 'rewrite'): '897dc8b80bc01f7c',
 ('/<x:float>/t', 'strict'): '277628a94c3d7cb3',
 ('/<x:float>/t', None): '897dc8b80bc01f7c',
 ('/<x:int>', 'other'): 'd99aaf007514c6f6',
 ('/<x:int>', 'redirect'): 'd99aaf007514c6f6',
 ('/<x:int>', 'rewrite'): 'd99aaf007514c6f6',
 ('/<x:int>', 'strict'): 'def6849fc08f1dca',
 ('/<x:int>', None): 'd99aaf007514c6f6',
 ('/<x:str>', 'other'): '20dd2b78585c230d',
 ('/<x:str>', None): '20dd2b78585c230d',
 ('/<x:str>', 'redirect'): '20dd2b78585c230d',
 ('/<x:str>', 'rewrite'): '20dd2b78585c230d',
 ('/<x:str>', 'strict'): '2afa3476d30497ab',
 ('/<x:unicode>/', 'other'): '20dd2b78585c230d',
 ('/<x:unicode>/', 'redirect'): '20dd2b78585c230d',
 ('/<x:unicode>/', 'rewrite'): '20dd2b78585c230d',
 ('/<x:unicode>/', 'strict'): '037fe40b01d6d109',
 ('/<x:unicode>/', None): '20dd2b78585c230d',
 ('/<x>', 'other'): '20dd2b78585c230d',
 ('/<x>', 'redirect'): '20dd2b78585c230d',
 ('/<x>', 'rewrite'): '20dd2b78585c230d',
 ('/<x>', 'strict'): '2afa3476d30497ab',
 ('/<x>', None): '20dd2b78585c230d',
 ('/<x>/', 'other'): '20dd2b78585c230d',
 ('/<x>/', 'redirect'): '20dd2b78585c230d',
 ('/<x>/', 'rewrite'): '20dd2b78585c230d',
 ('/<x>/', 'strict'): '037fe40b01d6d109',
 ('/<x>/', None): '20dd2b78585c230d',
 ('/<x>//<x>', 'other'): '4f6d5940846be84c',
 ('/<x>//<x>', 'redirect'): '4f6d5940846be84c',
 ('/<x>//<x>', 'rewrite'): '4f6d5940846be84c',
 ('/<x>//<x>', 'strict'): '4f6d5940846be84c',
 ('/<x>//<x>', None): '4f6d5940846be84c',
 ('/<x>/<x!bogus>', 'other'): '6448ca5060d6f45b',
 ('/<x>/<x!bogus>', 'redirect'): '6448ca5060d6f45b',
 ('/<x>/<x!bogus>', 'rewrite'): '6448ca5060d6f45b',
 ('/<x>/<x!bogus>', 'strict'): '6448ca5060d6f45b',
 ('/<x>/<x!bogus>', None): '6448ca5060d6f45b',
 ('/<x>/<x>', 'other'): '6448ca5060d6f45b',
 ('/<x>/<x>', 'redirect'): '6448ca5060d6f45b',
 ('/<x>/<x>', 'rewrite'): '6448ca5060d6f45b',
 ('/<x>/<x>', 'strict'): '6448ca5060d6f45b',
 ('/<x>/<x>', None): '6448ca5060d6f45b',
 ('/<x>/<y>/<x:int>', 'other'): '6448ca5060d6f45b',
 ('/<x>/<y>/<x:int>', 'redirect'): '6448ca5060d6f45b',
 ('/<x>/<y>/<x:int>', 'rewrite'): '6448ca5060d6f45b',
 ('/<x>/<y>/<x:int>', 'strict'): '6448ca5060d6f45b',
 ('/<x>/<y>/<x:int>', None): '6448ca5060d6f45b',
 ('/<x>post', 'other'): '20dd2b78585c230d',
 ('/<x>post', 'redirect'): '20dd2b78585c230d',
 ('/<x>post', 'rewrite'): '20dd2b78585c230d',
 ('/<x>post', 'strict'): '2afa3476d30497ab',
 ('/<x>post', None): '20dd2b78585c230d',
 ('/<x?:int>', 'other'): '3b1f6cfac042c0ca',
 ('/<x?:int>', 'redirect'): '3b1f6cfac042c0ca',
 ('/<x?:int>', 'rewrite'): '3b1f6cfac042c0ca',
 ('/<x?:int>', 'strict'): '3b1f6cfac042c0ca',
 ('/<x?:int>', None): '3b1f6cfac042c0ca',
 ('/<x?>', 'other'): '3ef0494ddf626da2',
 ('/<x?>', 'redirect'): '3ef0494ddf626da2',
 ('/<x?>', 'rewrite'): '3ef0494ddf626da2',
 ('/<x?>', 'strict'): '57aff5567a7eeb8e',
 ('/<x?>', None): '3ef0494ddf626da2',
 ('/<x?int>/', 'other'): '54119b6c266a35c5',
 ('/<x?int>/', 'redirect'): '54119b6c266a35c5',
 ('/<x?int>/', 'rewrite'): '54119b6c266a35c5',
 ('/<x?int>/', 'strict'): '8c9a22213df47853',
 ('/<x?int>/', None): '54119b6c266a35c5',
 ('/a', 'other'): 'a1cf2f2a2045678c',
 ('/a', 'redirect'): 'a1cf2f2a2045678c',
 ('/a', 'rewrite'): 'a1cf2f2a2045678c',
 ('/a', 'strict'): 'b312b4d8ac67d288',
 ('/a', None): 'a1cf2f2a2045678c',
 ('/a.b-c/<d>', 'other'): '037b5c747f0b6c63',
 ('/a.b-c/<d>', 'redirect'): '037b5c747f0b6c63',
 ('/a.b-c/<d>', 'rewrite'): '037b5c747f0b6c63',
 ('/a.b-c/<d>', 'strict'): '0c80c282e2a25dd0',
 ('/a.b-c/<d>', None): '037b5c747f0b6c63',
 ('/a/', 'other'): 'a1cf2f2a2045678c',
 ('/a/', 'redirect'): 'a1cf2f2a2045678c',
 ('/a/', 'rewrite'): 'a1cf2f2a2045678c',
 ('/a/', 'strict'): 'aaf54a14731ac14e',
 ('/a/', None): 'a1cf2f2a2045678c',
 ('/a//b', 'other'): 'e292d28ff06404b3',
 ('/a//b', 'redirect'): 'e292d28ff06404b3',
 ('/a//b', 'rewrite'): 'e292d28ff06404b3',
 ('/a//b', 'strict'): 'e292d28ff06404b3',
 ('/a//b', None): 'e292d28ff06404b3',
 ('/a/b/', 'other'): 'a2c6e286b59352b3',
 ('/a/b/', 'redirect'): 'a2c6e286b59352b3',
 ('/a/b/', 'rewrite'): 'a2c6e286b59352b3',
 ('/a/b/', 'strict'): '8a50f3551d652fa4',
 ('/a/b/', None): 'a2c6e286b59352b3',
 ('/p/<a:int>/q/<b?>', 'other'): 'fe71393bbb24df5b',
 ('/p/<a:int>/q/<b?>', 'redirect'): 'fe71393bbb24df5b',
 ('/p/<a:int>/q/<b?>', 'rewrite'): 'fe71393bbb24df5b',
 ('/p/<a:int>/q/<b?>', 'strict'): '7895e5d7995be83a',
 ('/p/<a:int>/q/<b?>', None): 'fe71393bbb24df5b',
 ('/p/<a>/<b+int>/', 'other'): 'd55dba64b6033e0c',
 ('/p/<a>/<b+int>/', 'redirect'): 'd55dba64b6033e0c',
 ('/p/<a>/<b+int>/', 'rewrite'): 'd55dba64b6033e0c',
 ('/p/<a>/<b+int>/', 'strict'): 'afb54fd9b5cb2022',
 ('/p/<a>/<b+int>/', None): 'd55dba64b6033e0c',
 ('/pre<x>', 'other'): 'c29c298471ccc5d2',
 ('/pre<x>', 'redirect'): 'c29c298471ccc5d2',
 ('/pre<x>', 'rewrite'): 'c29c298471ccc5d2',
 ('/pre<x>', 'strict'): '9b2eb06371ae9723',
 ('/pre<x>', None): 'c29c298471ccc5d2',
 ('<x>', 'other'): 'b26445ad4676ec64',
 ('<x>', 'redirect'): 'b26445ad4676ec64',
 ('<x>', 'rewrite'): 'b26445ad4676ec64',
 ('<x>', 'strict'): 'b26445ad4676ec64',
 ('<x>', None): 'b26445ad4676ec64',
 ('a', 'other'): 'e991c00d000f1b85',
 ('a', 'redirect'): 'e991c00d000f1b85',
 ('a', 'rewrite'): 'e991c00d000f1b85',
 ('a', 'strict'): 'e991c00d000f1b85',
 ('a', None): 'e991c00d000f1b85',
 ('a//b', 'other'): '5bc550912bfc9133',
 ('a//b', 'redirect'): '5bc550912bfc9133',
 ('a//b', 'rewrite'): '5bc550912bfc9133',
 ('a//b', 'strict'): '5bc550912bfc9133',
 ('a//b', None): '5bc550912bfc9133'}


def digest(outcome):
    return hashlib.sha1(repr(outcome).encode('utf8')).hexdigest()[:16]


def scenario_unit_golden():
    # GOLDEN: digests of the outcomes on the reference implementation
    # (regenerate with --print-golden)
    table = unit_table()
    assert set(table) == set(GOLDEN) and len(GOLDEN) == 201
    for key in GOLDEN:
        assert digest(table[key]) == GOLDEN[key], (key, table[key])
    assert all(table['default-mode'])
    # a few of them spelled out
    assert table[('/p/<a:int>/q/<b?>', S_STRICT)][0] == (
        '^/p(?P<a>(/[+-]?\\ *[0-9]+))/q(?P<b>(/[^/]+)?)$')
    assert table[('/p/<a:int>/q/<b?>', S_REDIRECT)][0] == (
        '^/+p(?P<a>(/+[+-]?\\ *[0-9]+))/+q(?P<b>(/+[^/]+)?)/*$')
    assert table[('/a/', S_REWRITE)][0] == '^/+a/*$'
    assert table[('/a/', S_STRICT)][0] == '^/a/$'
    assert table[('/', S_STRICT)][0] == '^/$'
    assert table[('/', S_REDIRECT)][0] == '^/*$'
    assert table[('/<x>/<x!bogus>', S_REWRITE)] == (
        'RAISED', 'InvalidPattern', 'duplicate path binding x')
    assert table[('/<x!bogus>', S_REWRITE)] == (
        'RAISED', 'InvalidPattern', 'unknown type specifier bogus')
    assert table[('/<x!int>', S_STRICT)][:2] == ('RAISED', 'InvalidPattern')
    assert table[('', S_STRICT)][:2] == ('RAISED', 'InvalidPattern')
    # each call hands out fresh objects
    r1, c1 = _compile_path_pattern('/<x:int>', S_STRICT)
    r2, c2 = _compile_path_pattern('/<x:int>', S_STRICT)
    assert c1 is not c2 and c1['x'] is not c2['x'] and c1['x']('/5') == 5


def main():
    scenario_patterns_under_prefix()
    scenario_depth3_bindings()
    scenario_invalid_combinations()
    if '--print-golden' in sys.argv:
        import pprint
        pprint.pprint(dict((k, digest(v)) for k, v in unit_table().items()))
        return 0
    scenario_unit_golden()
    print('PASS')
    return 0


if __name__ == '__main__':
    sys.exit(main())
