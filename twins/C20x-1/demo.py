# -*- coding: utf-8 -*-
"""Demo for property C20: the Flaw failsafe page works for any start-up
error text.  Prints PASS and exits 0 on success."""
import os
import sys
import random
import traceback

sys.path.insert(0, os.path.dirname(os.path.abspath(__file__)))

from werkzeug.test import Client
from werkzeug.wrappers import Response

from clastic import flaw, server


def esc(text):
    return (text.replace('&', '&amp;').replace('<', '&lt;')
            .replace('>', '&gt;').replace('"', '&quot;')
            .replace("'", '&#x27;'))


def fetch(app, path='/', method='GET'):
    resp = Client(app, Response).open(path, method=method)
    return resp.status_code, resp.get_data(as_text=True)


def make_tb(exc, depth):
    def rec(n):
        if n <= 0:
            raise exc
        return rec(n - 1)
    try:
        rec(depth)
    except BaseException:
        return traceback.format_exc()


PATHS = ['/', '/a', '/a/b/c/', '/favicon.ico', '/x%3Cy', '/clastic_assetsX']

# ---------------------------------------------------------------- real tracebacks
EXCS = [ValueError('bad <value> & "stuff"'), KeyError('k'), ZeroDivisionError('division by zero'),
        RuntimeError('{tb_str} {#parsed_err}x{/parsed_err}'), TypeError("can't 'do'"),
        NameError("name 'plarp' is not defined"), OSError(2, 'No such file'),
        IndexError('list index out of range'), AttributeError('a: b: c')]
for exc in EXCS:
    for depth in (0, 1, 5):
        tb = make_tb(exc, depth)
        files = ['/tmp/<b>x</b>.py', '/tmp/a&b.py', '/srv/app/"q".py', '/z.py']
        app = flaw.create_app(tb, list(files))
        for path in PATHS:
            code, body = fetch(app, path)
            assert code == 200, (code, path)
            assert esc(tb) in body, tb
            for fn in files:
                assert esc(fn) in body, fn
            last = tb.splitlines()[-1]
            etype, _, emsg = last.partition(':')
            assert 'parsed-error-h2' in body
            assert 'unparsed-error-h2' not in body
            assert '<h2 class="parsed-error-h2">%s<p>%s</p></h2>' % (esc(etype), esc(emsg)) in body, body
            assert "Oh, Flaw'd: %s in " % esc(etype) in body
        parsed = flaw._ParsedTB.from_string(tb)
        assert parsed.exc_type == etype and parsed.exc_msg == emsg
        assert len(parsed.frames) >= 1, (len(parsed.frames), depth)
        assert parsed.source_file == __file__ or parsed.source_file.endswith('.py')
        assert all(set(f) == {'filepath', 'lineno', 'funcname', 'source_line'} for f in parsed.frames)
        assert parsed.to_dict() == {'exc_type': etype, 'exc_msg': emsg, 'frames': parsed.frames}
        # bytes input is decoded
        pb = flaw._ParsedTB.from_string(tb.encode('utf-8'))
        assert pb.to_dict() == parsed.to_dict()

# ---------------------------------------------------------------- "Exception ... ignored" trailers
tb = make_tb(ValueError('v'), 1)
tb_ign = tb + 'Exception AttributeError: "x" in <bound method> ignored\nException KeyError: 1 ignored\n'
p = flaw._ParsedTB.from_string(tb_ign)
assert (p.exc_type, p.exc_msg) == ('ValueError', ' v'), (p.exc_type, p.exc_msg)
only_ign = 'Traceback (most recent call last):\nException x ignored'
p = flaw._ParsedTB.from_string(only_ign)
assert (p.exc_type, p.exc_msg, p.frames) == ('Traceback (most recent call last)', '', [])
# no line looks like "Type: msg" -> the first line's partition is what remains
p = flaw._ParsedTB.from_string('Traceback (most recent call last):\n  x\n  y\nno colon here')
assert (p.exc_type, p.exc_msg) == ('Traceback (most recent call last)', ''), (p.exc_type, p.exc_msg)
assert p.frames == [] and p.source_file is None

# ---------------------------------------------------------------- syntax error reports
se = '  File "/tmp/mod.py", line 3\n    def f(:\n          ^\nSyntaxError: invalid syntax\n'
p = flaw._ParsedTB.from_string(se)
assert (p.exc_type, p.exc_msg) == ('SyntaxError', ' invalid syntax')
assert p.frames == [{'filepath': '/tmp/mod.py', 'lineno': '3', 'source_line': 'def f(:'}], p.frames
code, body = fetch(flaw.create_app(se, None), '/q')
assert code == 200 and esc(se) in body and 'SyntaxError' in body and 'parsed-error-h2' in body
for bad in ['', '   ', '\n\n', 'x', 'a\nb']:
    try:
        flaw._ParsedTB.from_string(bad)
    except (IndexError, ValueError):
        pass
    else:
        raise AssertionError(bad)
try:
    flaw._ParsedTB.from_string(None)
except AttributeError:
    pass
else:
    raise AssertionError('None')

# ---------------------------------------------------------------- arbitrary text
rnd = random.Random(20)
TEXTS = ['', ' ', '\n', 'plain text', '<script>alert(1)</script>', '{tb_str}', '{#mon_files}{.}{/mon_files}',
         '{>"flaw_tmpl"/}', '{~lb}{!c!}{@eq key=1 value=1}{/eq}', 'a: b', 'Traceback (most recent call last):',
         'Traceback (most recent call last):\n', make_tb(ValueError('x'), 2)[:40],
         make_tb(ValueError('x'), 2) * 2, u'☃ \xe9: snow', '\x00\x01\x02\x7f', 'line1\r\nline2\r\n',
         '&amp; &lt;', "'\"", '\n\n\ntrailing\n\n']
for _ in range(30):
    TEXTS.append(''.join(chr(rnd.choice([rnd.randrange(32, 127), rnd.randrange(1, 32), rnd.randrange(160, 0x2000)]))
                         for _ in range(rnd.randrange(0, 80))))
FILE_LISTS = [None, [], ['/a.py'], ['/tmp/f%03d.py' % i for i in range(200)], ['<i>.py', '&.py', '{x}.py'],
              [os.__file__, flaw.__file__, '/mine/app.py']]
for i, text in enumerate(TEXTS):
    files = FILE_LISTS[i % len(FILE_LISTS)]
    files = None if files is None else list(files)
    app = flaw.create_app(text, files)
    for path in PATHS[:3]:
        for method in ('GET', 'POST'):
            code, body = fetch(app, path, method)
            assert code == 200, (code, text)
            assert '<pre>%s</pre>' % esc(text) in body, (text, body)
            for fn in (files or []):
                assert '<li>%s</li>' % esc(fn) in body
            lines = text.splitlines()
            if 'unparsed-error-h2' in body:
                exp = lines[-1] if lines else 'Unknown error'
                assert '<h2 class="unparsed-error-h2">%s</h2>' % esc(exp) in body

# non-text inputs
for text in (None, b'bytes <here>', b'', 0, 12.5, ['x'], {'a': 1}):
    app = flaw.create_app(text, ['/a<b>.py'])
    code, body = fetch(app, '/anything/at/all')
    assert code == 200 and '/a&lt;b&gt;.py' in body, (text, body)
    if text is None or isinstance(text, (int, float, list, dict)) or text == b'':
        if not text:
            assert 'Unknown error' in body, (text, body)
code, body = fetch(flaw.create_app(make_tb(ValueError('vv'), 0).encode('utf-8'), None))
assert code == 200 and 'parsed-error-h2' in body and 'ValueError' in body

# ---------------------------------------------------------------- monitored file handling
files = ['/long/long/name.py', '/b.py', '/mid/c.py']
app = flaw.create_app('x', files)
assert files == ['/b.py', '/mid/c.py', '/long/long/name.py']          # sorted in place
assert app.resources['all_mon_files'] is files
assert app.resources['tb_str'] == 'x' and app.resources['parsed_error'] == {}
assert app.resources['mon_files'] == files and app.resources['mon_files'] is not files
for falsy in (None, [], ()):
    r = flaw._filter_site_files(falsy)
    assert r == [] and type(r) is list and r is not falsy
mixed = [os.__file__, '/mine/app.py', flaw.__file__, '/other.py', os.path.dirname(flaw.__file__) + '_sibling/x.py']
import werkzeug
mixed.append(werkzeug.__file__)
assert flaw._filter_site_files(mixed) == ['/mine/app.py', '/other.py']
assert flaw._filter_site_files(tuple(mixed)) == ['/mine/app.py', '/other.py']
assert flaw._ASSET_PATH == os.path.join(os.path.dirname(os.path.abspath(flaw.__file__)), '_clastic_assets')
code, body = fetch(flaw.create_app('x'), '/clastic_assets/common.css')
assert code == 200 and 'Whopps' not in body
assert [r.pattern for r in flaw.create_app('x').routes][0] == '/'

# ---------------------------------------------------------------- server restart loop (faked children)
class FakeStderr(object):
    def __init__(self, lines):
        self.lines = list(lines)

    def readline(self):
        return self.lines.pop(0) if self.lines else b''


class FakeProc(object):
    def __init__(self, code, lines):
        self.code, self.stderr, self.polls, self.returncode = code, FakeStderr(lines), 0, None

    def poll(self):
        self.polls += 1
        if self.polls > 1:
            self.returncode = self.code
        return self.returncode


class FakeServer(object):
    def __init__(self):
        self.calls = []

    def shutdown(self):
        self.calls.append('shutdown')

    def server_close(self):
        self.calls.append('close')


def run_loop(children, loop_effects, use_error_func=True):
    children, loop_effects = list(children), list(loop_effects)
    log = {'popen': [], 'errors': [], 'servers': [], 'loops': []}

    def fake_popen(args, env=None, stderr=None):
        log['popen'].append((list(args), env.get('WERKZEUG_RUN_MAIN'), stderr))
        code, lines = children.pop(0)
        return FakeProc(code, lines)

    def fake_loop(files, interval):
        log['loops'].append((list(files), interval))
        eff = loop_effects.pop(0)
        if eff is not None:
            raise eff

    def error_func(tb_str, mon):
        srv = FakeServer()
        log['errors'].append((tb_str, list(mon)))
        log['servers'].append(srv)
        return srv

    saved = (server.subprocess.Popen, server.reloader_loop, server.enable_tty_echo, sys.stderr, sys.stdout)
    server.subprocess.Popen, server.reloader_loop, server.enable_tty_echo = fake_popen, fake_loop, lambda: None
    sys.stderr = sys.stdout = open(os.devnull, 'w')
    try:
        ret = server.restart_with_reloader(error_func if use_error_func else None)
    finally:
        sys.stderr.close()
        (server.subprocess.Popen, server.reloader_loop, server.enable_tty_echo, sys.stderr, sys.stdout) = saved
    assert not children, children
    return ret, log


MON = server._MON_PREFIX.encode() + b"['/m1.py', '/m<2>.py']\n"
TBL = [b'Traceback (most recent call last):\n', b'  File "a.py", line 1, in <module>\n', b'    x\n', b'NameError: x\n']
TBS = b''.join(TBL).decode()
ret, log = run_loop([(3, []), (1, TBL + [MON]), (0, [])], [SystemExit(3)])
assert ret == 0 and len(log['popen']) == 3, (ret, log)
assert log['errors'] == [(TBS, ['/m1.py', '/m<2>.py'])] and log['loops'] == [(['/m1.py', '/m<2>.py'], 1)]
assert log['servers'][0].calls == ['shutdown', 'close']
assert all(p[1] == 'true' and p[2] is server.subprocess.PIPE and p[0][0] == sys.executable for p in log['popen'])
for effect, expected in [(None, 0), (KeyboardInterrupt(), 0), (SystemExit(5), 5), (SystemExit(None), None),
                         (SystemExit(0), 0), (SystemExit('3'), '3')]:
    ret, log = run_loop([(1, TBL)], [effect])
    assert ret == expected and log['servers'][0].calls == ['shutdown', 'close'], (effect, ret)
    assert log['errors'] == [(TBS, [])]
try:
    run_loop([(1, TBL)], [ValueError('boom')])
except ValueError:
    pass
else:
    raise AssertionError('ValueError must propagate')
assert run_loop([(1, [])], [])[0] == 1                      # exit 1 but nothing on stderr
assert run_loop([(1, [MON])], [])[0] == 1                   # only the monitor line: buffer still empty
assert run_loop([(1, TBL)], [], use_error_func=False)[0] == 1
for code in (0, 2, 4, -9, 127):
    ret, log = run_loop([(code, TBL)], [])
    assert ret == code and log['errors'] == []
ret, log = run_loop([(3, TBL), (3, []), (7, [])], [])
assert ret == 7 and len(log['popen']) == 3
many = [('line %d\n' % i).encode() for i in range(server._STDERR_BUFF_SIZE + 50)]
ret, log = run_loop([(1, many)], [None])
assert log['errors'][0][0] == ''.join('line %d\n' % i for i in range(50, server._STDERR_BUFF_SIZE + 50))

print('PASS')
