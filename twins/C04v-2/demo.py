# -*- coding: utf-8 -*-
"""demo2: make_middleware_chain -- per-phase availability of names, which
phase's complaint wins, exact messages, and that accepted stacks run."""
import os
import sys

sys.path.insert(0, os.path.dirname(os.path.abspath(__file__)))

from werkzeug.wrappers import Response

from clastic import Application, Route, SubApplication, Middleware, render_basic
from clastic.middleware.core import make_middleware_chain
from clastic.route import RESERVED_ARGS, _REQUEST_BUILTINS

CHECKS = [0]


def expect(exc_type, func, *fragments):
    CHECKS[0] += 1
    try:
        func()
    except Exception as e:
        assert type(e) is exc_type, 'expected %s, got %r' % (exc_type.__name__, e)
        for frag in fragments:
            assert frag in str(e), (frag, str(e))
        return e
    raise AssertionError('expected %s, nothing raised' % exc_type.__name__)


def ok(cond, msg=''):
    CHECKS[0] += 1
    assert cond, msg


def make_mw(name, request=None, endpoint=None, render=None,
            provides=(), endpoint_provides=(), render_provides=()):
    ns = {'provides': provides, 'endpoint_provides': endpoint_provides,
          'render_provides': render_provides}
    for hook_name, hook in (('request', request), ('endpoint', endpoint), ('render', render)):
        if hook is not None:
            ns[hook_name] = hook
    return type(name, (Middleware,), ns)()


def func_taking(*names, **kw):
    """Build ``def f(<names>): return <ret>`` with real parameter names."""
    ret = kw.pop('ret', '{}')
    ns = {'Response': Response}
    exec('def f(%s):\n    return %s' % (', '.join(names), ret), ns)
    return ns['f']


def ep(request):
    return {'hello': 'world'}


def render(context):
    return Response(repr(sorted(context.items())))


PRE = set(RESERVED_ARGS) | set(['res', 'urlarg'])

# ----------------------------------------------------------- direct calls
# every phase can use request builtins, resources and url args
for name in tuple(_REQUEST_BUILTINS) + ('res', 'urlarg'):
    mw = make_mw('AllPhases',
                 request=func_taking('self', 'next', name, ret='next()'),
                 endpoint=func_taking('self', 'next', name, ret='next()'),
                 render=func_taking('self', 'next', name, ret='next()'))
    chain = make_middleware_chain([mw], func_taking(name), func_taking('context', name), PRE)
    ok(callable(chain))

# context: only the render phase
ctx_in = {
    'request': make_mw('CtxReq', request=func_taking('self', 'next', 'context', ret='next()')),
    'endpoint': make_mw('CtxEp', endpoint=func_taking('self', 'next', 'context', ret='next()')),
}
for phase, mw in ctx_in.items():
    expect(NameError, lambda: make_middleware_chain([mw], ep, render, PRE),
           "unresolved %s middleware arguments: ['context']" % phase)
expect(NameError, lambda: make_middleware_chain([], func_taking('context'), render, PRE),
       "unresolved endpoint middleware arguments: ['context']")
ok(callable(make_middleware_chain(
    [make_mw('CtxRn', render=func_taking('self', 'next', 'context', ret='next()'))],
    ep, render, PRE)))
# ... even when the caller forgets to list context / lists only some names
ok(callable(make_middleware_chain([], ep, render, ['request'])))
ok(callable(make_middleware_chain([], func_taking(), render, ())))
expect(NameError, lambda: make_middleware_chain([], ep, render, ()),
       "unresolved endpoint middleware arguments: ['request']")
expect(NameError, lambda: make_middleware_chain([], func_taking('res'), render, ['request']),
       "unresolved endpoint middleware arguments: ['res']")

# next: never in endpoint or render, whatever else is wrong; endpoint is
# looked at first
bad_ep = func_taking('next', 'nobody')
bad_rn = func_taking('next', 'context')
e = expect(NameError, lambda: make_middleware_chain([], bad_ep, bad_rn, PRE),
           "argument 'next' reserved for middleware use only")
ok(repr(bad_ep) in str(e) and repr(bad_rn) not in str(e), str(e))
e = expect(NameError, lambda: make_middleware_chain([], ep, bad_rn, PRE),
           "argument 'next' reserved for middleware use only")
ok(repr(bad_rn) in str(e))
e = expect(NameError, lambda: make_middleware_chain([ctx_in['request']], bad_ep, render, PRE),
           "argument 'next' reserved")
# 'next' being preprovided does not make it usable
expect(NameError, lambda: make_middleware_chain([], func_taking('request', 'next=None'), render, PRE),
       "argument 'next' reserved")

# which complaint wins: endpoint, then render, then request
needs = lambda phase: make_mw('Needs_' + phase,
                              **{phase: func_taking('self', 'next', 'missing_' + phase, ret='next()')})
all_bad = [needs('request'), needs('endpoint'), needs('render')]
expect(NameError, lambda: make_middleware_chain(all_bad, ep, render, PRE),
       "unresolved endpoint middleware arguments: ['missing_endpoint']")
expect(NameError, lambda: make_middleware_chain([all_bad[0], all_bad[2]], ep, render, PRE),
       "unresolved render middleware arguments: ['missing_render']")
expect(NameError, lambda: make_middleware_chain([all_bad[0]], ep, render, PRE),
       "unresolved request middleware arguments: ['missing_request']")
# the endpoint / render functions themselves count for their phase
expect(NameError, lambda: make_middleware_chain([all_bad[0]], func_taking('missing_ep'), render, PRE),
       "unresolved endpoint middleware arguments: ['missing_ep']")
expect(NameError, lambda: make_middleware_chain([all_bad[0]], ep, func_taking('context', 'missing_rn'), PRE),
       "unresolved render middleware arguments: ['missing_rn']")
# two unresolved names: both reported
e = expect(NameError, lambda: make_middleware_chain([], func_taking('m1', 'm2'), render, PRE),
           'unresolved endpoint middleware arguments: [')
ok("'m1'" in str(e) and "'m2'" in str(e), str(e))
# defaulted arguments are never unresolved
ok(callable(make_middleware_chain([], func_taking('m1=1', 'm2=None'), render, PRE)))

# provides flow forward through phases, never backwards
prov_req = make_mw('ProvReq', request=func_taking('self', 'next', ret="next(pr='pr')"), provides=('pr',))
prov_ep = make_mw('ProvEp', endpoint=func_taking('self', 'next', ret="next(pe='pe')"), endpoint_provides=('pe',))
prov_rn = make_mw('ProvRn', render=func_taking('self', 'next', ret="next(pn='pn')"), render_provides=('pn',))
ok(callable(make_middleware_chain([prov_req, prov_ep, prov_rn], func_taking('pr', 'pe'),
                                  func_taking('context', 'pr', 'pn'), PRE)))
expect(NameError, lambda: make_middleware_chain([prov_req, prov_ep, prov_rn], func_taking('pn'), render, PRE),
       "unresolved endpoint middleware arguments: ['pn']")
# endpoint_provides are for the endpoint chain only
expect(NameError, lambda: make_middleware_chain([prov_req, prov_ep, prov_rn], ep,
                                                func_taking('context', 'pe'), PRE),
       "unresolved render middleware arguments: ['pe']")
expect(NameError, lambda: make_middleware_chain(
    [prov_ep, make_mw('ReqWantsPe', request=func_taking('self', 'next', 'pe', ret='next()'))],
    ep, render, PRE), "unresolved request middleware arguments: ['pe']")
# a provides without the hook of that phase is not chained in
lazy = make_mw('Lazy', provides=('lz',))
expect(NameError, lambda: make_middleware_chain([lazy], func_taking('lz'), render, PRE),
       "unresolved endpoint middleware arguments: ['lz']")

# ----------------------------------------------------- accepted stacks run
calls = []


def tracer(label, ret):
    def hook(self, next, request):
        calls.append(label)
        return next(**ret)
    return hook


t1 = make_mw('T1', request=tracer('t1.req', {'a': 1}), endpoint=tracer('t1.ep', {}),
             render=tracer('t1.rn', {}), provides=('a',))
t2 = make_mw('T2', request=tracer('t2.req', {}), endpoint=tracer('t2.ep', {'b': 2}),
             render=tracer('t2.rn', {'c': 3}), endpoint_provides=('b',), render_provides=('c',))


def ep_ab(a, b, res, urlarg='dflt'):
    calls.append('ep')
    return {'a': a, 'b': b, 'res': res, 'urlarg': urlarg}


def render_c(context, c, a):
    calls.append('render')
    return dict(context, c=c, a2=a)


chain = make_middleware_chain([t1, t2], ep_ab, render_c, PRE)
out = chain(request='REQ', res='RES', urlarg='U')
ok(out == {'a': 1, 'b': 2, 'res': 'RES', 'urlarg': 'U', 'c': 3, 'a2': 1}, out)
ok(calls == ['t1.req', 't2.req', 't1.ep', 't2.ep', 'ep', 't1.rn', 't2.rn', 'render'], calls)

# a Response from the endpoint skips render
resp_ep = func_taking('request', ret="Response('direct')")
del calls[:]
chain = make_middleware_chain([t1, t2], resp_ep, render_c, PRE)
out = chain(request='REQ')
ok(isinstance(out, Response) and out.data == b'direct')
ok(calls == ['t1.req', 't2.req', 't1.ep', 't2.ep'], calls)

# ----------------------------------------------- through Application / embed
expect(NameError, lambda: Application([('/', ep, render)], middlewares=all_bad),
       "unresolved endpoint middleware arguments: ['missing_endpoint']")
expect(NameError, lambda: Application([Route('/', ep, render, middlewares=[all_bad[2]])]),
       "unresolved render middleware arguments: ['missing_render']")
inner = Application([('/', func_taking('res'), render)], resources={'res': 1})
expect(NameError, lambda: Application([Route('/', func_taking('res'), render)]),
       "unresolved endpoint middleware arguments: ['res']")
outer = Application([SubApplication('/sub', inner)])  # resources travel with the route
ok(outer.get_local_client().get('/sub/').status_code == 200)
expect(NameError, lambda: Application([('/sub', inner)], middlewares=[ctx_in['request']]),
       "unresolved request middleware arguments: ['context']")
expect(NameError, lambda: Application([('/', bad_ep, render)]), "argument 'next' reserved")
expect(NameError, lambda: Application([('/', ep, bad_rn)]), "argument 'next' reserved")

app = Application([('/<urlarg>', ep_ab, render_basic)], resources={'res': 'RES'},
                  middlewares=[t1, t2])
resp = app.get_local_client().get('/zzz')
ok(resp.status_code == 200 and b'zzz' in resp.data and b'RES' in resp.data, resp.data)

print('PASS (%d checks)' % CHECKS[0])
