# -*- coding: utf-8 -*-
"""C17 demo 2: the JSON renderers emit valid JSON that round-trips.

Focus: ClasticJSONEncoder (constructor defaults, default() fallbacks:
Mapping / Sized+Iterable / to_dict / asdict / isoformat / dev-mode repr),
JSONRender (plain and streaming) and JSONPRender (with and without callback).
"""
import json
import types
import datetime
import collections
from collections.abc import Mapping

from clastic import Application, render_json, render_json_dev, render_basic
from clastic.render import JSONRender, JSONPRender
from clastic.render.simple import ClasticJSONEncoder

CHECKS = [0]


def check(cond, msg):
    CHECKS[0] += 1
    assert cond, msg


def client_for(value, render):
    def endpoint():
        return value
    return Application([('/', endpoint, render)]).get_local_client()


# ------------------------------------------------------------ JSON-native data

NATIVE = [
    {}, [], {'a': 1}, [1, 2, 3], 'text', '', 'é中   "quoted" \\ /', 0, -1,
    2 ** 63, 1.5, -0.0, 1e300, 5e-324, True, False, None,
    {'': ''}, {'k': None}, {'nested': {'deep': [1, [2, [3, {'x': []}]]]}},
    [{'a': 1, 'b': [True, None]}, {'a': 2, 'b': []}],
    {'z': 1, 'a': 2, 'm': 3}, ['', [], {}, [[]], [{}]],
    {'ключ': 'значение', '\U0001F600': '\U0001F600'},
]
RENDERS = [
    ('json', render_json), ('json_dev', render_json_dev),
    ('stream', JSONRender(streaming=True)), ('stream_dev', JSONRender(streaming=True, dev_mode=True)),
    ('latin', JSONRender(encoding='latin-1')),
    ('jsonp_nocb', JSONPRender()), ('jsonp_stream', JSONPRender('cb', True, True)),
]
for value in NATIVE:
    expected_text = json.dumps(value, indent=2, sort_keys=True, ensure_ascii=True)
    for name, render in RENDERS:
        resp = client_for(value, render).get('/')
        check(resp.status_code == 200, (name, value, resp.status_code))
        check(resp.mimetype == 'application/json', (name, resp.mimetype))
        charset = 'latin-1' if name == 'latin' else 'utf-8'
        check(resp.mimetype_params.get('charset') == charset, (name, resp.headers))
        text = resp.get_data(True)
        check(json.loads(text) == value, (name, value, text))
        check(text == expected_text, (name, value, text))  # streaming == non-streaming
        check(text.encode('ascii') == resp.data, 'ensure_ascii')

    # JSONP with a callback
    for name, render, qs in [('jsonp', JSONPRender(), 'callback=handle'),
                             ('jsonp_dev', JSONPRender(dev_mode=True), 'callback=a.b%5B0%5D'),
                             ('jsonp_qp', JSONPRender(qp_name='cb'), 'cb=f&callback=ignored'),
                             ('jsonp_kw', JSONPRender(qp_name='j', streaming=True, encoding='utf-8'), 'j=_')]:
        resp = client_for(value, render).get('/?' + qs)
        cb = {'jsonp': 'handle', 'jsonp_dev': 'a.b[0]', 'jsonp_qp': 'f', 'jsonp_kw': '_'}[name]
        text = resp.get_data(True)
        check(resp.status_code == 200, (name, value))
        check(resp.mimetype == 'application/javascript', (name, resp.mimetype))
        check(resp.mimetype_params.get('charset') == 'utf-8', (name, resp.headers))
        check(text.startswith(cb + '(') and text.endswith(');'), (name, text))
        check(text == cb + '(' + expected_text + ');', (name, text))
        check(json.loads(text[len(cb) + 1:-2]) == value, (name, text))

    # an empty callback means plain JSON
    resp = client_for(value, JSONPRender()).get('/?callback=')
    check(resp.mimetype == 'application/json' and json.loads(resp.get_data(True)) == value,
          ('empty callback', value))

# ------------------------------------------------------- encoder: constructor

enc = ClasticJSONEncoder()
check(enc.dev_mode is False, 'dev default')
check((enc.skipkeys, enc.ensure_ascii, enc.indent, enc.sort_keys) == (True, True, 2, True), 'defaults')
enc = ClasticJSONEncoder(dev_mode=True, encoding='utf-8', indent=None, sort_keys=False,
                         skipkeys=False, ensure_ascii=False, separators=(',', ':'))
check(enc.dev_mode is True, 'dev')
check((enc.skipkeys, enc.ensure_ascii, enc.indent, enc.sort_keys) == (False, False, None, False), 'explicit')
check(enc.encode({'b': 'é', 'a': [1, 2]}) == '{"b":"é","a":[1,2]}', 'compact')
check(ClasticJSONEncoder(indent=0).indent == 0, 'falsy explicit option is kept')
check(ClasticJSONEncoder(encoding=None).encode([]) == '[]', 'encoding swallowed')
try:
    ClasticJSONEncoder(bogus=True)
except TypeError:
    check(True, '')
else:
    check(False, 'bogus option accepted')
options = {'dev_mode': True, 'encoding': 'utf-8', 'indent': 4}
ClasticJSONEncoder(**options)
check(options == {'dev_mode': True, 'encoding': 'utf-8', 'indent': 4}, "caller's dict untouched")
# skipkeys: unsupported key types are dropped, not an error
check(json.loads(ClasticJSONEncoder().encode({'ok': {(1, 2): 'x'}})) == {'ok': {}}, 'skipkeys')

# ----------------------------------------------------- encoder: default() paths


class ROMap(Mapping):
    def __init__(self, **kw):
        self._d = kw

    def __getitem__(self, key):
        return self._d[key]

    def __iter__(self):
        return iter(self._d)

    def __len__(self):
        return len(self._d)


class BrokenMap(ROMap):  # dict() fails, list() works -> list of keys
    def __getitem__(self, key):
        raise RuntimeError('no values for you')


class VeryBrokenMap(ROMap):  # dict() and list() fail, to_dict saves the day
    def __iter__(self):
        raise RuntimeError('no keys either')

    def to_dict(self):
        return {'rescued': True}


class HopelessMap(VeryBrokenMap):
    to_dict = None

    def __repr__(self):
        return 'HopelessMap()'


class Bag(object):  # Sized + Iterable, not a list
    def __len__(self):
        return 2

    def __iter__(self):
        return iter(['x', 'y'])


class BrokenBag(Bag):
    def __iter__(self):
        raise ValueError('cannot iterate')

    def asdict(self):
        return {'bag': 'broken'}


class SizedOnly(object):
    def __len__(self):
        return 1

    def __repr__(self):
        return 'SizedOnly()'


class All3(object):  # preference order: to_dict, asdict, isoformat
    def to_dict(self):
        return {'via': 'to_dict'}

    def asdict(self):
        return {'via': 'asdict'}

    def isoformat(self):
        return 'via isoformat'


class AsdictIso(object):
    to_dict = 'not callable'

    def asdict(self):
        return {'via': 'asdict'}

    def isoformat(self):
        return 'via isoformat'


class IsoOnly(object):
    to_dict = None
    asdict = 0

    def isoformat(self):
        return 'via isoformat'


class Raises(object):
    def to_dict(self):
        raise KeyError('from to_dict')

    def asdict(self):
        return {'never': 'reached'}


class Chained(object):  # to_dict result needs default() again
    def to_dict(self):
        return {'inner': All3(), 'when': datetime.date(2001, 2, 3), 's': {3}}


class Opaque(object):
    def __repr__(self):
        return '<Opaque é>'


Point = collections.namedtuple('Point', 'x y')
when = datetime.datetime(2020, 1, 2, 3, 4, 5, 678)
CASES = [  # (value, what it parses back to, works without dev mode?)
    (ROMap(a=1, b=[ROMap(c=None)]), {'a': 1, 'b': [{'c': None}]}, True),
    (collections.ChainMap({'a': 1}, {'b': 2}), {'a': 1, 'b': 2}, True),
    (types.MappingProxyType({'p': 1}), {'p': 1}, True),
    (BrokenMap(k1=1, k2=2), ['k1', 'k2'], True),
    (VeryBrokenMap(k=1), {'rescued': True}, True),
    (HopelessMap(k=1), 'HopelessMap()', False),
    ({3, }, [3], True), (frozenset(), [], True), (set(), [], True),
    (range(2, 5), [2, 3, 4], True), (collections.deque(['d']), ['d'], True),
    ({'k': 1}.keys(), ['k'], True), ({'k': 1}.values(), [1], True),
    (bytearray(b'\x00\xff'), [0, 255], True),
    (Bag(), ['x', 'y'], True), (BrokenBag(), {'bag': 'broken'}, True),
    (SizedOnly(), 'SizedOnly()', False),
    (Point(1, 2), [1, 2], True),
    (All3(), {'via': 'to_dict'}, True), (AsdictIso(), {'via': 'asdict'}, True),
    (IsoOnly(), 'via isoformat', True),
    (Chained(), {'inner': {'via': 'to_dict'}, 'when': '2001-02-03', 's': [3]}, True),
    (when, '2020-01-02T03:04:05.000678', True),
    (when.date(), '2020-01-02', True), (when.time(), '03:04:05.000678', True),
    (All3, repr(All3), False),                 # classes are never asked to convert themselves
    (datetime.datetime, repr(datetime.datetime), False),
    (Opaque(), '<Opaque é>', False), (b'by', [98, 121], True),
    (3 + 4j, '(3+4j)', False), (len, repr(len), False), (Ellipsis, 'Ellipsis', False),
]
dev, strict = ClasticJSONEncoder(dev_mode=True), ClasticJSONEncoder()
for value, parsed, strict_ok in CASES:
    for wrap, unwrap in [(lambda v: v, lambda p: p), (lambda v: {'k': [v]}, lambda p: {'k': [p]})]:
        check(json.loads(dev.encode(wrap(value))) == unwrap(parsed), ('dev', value))
        check(json.loads(''.join(dev.iterencode(wrap(value)))) == unwrap(parsed), ('dev iter', value))
        if strict_ok:
            check(json.loads(strict.encode(wrap(value))) == unwrap(parsed), ('strict', value))
        else:
            try:
                strict.encode(wrap(value))
            except TypeError as te:
                check(str(te) == 'cannot serialize to JSON: %r' % (value,), str(te))
            else:
                check(False, ('strict should refuse', value))

# default() called directly
check(dev.default(ROMap(a=1)) == {'a': 1} and type(dev.default(ROMap(a=1))) is dict, 'dict')
check(dev.default({1, }) == [1] and type(dev.default({1, })) is list, 'list')
check(dev.default(Opaque()) == '<Opaque é>', 'repr')
for encoder in (dev, strict):  # exceptions of conversion methods are not swallowed
    try:
        encoder.default(Raises())
    except KeyError as ke:
        check(ke.args == ('from to_dict',), ke.args)
    else:
        check(False, 'KeyError swallowed')

# through the app: dev renderers degrade, strict ones fail with a 500
mixed = {'obj': Opaque(), 'set': {1}, 'when': when, 'pt': Point(0, 0), 'm': ROMap(x=1)}
mixed_parsed = {'obj': '<Opaque é>', 'set': [1], 'when': when.isoformat(), 'pt': [0, 0], 'm': {'x': 1}}
for render in (render_json_dev, JSONRender(dev_mode=True, streaming=True), render_basic,
               JSONPRender(dev_mode=True)):
    resp = client_for(mixed, render).get('/')
    check(resp.status_code == 200 and json.loads(resp.get_data(True)) == mixed_parsed, render)
check(client_for(mixed, render_json).get('/').status_code == 500, 'strict render')
check(client_for({'set': {1}, 'when': when}, render_json).get('/').status_code == 200, 'strict ok')
resp = client_for(mixed, JSONPRender(dev_mode=True)).get('/?callback=cb')
check(json.loads(resp.get_data(True)[3:-2]) == mixed_parsed, 'jsonp dev')

# renderer attributes
r = JSONPRender('cbk', False, True, 'utf-16')
check((r.qp_name, r.streaming, r.dev_mode, r.encoding) == ('cbk', False, True, 'utf-16'), 'attrs')
check(isinstance(r.json_encoder, ClasticJSONEncoder) and r.json_encoder.dev_mode is True, 'encoder')
check(render_json.json_encoder.dev_mode is False and render_json_dev.json_encoder.dev_mode, 'modes')

# streaming is lazy: nothing is encoded before the body is consumed
touched = []


class Tracker(object):
    def to_dict(self):
        touched.append(1)
        return {}


resp = JSONRender(streaming=True)([Tracker()])
check(touched == [], 'streaming render must be lazy')
check(json.loads(resp.get_data(True)) == [{}] and touched == [1], 'consumed once')
del touched[:]
resp = JSONRender()([Tracker()])
check(touched == [1], 'non-streaming render is eager')

print('PASS (%d checks)' % CHECKS[0])
