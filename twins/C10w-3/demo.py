# -*- coding: utf-8 -*-
"""demo3: embedding == flat declaration, with the focus on the middleware
lists: outer then inner lists merged, a unique middleware type kept once at
its outermost position, non-unique ones kept everywhere, non-reorderable
duplicates rejected at embedding time -- at every depth, observed through
the trace of middleware calls on real requests.
"""
import itertools
import random

import clastic
import clastic.middleware
import clastic.middleware.core
import clastic.route
from clastic import Application, SubApplication, Route, GET
from clastic.middleware import Middleware, merge_middlewares
from clastic.middleware.core import merge_middlewares as core_merge_middlewares
from werkzeug.wrappers import Response


def text_render(context):
    return Response(repr(context), mimetype='text/plain')


class Trace(Middleware):
    def __init__(self, tag):
        self.tag = tag

    def request(self, next, request):
        request.trace = getattr(request, 'trace', []) + ['>' + self.tag]
        resp = next()
        resp.headers.add('X-Trace', self.tag)
        return resp

    def __repr__(self):
        return '%s(%r)' % (type(self).__name__, self.tag)


class MwA(Trace):
    pass


class MwB(Trace):
    pass


class MwC(Trace):
    pass


class MwMulti(Trace):
    unique = False          # may appear at every level


class MwPinned(Trace):
    reorderable = False     # unique and must not be silently dropped


class MwProvider(Trace):
    provides = ('stamp',)

    def request(self, next, request):
        request.trace = getattr(request, 'trace', []) + ['>' + self.tag]
        resp = next(stamp='stamp-from-' + self.tag)
        resp.headers.add('X-Trace', self.tag)
        return resp


MW_TYPES = {'A': MwA, 'B': MwB, 'C': MwC, 'M': MwMulti, 'P': MwProvider}


def ep_trace(request, who):
    return {'seen': list(getattr(request, 'trace', [])), 'who': who}


def ep_stamp(request, stamp):
    return {'seen': list(getattr(request, 'trace', [])), 'stamp': stamp}


# ------------------------------------------------ merge_middlewares itself

def spec_merge(old, new):
    """independent statement of the rule: new, then what old adds"""
    out = list(new)
    for mw in old:
        dup = any(type(mw) == type(m) for m in out)
        if mw.unique and dup:
            if not mw.reorderable:
                raise ValueError('multiple inclusion of unique middleware %r'
                                 % type(mw).__name__)
            continue
        out.append(mw)
    return out


def check_merge_function():
    # one function object behind every import path that existed before
    assert merge_middlewares is core_merge_middlewares
    assert clastic.middleware.merge_middlewares is merge_middlewares
    assert clastic.middleware.core.merge_middlewares is merge_middlewares
    assert clastic.route.merge_middlewares is merge_middlewares
    assert merge_middlewares.__name__ == 'merge_middlewares'

    a1, a2, b1, c1 = MwA('a1'), MwA('a2'), MwB('b1'), MwC('c1')
    m1, m2, p1, p2 = MwMulti('m1'), MwMulti('m2'), MwPinned('p1'), MwPinned('p2')

    assert merge_middlewares([], []) == []
    assert merge_middlewares((), ()) == []                      # any iterable, list out
    res = merge_middlewares([a1], [])
    assert type(res) is list and res[0] is a1
    # the outer ("new") instance survives, at the outer position
    res = merge_middlewares([a1, b1], [c1, a2])
    assert [m.tag for m in res] == ['c1', 'a2', 'b1'], res
    assert res[1] is a2
    # non-unique: kept on both sides, inner after outer
    assert [m.tag for m in merge_middlewares([m1, a1], [a2, m2])] == ['a2', 'm2', 'm1']
    # duplicates WITHIN old are de-duplicated as well, within new they are not
    assert [m.tag for m in merge_middlewares([a1, a2], [])] == ['a1']
    assert [m.tag for m in merge_middlewares([], [a1, a2])] == ['a1', 'a2']
    # inputs are not modified, outputs are fresh lists
    old, new = [a1, b1], [c1]
    res = merge_middlewares(old, new)
    assert res is not old and res is not new and old == [a1, b1] and new == [c1]
    # generators are consumed exactly once
    assert [m.tag for m in merge_middlewares(iter([a1, b1]), iter([c1]))] == ['c1', 'a1', 'b1']
    # pinned duplicates raise, with the class name in the message
    try:
        merge_middlewares([b1, p1], [p2])
    except ValueError as ve:
        assert type(ve) is ValueError
        assert ve.args == ("multiple inclusion of unique middleware 'MwPinned'",), ve.args
    else:
        raise AssertionError('expected ValueError')
    assert [m.tag for m in merge_middlewares([p1], [a1])] == ['a1', 'p1']
    # objects without the middleware attributes fail with AttributeError
    try:
        merge_middlewares([object()], [])
    except AttributeError:
        pass
    else:
        raise AssertionError('expected AttributeError')
    # "new" is never inspected
    assert merge_middlewares([], [object]) == [object]

    rng = random.Random(1234)
    pool = [MwA, MwB, MwC, MwMulti, MwPinned]
    for i in range(400):
        old = [rng.choice(pool)('o%d' % j) for j in range(rng.randrange(5))]
        new = [rng.choice(pool)('n%d' % j) for j in range(rng.randrange(5))]
        try:
            want = spec_merge(old, new)
        except ValueError as ve:
            try:
                merge_middlewares(old, new)
            except ValueError as got_ve:
                assert got_ve.args == ve.args
            else:
                raise AssertionError('expected ValueError for %r %r' % (old, new))
        else:
            got = merge_middlewares(old, new)
            assert len(got) == len(want) and all(g is w for g, w in zip(got, want)), (old, new, got)


# ------------------------------------------------------- nested versus flat

def mk(letters, level):
    return [MW_TYPES[c]('%s@%s' % (c, level)) for c in letters]


def snapshot(app, paths):
    cl = app.get_local_client()
    out = []
    for path in paths:
        resp = cl.get(path)
        out.append((path, resp.status_code, resp.get_data(True),
                    resp.headers.get('Location'),
                    tuple(resp.headers.getlist('X-Trace'))))
    return out


def flat_merge(level_lists):
    """level_lists: outermost first; tags of the merged list"""
    out = []
    for level in level_lists:
        for mw in level:
            if mw.unique and any(type(mw) == type(m) for m in out):
                continue
            out.append(mw)
    return out


def check_tree(prefixes, letters_per_level, route_letters):
    """letters_per_level: outermost first, one more entry than prefixes"""
    depth = len(prefixes)
    names = ['L%d' % i for i in range(depth + 1)]
    lists = [mk(letters, names[i]) for i, letters in enumerate(letters_per_level)]
    route_mws = mk(route_letters, 'route')
    # the stamp route must already be satisfiable in the innermost application
    needs_stamp = 'P' in letters_per_level[-1] or 'P' in route_letters

    def leaf_routes(prefix, mws):
        rts = [GET(prefix + '/t', ep_trace, text_render, middlewares=mws),
               GET(prefix + '/dir/', ep_trace, text_render, middlewares=mws)]
        if needs_stamp:
            rts.append(GET(prefix + '/stamp', ep_stamp, text_render, middlewares=mws))
        return rts

    # nested: innermost first
    app = Application(leaf_routes('', route_mws), middlewares=lists[depth],
                      resources={'who': names[depth]})
    for i in reversed(range(depth)):
        app = Application([(prefixes[i], app),
                           GET('/own%d' % i, ep_trace, text_render)],
                          middlewares=lists[i], resources={'who': names[i]})
    nested = app
    full_prefix = ''.join(p.rstrip('/') for p in prefixes)

    # flat: every route lists what the levels below the outermost contribute
    def own_route(i):
        pre = ''.join(p.rstrip('/') for p in prefixes[:i])
        return GET(pre + '/own%d' % i, ep_trace, text_render,
                   middlewares=flat_merge(lists[1:i + 1]))
    flat_routes = leaf_routes(full_prefix, flat_merge(lists[1:] + [route_mws]))
    for i in reversed(range(depth)):
        flat_routes = flat_routes + [own_route(i)]
    flat = Application(flat_routes, middlewares=lists[0], resources={'who': names[0]})

    expected_tags = [m.tag for m in flat_merge(lists + [route_mws])]
    for rt in nested.routes[:2]:
        assert [m.tag for m in rt.middlewares] == expected_tags, (rt, rt.middlewares, expected_tags)
    assert [[m.tag for m in r.middlewares] for r in nested.routes] == \
        [[m.tag for m in r.middlewares] for r in flat.routes]
    assert [r.pattern for r in nested.routes] == [r.pattern for r in flat.routes]

    paths = [full_prefix + p for p in ['/t', '/t/', '/dir/', '/dir', '/stamp', '/zzz', '']]
    for i in range(depth):
        pre = ''.join(p.rstrip('/') for p in prefixes[:i])
        paths += [pre + '/own%d' % i, pre + '/t']
    paths = [p or '/' for p in paths]
    got, want = snapshot(nested, paths), snapshot(flat, paths)
    assert got == want, [(g, w) for g, w in zip(got, want) if g != w][:3]

    # the request-time trace is the merged list, outermost first; headers
    # are stamped on the way out, innermost first
    path, status, body, _, trace = got[0]
    assert status == 200, got[0]
    assert "'seen': %r" % ['>' + t for t in expected_tags] in body, (body, expected_tags)
    assert "'who': 'L0'" in body
    assert list(trace) == list(reversed(expected_tags))
    return len(paths)


def check_pinned_rejected():
    inner = Application([GET('/x', ep_trace, text_render)], middlewares=[MwPinned('in')],
                        resources={'who': 'in'})
    # fine under an application that does not have it ...
    ok = Application([('/p', inner)], middlewares=[MwA('out')], resources={'who': 'out'})
    assert [m.tag for m in ok.routes[0].middlewares] == ['out', 'in']
    # ... rejected when the embedding application pins the same type
    for wrap in (lambda a: ('/p', a), lambda a: ('/', a), lambda a: SubApplication('/p/', a)):
        try:
            Application([wrap(inner)], middlewares=[MwPinned('out')], resources={'who': 'out'})
        except ValueError as ve:
            assert ve.args == ("multiple inclusion of unique middleware 'MwPinned'",), ve.args
        else:
            raise AssertionError('expected ValueError')
    # two levels down as well
    mid = Application([('/m', inner)], resources={'who': 'mid'})
    try:
        Application([('/p', mid)], middlewares=[MwPinned('out')], resources={'who': 'out'})
    except ValueError:
        pass
    else:
        raise AssertionError('expected ValueError')


def main():
    check_merge_function()
    check_pinned_rejected()
    n = 0
    prefix_sets = [['/api'], ['/api/'], ['/'], ['/v1', '/x/'], ['/', '/y'], ['/a', '/b/', '/c']]
    letter_sets = ['', 'A', 'AB', 'BA', 'M', 'AM', 'P', 'CA']
    rng = random.Random(99)
    for prefixes in prefix_sets:
        combos = list(itertools.product(letter_sets, repeat=len(prefixes) + 1))
        rng.shuffle(combos)
        for letters_per_level in combos[:40]:
            for route_letters in ('', 'B', 'MC'):
                n += check_tree(prefixes, list(letters_per_level), route_letters)
    print('compared %d responses' % n)
    print('PASS')


if __name__ == '__main__':
    main()
