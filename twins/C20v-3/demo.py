# -*- coding: utf-8 -*-
"""demo3: from a dying child process to the Flaw failsafe page.

server.restart_with_reloader is driven with scripted child processes
(subprocess.Popen, reloader_loop and enable_tty_echo are replaced inside
clastic.server only); whatever error text and file list it hands to its
error_func is given to flaw.create_app, like run_simple.serve_error_app
does, and the resulting page is checked.

Prints PASS and exits 0 when every check holds.
"""
import html
import io
import os
import subprocess
import sys
import warnings

warnings.simplefilter('ignore')

from clastic import flaw, server  # noqa: E402

CHECKS = [0]
REAL_STDOUT = sys.stdout


def check(cond, *info):
    CHECKS[0] += 1
    if not cond:
        sys.stdout = REAL_STDOUT
        print('FAIL', *[repr(i)[:400] for i in info])
        sys.exit(1)


def esc(text):
    return html.escape(str(text), True)


MON = server._MON_PREFIX


class FakeStderr(object):
    def __init__(self, proc):
        self.proc = proc

    def readline(self):
        return self.proc._next_line()


class FakeProc(object):
    """Scripted child: *batches* is a list of lists of stderr lines; the
    child "runs" (poll() is None) while there is more than one batch left;
    each batch ends with an empty read, the way a drained pipe does."""
    def __init__(self, batches, exit_code):
        self._batches = [list(b) for b in batches] or [[]]
        self._exit_code = exit_code
        self.returncode = None
        self.stderr = FakeStderr(self)
        self.polls = 0

    def _next_line(self):
        if self._batches[0]:
            return self._batches[0].pop(0)
        if len(self._batches) > 1:
            self._batches.pop(0)
        return b''

    def poll(self):
        self.polls += 1
        if len(self._batches) > 1 or self._batches[0]:
            return None
        self.returncode = self._exit_code
        return self.returncode


class FakeServer(object):
    def __init__(self, log):
        self.log = log

    def shutdown(self):
        self.log.append('shutdown')

    def server_close(self):
        self.log.append('server_close')


class Harness(object):
    """Runs restart_with_reloader against scripted children."""
    def __init__(self, children, loop_outcomes=(), use_error_func=True,
                 argv=None):
        self.children = list(children)      # (batches, exit_code)
        self.loop_outcomes = list(loop_outcomes)
        self.use_error_func = use_error_func
        self.argv = argv
        self.popen_calls = []
        self.procs = []
        self.error_calls = []
        self.loop_calls = []
        self.log = []
        self.apps = []

    def popen(self, args, **kwargs):
        self.popen_calls.append((list(args), kwargs))
        self.log.append('popen')
        batches, exit_code = self.children.pop(0)
        proc = FakeProc(batches, exit_code)
        self.procs.append(proc)
        return proc

    def error_func(self, tb_str, monitored_files):
        # what run_simple.serve_error_app does, minus the socket
        self.log.append('error_func')
        self.error_calls.append((tb_str, monitored_files, list(monitored_files)))
        self.apps.append(flaw.create_app(tb_str, monitored_files))
        return FakeServer(self.log)

    def reloader_loop(self, extra_files=None, interval=1):
        self.log.append('reloader_loop')
        self.loop_calls.append((extra_files, interval))
        outcome = self.loop_outcomes.pop(0)
        if isinstance(outcome, BaseException):
            raise outcome

    def run(self):
        saved = (server.subprocess.Popen, server.reloader_loop,
                 server.enable_tty_echo, sys.stdout, sys.stderr, sys.argv)
        fake_subprocess = type('fake_subprocess', (), {
            'Popen': staticmethod(self.popen), 'PIPE': subprocess.PIPE})
        real_subprocess = server.subprocess
        server.subprocess = fake_subprocess
        server.reloader_loop = self.reloader_loop
        server.enable_tty_echo = lambda *a: self.log.append('tty_echo')
        sys.stdout, sys.stderr = io.StringIO(), io.StringIO()
        if self.argv is not None:
            sys.argv = self.argv
        environ_before = dict(os.environ)
        try:
            try:
                func = self.error_func if self.use_error_func else None
                if func is None:
                    self.result = ('ret', server.restart_with_reloader())
                else:
                    self.result = ('ret', server.restart_with_reloader(func))
            except BaseException as e:
                self.result = ('exc', type(e))
            self.stdout, self.stderr = sys.stdout.getvalue(), sys.stderr.getvalue()
        finally:
            server.subprocess = real_subprocess
            (_, server.reloader_loop, server.enable_tty_echo,
             sys.stdout, sys.stderr, sys.argv) = saved
        check(dict(os.environ) == environ_before)
        return self


def lines_of(text):
    return [l.encode('utf8') for l in text.splitlines(True)]


def mon_line(files):
    return ('%s%r\n' % (MON, files)).encode('utf8')


def check_page(app, tb_str, files):
    client = app.get_local_client()
    for path in ('/', '/any/<where>'):
        resp = client.get(path)
        check(resp.status_code == 200)
        page = resp.get_data(True)
        check('<pre>%s</pre>' % esc(tb_str) in page, tb_str, page)
        for fn in files:
            check('<li>%s</li>' % esc(fn) in page, fn)
    return page


TB = '''Traceback (most recent call last):
  File "/srv/proj/app.py", line 3, in <module>
    import <b>views</b>
  File "/srv/proj/views.py", line 9, in <module>
    plarp
NameError: name 'plarp' is not defined
'''
FILES = ['/srv/proj/views.py', '/srv/proj/app.py', '/srv/proj/<i>x</i>.py']
RESTART_MSG = ' * Clastic restarting with reloader\n'

# 1. a child that ends normally / with another code: that code is returned
for code in (0, 2, -15, 1):
    h = Harness([([lines_of('bye\n')], code)], use_error_func=False).run()
    check(h.result == ('ret', code), h.result)
    check(h.log == ['popen'] and h.stdout == RESTART_MSG, h.log)
    check(h.stderr == 'bye\n')
h = Harness([([lines_of(TB)], 0)]).run()
check(h.result == ('ret', 0) and h.log == ['popen'] and h.stderr == TB)
# exit code 1 with nothing (or only the file list) on stderr: no failsafe
for batches in ([], [[]], [[mon_line(FILES)]], [[], [mon_line(FILES)], []]):
    h = Harness([(batches, 1)]).run()
    check(h.result == ('ret', 1) and h.log == ['popen'], batches, h.log)
    check(h.stderr == '')

# 2. exit code 3 means "restart": a fresh child each time
h = Harness([([], 3), ([lines_of('x\n')], 3), ([], 0)]).run()
check(h.result == ('ret', 0) and h.log == ['popen'] * 3, h.log)
check(h.stdout == RESTART_MSG * 3)

# 3. the child dies of an import error: the failsafe gets the text and files,
#    the reloader watches the same list object; a change (SystemExit(3))
#    shuts the failsafe down and restarts
h = Harness([([lines_of(TB)[:3], [mon_line(FILES)], lines_of(TB)[3:]], 1),
             ([], 0)],
            loop_outcomes=[SystemExit(3)]).run()
check(h.result == ('ret', 0), h.result)
check(h.log == ['popen', 'tty_echo', 'error_func', 'reloader_loop',
                'shutdown', 'server_close', 'popen'], h.log)
tb_str, to_mon, to_mon_then = h.error_calls[0]
check(tb_str == TB and h.stderr == TB)
check(to_mon_then == FILES)
check(h.loop_calls == [(to_mon, 1)] and h.loop_calls[0][0] is to_mon)
check(sorted(to_mon) == sorted(FILES))     # create_app sorted it in place
page = check_page(h.apps[0], TB, FILES)
check('<h2 class="parsed-error-h2">NameError<p> name &#x27;plarp&#x27; is not '
      'defined</p></h2>' in page, page)
check('<b>views</b>' not in page and '<i>x</i>' not in page)
check(h.procs[0].polls >= 3)

# 4. the other ways out of the failsafe
for outcome, expected in ((KeyboardInterrupt(), ('ret', 0)),
                          (SystemExit(5), ('ret', 5)),
                          (SystemExit(0), ('ret', 0)),
                          (SystemExit(), ('ret', None)),
                          (SystemExit('msg'), ('ret', 'msg')),
                          (None, ('ret', 0)),
                          (ValueError('boom'), ('exc', ValueError))):
    h = Harness([([lines_of(TB), [mon_line(FILES)]], 1)],
                loop_outcomes=[outcome]).run()
    check(h.result == expected, outcome, h.result)
    check(h.log == ['popen', 'tty_echo', 'error_func', 'reloader_loop',
                    'shutdown', 'server_close'], h.log)

# 5. the file list survives restarts, the error text does not
h = Harness([([lines_of('first run noise\n'), [mon_line(FILES)]], 3),
             ([lines_of('second <run>: {tb_str}\n')], 1),
             ([lines_of('third\n'), [mon_line(['only.py'])]], 1),
             ([[mon_line([])], lines_of('fourth')], 1)],
            loop_outcomes=[SystemExit(3), SystemExit(3), None]).run()
check(h.result == ('ret', 0), h.result)
check([c[0] for c in h.error_calls] ==
      ['second <run>: {tb_str}\n', 'third\n', 'fourth'], h.error_calls)
check([c[2] for c in h.error_calls] == [FILES, ['only.py'], []])
check(h.error_calls[0][1] is h.error_calls[1][1] is h.error_calls[2][1])
check(h.stderr == 'first run noise\nsecond <run>: {tb_str}\nthird\nfourth')
for app, (tb_str, _, files) in zip(h.apps, h.error_calls):
    page = check_page(app, tb_str, files)
    check('unparsed-error-h2' in page)
check('<h2 class="unparsed-error-h2">second &lt;run&gt;: {tb_str}</h2>'
      in h.apps[0].get_local_client().get('/').get_data(True))

# 6. only the last _STDERR_BUFF_SIZE lines are kept, all are relayed
many = ['line %d\n' % i for i in range(server._STDERR_BUFF_SIZE + 500)]
text = ''.join(many) + TB
h = Harness([([lines_of(text)[:700], lines_of(text)[700:]], 1)],
            loop_outcomes=[None]).run()
kept = ''.join(text.splitlines(True)[-server._STDERR_BUFF_SIZE:])
check(h.error_calls[0][0] == kept and h.stderr == text)
check(h.error_calls[0][2] == [])
page = check_page(h.apps[0], kept, [])
check('parsed-error-h2' not in page.replace('unparsed-error-h2', ''))

# 7. a spread of error texts through the whole chain
TEXTS = [TB, 'x', ' \n', '<script>alert(1)</script>\n', '{#a}{/a}{>b/}\n',
         '  File "bad.py", line 7\n    def f(:\n          ^\n'
         'SyntaxError: invalid syntax\n',
         'Traceback (most recent call last):\n', 'é中\x00\x1b\n',
         TB + TB, TB.replace('\n', '\r\n'), MON[:-1] + '\n', ' ' + MON + '[]\n']
for text in TEXTS:
    for files in ([], FILES, ['a.py'] * 3):
        h = Harness([([lines_of(text), [mon_line(files)]], 1)],
                    loop_outcomes=[KeyboardInterrupt()]).run()
        check(h.result == ('ret', 0))
        check(h.error_calls[0][0] == text and h.error_calls[0][2] == files,
              text, h.error_calls)
        check_page(h.apps[0], text, files)

# 8. garbage from the child is not swallowed
h = Harness([([[b'\xff\xfe\n']], 1)]).run()
check(h.result == ('exc', UnicodeDecodeError), h.result)
h = Harness([([[(MON + 'not a list(\n').encode()]], 1)]).run()
check(h.result == ('exc', SyntaxError), h.result)
h = Harness([([[(MON + 'open("x")\n').encode()]], 1)]).run()
check(h.result == ('exc', ValueError), h.result)
h = Harness([([[(MON + '5\n').encode()]], 1)]).run()
check(h.result == ('exc', TypeError), h.result)

# 9. how the child is started
h = Harness([([], 3), ([], 0)], argv=['/x/y/script.py', '--port', '80']).run()
check(len(h.popen_calls) == 2)
for args, kwargs in h.popen_calls:
    check(args == [sys.executable, '/x/y/script.py', '--port', '80'], args)
    check(sorted(kwargs) == ['env', 'stderr'], kwargs)
    check(kwargs['stderr'] is subprocess.PIPE)
    expected_env = dict(os.environ, WERKZEUG_RUN_MAIN='true')
    check(dict(kwargs['env']) == expected_env)
check(h.popen_calls[0][1]['env'] is not h.popen_calls[1][1]['env'])
h = Harness([([], 0)], argv=['/x/mypkg/__main__.py', 'a', 'b']).run()
check(h.popen_calls[0][0] == [sys.executable, '-m', 'mypkg', 'a', 'b'])
h = Harness([([], 0)], argv=['__main__.py']).run()
check(h.popen_calls[0][0] == [sys.executable, '-m', ''])
check('WERKZEUG_RUN_MAIN' not in os.environ
      or os.environ['WERKZEUG_RUN_MAIN'] != 'true')

# 10. run_simple hands restart_with_reloader an error_func that serves
#     flaw.create_app(text, files) on the configured address
captured = {}


def fake_run_with_reloader(main_func, extra_files=None, interval=1,
                           error_func=None):
    captured['error_func'] = error_func


def fake_make_server(host, port, app, **kwargs):
    captured['server_args'] = (host, port, app, kwargs)
    return type('srv', (), {'serve_forever': lambda self: None})()


saved = (server.run_with_reloader, server.make_server,
         server.open_test_socket, server.thread)
server.run_with_reloader = fake_run_with_reloader
server.make_server = fake_make_server
server.open_test_socket = lambda host, port: True
server.thread = type('thread', (), {'start_new_thread': staticmethod(
    lambda func, args: captured.setdefault('started', []).append(func))})
sys.stdout = io.StringIO()
try:
    server.run_simple('127.0.0.1', 5999, object(), use_reloader=True)
    for text in TEXTS + ['', None, b'raw <b>']:
        files = list(FILES)
        err_server = captured['error_func'](text, files)
        host, port, app, kwargs = captured['server_args']
        check((host, port, kwargs) == ('127.0.0.1', 5999, {}))
        check(captured['started'][-1] == err_server.serve_forever)
        resp = app.get_local_client().get('/what/ever')
        check(resp.status_code == 200)
        page = resp.get_data(True)
        check('<pre>%s</pre>' % (esc(text) if text else '') in page, text)
        check(all('<li>%s</li>' % esc(fn) in page for fn in FILES))
finally:
    sys.stdout = REAL_STDOUT
    (server.run_with_reloader, server.make_server,
     server.open_test_socket, server.thread) = saved

print('PASS (%d checks)' % CHECKS[0])
