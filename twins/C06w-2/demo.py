# -*- coding: utf-8 -*-
"""demo2 -- C06 dispatch: first match in order, methods, 404/405, non-breaking
fallthrough.  Focus of this demo: branch routes and the path normalisation
dispatch relies on (redirect / rewrite / strict handling of a path-matching,
method-admitting branch route), the public import paths of normalize_path, and
a model-checked sweep over routing tables in redirect and rewrite slash modes.

Prints PASS and exits 0 when every assertion holds.
"""
import random
import sys

import clastic
import clastic.application
import clastic.route
from clastic import Application, Route, Response, S_REDIRECT, S_REWRITE, S_STRICT
from clastic.route import normalize_path
from clastic.errors import Forbidden, NotFound, InternalServerError


# ------------------------------------------------------------ normalize_path

def normalize_path_checks():
    # importable from where it always was, one and the same function
    assert clastic.route.normalize_path is normalize_path
    assert clastic.application.normalize_path is normalize_path
    assert callable(normalize_path) and normalize_path.__name__ == 'normalize_path'

    table = [
        # path, leaf result, branch result
        ('', '/', '/'),
        ('/', '/', '/'),
        ('//', '/', '/'),
        ('///', '/', '/'),
        ('a', '/a', '/a/'),
        ('/a', '/a', '/a/'),
        ('/a/', '/a', '/a/'),
        ('//a//', '/a', '/a/'),
        ('/a/b', '/a/b', '/a/b/'),
        ('/a//b/', '/a/b', '/a/b/'),
        ('a/b/', '/a/b', '/a/b/'),
        ('/ /', '/ ', '/ /'),
        ('/a?b/#c', '/a?b/#c', '/a?b/#c/'),
        (u'/\xe9/☃', u'/\xe9/☃', u'/\xe9/☃/'),
        ('/0/', '/0', '/0/'),
    ]
    for path, leaf, branch in table:
        for falsy in (False, 0, None, ''):
            assert normalize_path(path, falsy) == leaf, (path, falsy)
        for truthy in (True, 1, 'yes'):
            assert normalize_path(path, truthy) == branch, (path, truthy)
        assert type(normalize_path(path, True)) is type(path)
        # idempotent
        assert normalize_path(normalize_path(path, True), True) == branch
        assert normalize_path(normalize_path(path, False), False) == leaf
    # keyword call
    assert normalize_path(path='/x', is_branch=True) == '/x/'
    # non-strings are not accepted
    for bad in (None, 5, b'/a'):
        try:
            normalize_path(bad, True)
        except (AttributeError, TypeError):
            pass
        else:
            raise AssertionError('normalize_path(%r) accepted' % (bad,))


# ---------------------------------------------------------------- catalogue

PATTERNS = {
    '/a': (False, lambda s: s == ['a']),
    '/a/': (True, lambda s: s == ['a']),
    '/a/<x>': (False, lambda s: len(s) == 2 and s[0] == 'a'),
    '/a/<x>/': (True, lambda s: len(s) == 2 and s[0] == 'a'),
    '/<p*>': (False, lambda s: True),
    '/<p*>/': (True, lambda s: True),
    '/b/<q+>/': (True, lambda s: len(s) >= 2 and s[0] == 'b'),
}
METHOD_SETS = [None, (), ['GET'], ['POST'], ['get', 'put'], ['HEAD'],
               ('POST', 'DELETE')]
BEHAVIOURS = ['ok', 'raise403b', 'ret500b', 'raise404nb', 'ret403nb', 'boom']
PATHS = ['/', '/a', '/a/', '/a//', '/a/b', '/a/b/', '/a//b', '/b/x/y',
         '/b/x/y/', '/zzz/1/2', '/a/b/?k=v&k=w']
METHODS = ['GET', 'HEAD', 'POST', 'PUT', 'DELETE', 'get', 'FOO']

BEHAVIOUR_RESULT = {  # behaviour -> (status, breaking, marker prefix)
    'ok': (200, True, 'R-'),
    'raise403b': (403, True, 'E-'),
    'ret500b': (500, True, 'E-'),
    'raise404nb': (404, False, 'E-'),
    'ret403nb': (403, False, 'E-'),
    'boom': (500, True, 'X-'),
}


def make_endpoint(behaviour, marker):
    def ep():
        if behaviour == 'ok':
            return Response('R-' + marker)
        if behaviour == 'raise403b':
            raise Forbidden(detail='E-' + marker)
        if behaviour == 'ret500b':
            return InternalServerError(detail='E-' + marker)
        if behaviour == 'raise404nb':
            raise NotFound(detail='E-' + marker, is_breaking=False)
        if behaviour == 'ret403nb':
            return Forbidden(detail='E-' + marker, is_breaking=False)
        if behaviour == 'boom':
            raise ValueError('X-' + marker)
        raise AssertionError(behaviour)
    return ep


def effective_methods(methods):
    if not methods:
        return None
    ret = set(m.upper() for m in methods)
    if 'GET' in ret:
        ret.add('HEAD')
    return ret


def model(table, url, method, mode):
    """mode: 'redirect', 'rewrite' or 'strict' (= what a path-matching,
    method-admitting branch route does with a non-normal path)."""
    path, _, query = url.partition('?')
    segs = [s for s in path.split('/') if s]
    last_nb = None
    allowed = set()
    for pattern, methods, behaviour, marker in table:
        is_branch, matches = PATTERNS[pattern]
        if not matches(segs):
            continue
        eff = effective_methods(methods)
        if eff is not None and method.upper() not in eff:
            allowed |= eff
            continue
        norm = '/' + '/'.join(segs) + ('/' if segs else '')
        if is_branch and norm != path:
            if mode == 'redirect':
                location = 'http://localhost' + norm + ('?' + query if query else '')
                return (302, None, None, location)
            if mode == 'strict':
                last_nb = (404, None, None, None)
                continue
        status, breaking, prefix = BEHAVIOUR_RESULT[behaviour]
        if breaking:
            return (status, prefix + marker, None, None)
        last_nb = (status, prefix + marker, None, None)
    if last_nb:
        return last_nb
    if allowed:
        return (405, None, ', '.join(sorted(allowed)), None)
    return (404, None, None, None)


def check(app, table, url, method, mode):
    resp = app.get_local_client().open(url, method=method)
    status, marker, allow, location = model(table, url, method, mode)
    ctx = (mode, table, url, method, resp.status_code, resp.headers.get('Allow'),
           resp.headers.get('Location'), resp.data[:80])
    assert resp.status_code == status, ctx
    assert resp.headers.get('Allow') == allow, ctx
    assert resp.headers.get('Location') == location, ctx
    if method.upper() != 'HEAD':
        body = resp.get_data(True)
        if marker is not None:
            assert marker in body, ctx
        elif status == 404:
            assert 'E-' not in body and 'R-' not in body, ctx


def build(rng, table, mode):
    """Half of the tables via the constructor, half via add(entry, index)."""
    app_mode = S_REWRITE if mode == 'rewrite' else S_REDIRECT
    if rng.random() < 0.5:
        app = Application([Route(p, make_endpoint(b, mk), methods=ms)
                           for p, ms, b, mk in table], slash_mode=app_mode)
        order = list(table)
    else:
        app = Application(slash_mode=app_mode)
        order = []
        for spec in table:
            p, ms, b, mk = spec
            index = rng.choice([None, 0, len(order), rng.randrange(0, len(order) + 1)])
            order.insert(len(order) if index is None else index, spec)
            app.add(Route(p, make_endpoint(b, mk), methods=ms), index=index)
    assert [r.pattern for r in app.routes] == [s[0] for s in order]
    if mode == 'strict':
        # the patterns were compiled leniently; the bound routes are now told
        # to answer a non-normal path with a non-breaking 404
        for bound in app.routes:
            bound.slash_mode = S_STRICT
    return app, order


def sweep(seed, n_tables):
    rng = random.Random(seed)
    n_checks = 0
    for t in range(n_tables):
        mode = ('redirect', 'rewrite', 'strict')[t % 3]
        table = [(rng.choice(sorted(PATTERNS)), rng.choice(METHOD_SETS),
                  rng.choice(BEHAVIOURS), 'm%d' % i)
                 for i in range(rng.randint(0, 4))]
        app, table = build(rng, table, mode)
        for url in PATHS:
            for method in METHODS:
                check(app, table, url, method, mode)
                n_checks += 1
    return n_checks


# ----------------------------------------------------------- fixed scenarios

def fixed_scenarios():
    def leaf():
        return Response('R-leaf')

    def branch():
        return Response('R-branch')

    def rest():
        return Response('R-rest')

    # redirect (default): the first admitting route is the branch -> 302,
    # later routes are not consulted; a POST skips the GET-only branch
    app = Application([Route('/d/', branch, methods=['GET']),
                       ('/d', leaf),
                       ('/<p*>', rest)])
    cl = app.get_local_client()
    resp = cl.get('/d')
    assert resp.status_code == 302 and resp.headers['Location'] == 'http://localhost/d/'
    assert cl.get('/d/').get_data(True) == 'R-branch'
    assert cl.post('/d').get_data(True) == 'R-leaf'
    resp = cl.get('/d//?x=%20y&z')
    assert resp.status_code == 302
    assert resp.headers['Location'] == 'http://localhost/d/?x=%20y&z', resp.headers['Location']
    resp = cl.open('/d', method='HEAD')
    assert resp.status_code == 302

    # leaf first: no normalisation at all for a leaf route
    app = Application([('/d', leaf), ('/d/', branch)])
    cl = app.get_local_client()
    for path in ('/d', '/d/', '/d//'):
        assert cl.get(path).get_data(True) == 'R-leaf', path

    # rewrite: the branch answers right away
    app = Application([('/d/', branch), ('/d', leaf)], slash_mode=S_REWRITE)
    cl = app.get_local_client()
    for path in ('/d', '/d/', '/d//'):
        resp = cl.get(path)
        assert resp.status_code == 200 and resp.get_data(True) == 'R-branch', path

    # strict after binding: non-breaking 404, the next route answers; with no
    # other route the 404 itself is the response -- and it beats a 405
    app = Application([('/d/', branch), ('/d', leaf)])
    app.routes[0].slash_mode = S_STRICT
    cl = app.get_local_client()
    assert cl.get('/d').get_data(True) == 'R-leaf'
    assert cl.get('/d/').get_data(True) == 'R-branch'
    app = Application([Route('/d', leaf, methods=['POST']), ('/d/', branch)])
    app.routes[1].slash_mode = S_STRICT
    cl = app.get_local_client()
    resp = cl.get('/d')
    assert resp.status_code == 404 and resp.headers.get('Allow') is None
    assert cl.get('/d/').get_data(True) == 'R-branch'
    resp = cl.put('/e')
    assert resp.status_code == 404
    # a really strict application never sees a non-normal matching path
    app = Application([('/d/', branch), ('/d', leaf)], slash_mode=S_STRICT)
    cl = app.get_local_client()
    assert cl.get('/d').get_data(True) == 'R-leaf'
    assert cl.get('/d/').get_data(True) == 'R-branch'
    assert cl.get('/d//').status_code == 404

    # root: '/' is already normal for a branch
    app = Application([('/', branch), ('/<p*>', rest)])
    cl = app.get_local_client()
    assert cl.get('/').get_data(True) == 'R-branch'
    assert cl.get('/q').get_data(True) == 'R-rest'


def main():
    normalize_path_checks()
    fixed_scenarios()
    n = sweep(seed=6062, n_tables=150)
    assert n == 150 * len(PATHS) * len(METHODS)
    print('PASS (%d model-checked requests)' % n)
    return 0


if __name__ == '__main__':
    sys.exit(main())
