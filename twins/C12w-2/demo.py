# -*- coding: utf-8 -*-
"""demo2: concurrent requests on one Application do not interfere.

Focus: URL parameters -- the converter closures that every BoundRoute shares
between all requests (build_converter / _compile_path_pattern) and the slash
normalisation used by dispatch (normalize_path), in the three slash modes.
Prints PASS and exits 0.
"""
import os
import sys
import threading

sys.path.insert(0, os.path.dirname(os.path.abspath(__file__)))

from werkzeug.test import Client
from werkzeug.wrappers import Response

import clastic
from clastic import (Application, Route, GET, POST, Middleware,
                     S_REDIRECT, S_REWRITE, S_STRICT)
from clastic.route import (build_converter, normalize_path, _compile_path_pattern,
                           InvalidPattern)
from clastic.application import normalize_path as app_normalize_path

assert os.path.dirname(os.path.abspath(clastic.__file__)).startswith(
    os.path.dirname(os.path.abspath(__file__))), clastic.__file__
assert app_normalize_path is normalize_path


# ---------------------------------------------------------------- unit level

def check_units():
    # normalize_path(path, is_branch)
    table = [('/', True, '/'), ('/', False, '/'), ('', True, '/'), ('', False, '/'),
             ('//', 1, '/'), ('/a', True, '/a/'), ('/a', False, '/a'),
             ('/a/', False, '/a'), ('/a/', True, '/a/'), ('a', True, '/a/'),
             ('//a///b//', True, '/a/b/'), ('//a///b//', False, '/a/b'),
             ('/a/b', 0, '/a/b'), ('/a/b', None, '/a/b'), ('/a/b', 'yes', '/a/b/'),
             ('/0/', True, '/0/'), ('/ /', False, '/ '),
             (u'/caf\xe9', True, u'/caf\xe9/')]
    for path, is_branch, want in table:
        got = normalize_path(path, is_branch)
        assert got == want and type(got) is type(want), (path, is_branch, got, want)

    calls = []

    def conv(v):
        calls.append(v)
        return int(v)

    single = build_converter(conv)
    assert single.__name__ == 'single_converter'
    assert single('/12') == 12 and single('12') == 12 and single('//1/2') == 12
    for bad in ('', '/', 'x'):
        try:
            single(bad)
        except ValueError:
            pass
        else:
            raise AssertionError('non-optional single converter accepted %r' % bad)
    try:
        single(None)
    except AttributeError:
        pass
    else:
        raise AssertionError('None accepted')

    opt = build_converter(conv, optional=True)
    assert opt.__name__ == 'single_converter'
    del calls[:]
    assert opt('') is None and opt(None) is None and calls == []
    assert opt('/0') == 0 and calls == ['0']
    try:
        opt('/')     # truthy, not a number
    except ValueError:
        pass
    else:
        raise AssertionError

    multi = build_converter(conv, multi=True)
    assert multi.__name__ == 'multi_converter'
    assert multi('/1/2/3') == [1, 2, 3]
    assert multi('/0') == [0]
    assert multi('') == []            # ''.split('/')[1:] == []
    try:
        multi('/1//2')
    except ValueError:
        pass
    else:
        raise AssertionError

    optmulti = build_converter(conv, optional=True, multi=True)
    assert optmulti.__name__ == 'multi_converter'
    del calls[:]
    r1, r2 = optmulti(''), optmulti('')
    assert r1 == [] and r2 == [] and r1 is not r2 and calls == []
    assert optmulti('/4/5') == [4, 5]
    # keyword / truthy flags
    assert build_converter(str, multi=1, optional=1)('') == []
    assert build_converter(str, multi=0, optional=1)('') is None
    assert build_converter(str, False, True)('/a/b') == ['a', 'b']
    assert build_converter(str, True, False)('') is None

    # compiled patterns per slash mode
    rx, convs = _compile_path_pattern('/a/<x:int>/<rest*>', S_REDIRECT)
    assert rx.pattern == '^/+a(?P<x>(/+[+-]?\\ *[0-9]+))(?P<rest>(/+[^/]+)*)/*$', rx.pattern
    assert list(convs) == ['x', 'rest']
    rx, convs = _compile_path_pattern('/a/<x:int>/<rest*>')
    assert rx.pattern == '^/+a(?P<x>(/+[+-]?\\ *[0-9]+))(?P<rest>(/+[^/]+)*)/*$'
    rx, convs = _compile_path_pattern('/a/<x:int>/<rest*>', S_STRICT)
    assert rx.pattern == '^/a(?P<x>(/[+-]?\\ *[0-9]+))(?P<rest>(/[^/]+)*)$', rx.pattern
    rx, _ = _compile_path_pattern('/a/', S_STRICT)
    assert rx.pattern == '^/a/$'
    rx, _ = _compile_path_pattern('/a/', S_REWRITE)
    assert rx.pattern == '^/+a/*$'
    rx, _ = _compile_path_pattern('/', S_REDIRECT)
    assert rx.pattern == '^/*$', rx.pattern
    for bad in ('a', '/a//b', '/<x>/<x>', '/<x:nope>', '/<x!int>'):
        try:
            _compile_path_pattern(bad)
        except InvalidPattern:
            pass
        else:
            raise AssertionError(bad)


# ----------------------------------------------------------- application level

class TagMiddleware(Middleware):
    provides = ('tag',)

    def request(self, next, request):
        return next(tag=request.args.get('t', '-'))


def typed(label):
    def ep(request, tag, _route, a=None, b=None, c=None, d=None):
        vals = dict((k, v) for k, v in [('a', a), ('b', b), ('c', c), ('d', d)]
                    if k in request.path_params)
        assert request.path_params == vals, (request.path_params, vals)
        return Response('%s %s %r %s' % (label, tag, sorted(request.path_params.items()),
                                         _route.pattern))
    return ep


def build_apps():
    def routes():
        return [GET('/i/<a:int>', typed('int')),
                GET('/f/<a:float>/<b:float>/', typed('float')),
                GET('/s/<a:str>/<b:unicode>/<c>', typed('str')),
                GET('/o/<a?int>', typed('opt')),
                GET('/m/<a+int>', typed('plus')),
                GET('/z/<a*float>/', typed('star')),
                GET('/mix/<a:int>/<b?>', typed('mix')),
                POST('/m/<a+int>', typed('plus-post')),
                GET('/branch/', typed('branch')),
                GET('/leaf', typed('leaf'))]
    mws = [TagMiddleware()]
    return [('redirect', Application(routes(), middlewares=mws)),
            ('rewrite', Application(routes(), middlewares=mws, slash_mode=S_REWRITE)),
            ('strict', Application(routes(), middlewares=mws, slash_mode=S_STRICT))]


PATHS = ['/i/5', '/i/-5', '/i/+0', '/i/5/', '/i//5', '/i/x', '/i/5.0', '/i/',
         '/f/1/2/', '/f/1.5/-2e3', '/f/.5/1./', '/f/1/x/', '/f//1//2//',
         '/s/a/b/c', '/s/0/%20/%C3%A9', '/s/a/b', '/s/a/b/c/',
         '/o', '/o/', '/o/3', '/o/3/', '/o/x', '/o/0',
         '/m/1', '/m/1/2/3', '/m/1/2/3/', '/m', '/m/', '/m/1/x', '/m//1//2',
         '/z', '/z/', '/z/1', '/z/1/2.5/', '/z/1/2.5', '/z/a/',
         '/mix/1', '/mix/1/', '/mix/1/two', '/mix/1/two/', '/mix/0/0',
         '/branch', '/branch/', '//branch//', '/leaf', '/leaf/', '//leaf',
         '/', '', '/nope']

REQUESTS = [('GET', p, 't=%d' % i) for i, p in enumerate(PATHS)]
REQUESTS += [('POST', '/m/4/5', 't=p1'), ('POST', '/i/5', 't=p2'),
             ('DELETE', '/z/1/', 't=p3'), ('HEAD', '/o', 't=p4')]


def send(app, req):
    method, path, query = req
    client = Client(app, Response)
    resp = client.open(path=path, query_string=query, method=method)
    return (resp.status_code, resp.headers.get('Location'),
            resp.headers.get('Allow'), resp.get_data())


def check_sequential(apps, expected):
    red, rew, strict = [dict(zip(REQUESTS, e)) for e in expected]

    def q(path):
        return ('GET', path, 't=%d' % PATHS.index(path))

    assert red[q('/i/5')][3] == b"int 0 [('a', 5)] /i/<a:int>"
    assert red[q('/i/-5')][3] == b"int 1 [('a', -5)] /i/<a:int>"
    assert red[q('/i/+0')][3] == b"int 2 [('a', 0)] /i/<a:int>"
    assert red[q('/i/5/')][0] == 200          # leaf routes tolerate a slash
    assert strict[q('/i/5/')][0] == 404
    assert red[q('/i//5')][0] == 200 and strict[q('/i//5')][0] == 404
    assert red[q('/i/x')][0] == 404 and red[q('/i/5.0')][0] == 404
    assert red[q('/f/1/2/')][3].startswith(b"float 8 [('a', 1.0), ('b', 2.0)]")
    # branch route without its slash: redirect / serve / 404
    assert red[q('/f/1.5/-2e3')][0] == 302
    assert red[q('/f/1.5/-2e3')][1] == 'http://localhost/f/1.5/-2e3/?t=9'
    assert rew[q('/f/1.5/-2e3')][3].startswith(b"float 9 [('a', 1.5), ('b', -2000.0)]")
    assert strict[q('/f/1.5/-2e3')][0] == 404
    assert red[q('/f//1//2//')][1] == 'http://localhost/f/1/2/?t=12'
    assert rew[q('/f//1//2//')][0] == 200
    assert red[q('/s/0/%20/%C3%A9')][3] == (
        u"str 14 [('a', '0'), ('b', ' '), ('c', '\xe9')] /s/<a:str>/<b:unicode>/<c>"
        .encode('utf8'))
    assert red[q('/o')][3] == b"opt 17 [('a', None)] /o/<a?int>"
    assert red[q('/o/')][3] == b"opt 18 [('a', None)] /o/<a?int>"
    assert red[q('/o/0')][3] == b"opt 22 [('a', 0)] /o/<a?int>"
    assert red[q('/o/x')][0] == 404
    assert red[q('/m/1/2/3')][3] == b"plus 24 [('a', [1, 2, 3])] /m/<a+int>"
    assert red[q('/m')][0] == 404 and red[q('/m/')][0] == 404
    # the multi converter splits on single slashes: '' is not an int -> no match
    assert red[q('/m//1//2')][0] == 404
    assert red[q('/z/')][3] == b"star 31 [('a', [])] /z/<a*float>/"
    assert red[q('/z')][0] == 302 and red[q('/z')][1] == 'http://localhost/z/?t=30'
    assert rew[q('/z')][3] == b"star 30 [('a', [])] /z/<a*float>/"
    assert red[q('/z/1/2.5/')][3] == b"star 33 [('a', [1.0, 2.5])] /z/<a*float>/"
    assert red[q('/z/1/2.5')][1] == 'http://localhost/z/1/2.5/?t=34'
    assert red[q('/mix/1')][3] == b"mix 36 [('a', 1), ('b', None)] /mix/<a:int>/<b?>"
    assert red[q('/mix/0/0')][3] == b"mix 40 [('a', 0), ('b', '0')] /mix/<a:int>/<b?>"
    assert red[q('/branch')][0] == 302 and rew[q('/branch')][0] == 200
    assert strict[q('/branch')][0] == 404 and strict[q('/branch/')][0] == 200
    assert red[q('//branch//')][1] == 'http://localhost/branch/?t=43'
    assert red[q('/leaf/')][0] == 200 and strict[q('/leaf/')][0] == 404
    assert red[q('/nope')][0] == 404 and red[q('/')][0] == 404
    assert red[('POST', '/m/4/5', 't=p1')][3] == b"plus-post p1 [('a', [4, 5])] /m/<a+int>"
    assert red[('POST', '/i/5', 't=p2')][0] == 405
    assert red[('POST', '/i/5', 't=p2')][2] == 'GET, HEAD'
    assert red[('DELETE', '/z/1/', 't=p3')][0] == 405


def main():
    check_units()
    apps = build_apps()
    expected = [[send(app, r) for r in REQUESTS] for _, app in apps]
    check_sequential(apps, expected)

    old_interval = sys.getswitchinterval()
    sys.setswitchinterval(1e-6)
    errors = []
    n_threads, rounds = 4, 4
    barrier = threading.Barrier(n_threads)

    def worker(idx):
        try:
            order = REQUESTS[idx * 7:] + REQUESTS[:idx * 7]
            if idx % 2:
                order = order[::-1]
            barrier.wait()
            for _ in range(rounds):
                for req in order:
                    for (label, app), exp in zip(apps, expected):
                        got = send(app, req)
                        want = exp[REQUESTS.index(req)]
                        if got != want:
                            errors.append((idx, label, req, got, want))
        except Exception:  # pragma: no cover
            import traceback
            errors.append((idx, 'crash', traceback.format_exc()))

    threads = [threading.Thread(target=worker, args=(i,)) for i in range(n_threads)]
    for t in threads:
        t.start()
    for t in threads:
        t.join()
    sys.setswitchinterval(old_interval)
    assert not errors, errors[:3]
    print('PASS')


if __name__ == '__main__':
    main()
