# -*- coding: utf-8 -*-
"""demo2: middlewares nest in the documented M-shaped order (C03).

Focus of this demo: sinter.make_chain / compile_chain, which decide the
order of the levels (final function innermost), the signature of the
outermost level and what is reported as unresolved.
"""
import os
import sys
import linecache

sys.path.insert(0, os.path.dirname(os.path.abspath(__file__)))

from clastic import Application, Route, Response
from clastic.middleware import Middleware
from clastic.middleware.core import make_middleware_chain, merge_middlewares
from clastic.sinter import make_chain, compile_chain, chain_argspec

TRACE = []


class Boom(Exception):
    pass


class Tracer(Middleware):
    """Traces every stage; *plan* maps stage -> behaviour."""
    unique = False

    def __init__(self, label, plan=None):
        self.label = label
        self.plan = plan or {}

    def _run(self, stage, next):
        what = self.plan.get(stage)
        TRACE.append('>%s.%s' % (self.label, stage))
        if what == 'raise_before':
            TRACE.append('!%s.%s' % (self.label, stage))
            raise Boom('%s.%s' % (self.label, stage))
        if what == 'short':
            TRACE.append('<%s.%s' % (self.label, stage))
            return Response('short:%s.%s' % (self.label, stage))
        if what == 'swallow':
            try:
                ret = next()
            except Boom as e:
                TRACE.append('~%s.%s' % (self.label, stage))
                ret = Response('swallowed:%s' % e)
        else:
            try:
                ret = next()
            except Boom:
                TRACE.append('^%s.%s' % (self.label, stage))
                raise
        if what == 'raise_after':
            TRACE.append('!%s.%s' % (self.label, stage))
            raise Boom('%s.%s' % (self.label, stage))
        TRACE.append('<%s.%s' % (self.label, stage))
        return ret

    def request(self, next, request):
        return self._run('request', next)

    def endpoint(self, next):
        return self._run('endpoint', next)

    def render(self, next, context):
        return self._run('render', next)


def make_endpoint(plan=None):
    def endpoint(request):
        TRACE.append('>ep')
        if plan == 'raise':
            TRACE.append('!ep')
            raise Boom('ep')
        TRACE.append('<ep')
        if plan == 'response':
            return Response('direct')
        return {'k': 'v'}
    return endpoint


def make_render(plan=None):
    def render(context):
        TRACE.append('>rn')
        if plan == 'raise':
            TRACE.append('!rn')
            raise Boom('rn')
        TRACE.append('<rn')
        return Response('rendered:%s' % sorted(context.items()))
    return render


def run(mws, ep_plan=None, rn_plan=None):
    del TRACE[:]
    chain = make_middleware_chain(mws, make_endpoint(ep_plan), make_render(rn_plan),
                                  ['request'])
    try:
        resp = chain(request='REQ')
        out = resp.get_data(as_text=True)
    except Boom as e:
        out = 'Boom:%s' % e
    return out, list(TRACE)


def expect_full(labels):
    t = ['>%s.request' % l for l in labels]
    t += ['>%s.endpoint' % l for l in labels]
    t += ['>ep', '<ep']
    t += ['<%s.endpoint' % l for l in reversed(labels)]
    t += ['>%s.render' % l for l in labels]
    t += ['>rn', '<rn']
    t += ['<%s.render' % l for l in reversed(labels)]
    t += ['<%s.request' % l for l in reversed(labels)]
    return t


def main():
    # 1. plain M shape for 0..4 middlewares
    for n in range(5):
        labels = ['m%d' % i for i in range(n)]
        out, trace = run([Tracer(l) for l in labels])
        assert out == "rendered:[('k', 'v')]", out
        assert trace == expect_full(labels), (n, trace)

    # 2. endpoint returns a Response: render side skipped entirely
    out, trace = run([Tracer('a'), Tracer('b')], ep_plan='response')
    assert out == 'direct'
    assert trace == ['>a.request', '>b.request', '>a.endpoint', '>b.endpoint', '>ep', '<ep',
                     '<b.endpoint', '<a.endpoint', '<b.request', '<a.request'], trace

    # 3. endpoint middleware short-circuits with a Response: endpoint and render skipped
    out, trace = run([Tracer('a'), Tracer('b', {'endpoint': 'short'}), Tracer('c')])
    assert out == 'short:b.endpoint'
    assert trace == ['>a.request', '>b.request', '>c.request', '>a.endpoint', '>b.endpoint',
                     '<b.endpoint', '<a.endpoint', '<c.request', '<b.request', '<a.request'], trace

    # 4. request middleware short-circuits: nothing inside runs
    out, trace = run([Tracer('a'), Tracer('b', {'request': 'short'}), Tracer('c')])
    assert out == 'short:b.request'
    assert trace == ['>a.request', '>b.request', '<b.request', '<a.request'], trace

    # 5. render middleware short-circuits: render function skipped
    out, trace = run([Tracer('a', {'render': 'short'}), Tracer('b')])
    assert out == 'short:a.render'
    assert trace[-4:] == ['>a.render', '<a.render', '<b.request', '<a.request'], trace
    assert '>rn' not in trace and '>b.render' not in trace

    # 6. every single raising position unwinds through every enclosing layer
    labels = ['a', 'b', 'c']
    for who in labels:
        for stage in ('request', 'endpoint', 'render'):
            for when in ('raise_before', 'raise_after'):
                mws = [Tracer(l, {stage: when} if l == who else None) for l in labels]
                out, trace = run(mws)
                assert out == 'Boom:%s.%s' % (who, stage), out
                idx = labels.index(who)
                outer = labels[:idx]
                # enclosing layers of the same stage see the exception in reverse order
                tail = ['^%s.%s' % (l, stage) for l in reversed(outer)]
                if stage != 'request':
                    tail += ['^%s.request' % l for l in reversed(labels)]
                assert trace[-len(tail):] == tail if tail else True, (who, stage, when, trace)
                bang = trace.index('!%s.%s' % (who, stage))
                assert trace[bang + 1:] == tail, (who, stage, when, trace)
                if when == 'raise_before':
                    assert trace[bang - 1] == '>%s.%s' % (who, stage)
                if stage == 'endpoint':
                    assert '>rn' not in trace and '>a.render' not in trace

    # 7. endpoint / render raising, and swallowing at each layer
    out, trace = run([Tracer('a'), Tracer('b')], ep_plan='raise')
    assert out == 'Boom:ep'
    assert trace == ['>a.request', '>b.request', '>a.endpoint', '>b.endpoint', '>ep', '!ep',
                     '^b.endpoint', '^a.endpoint', '^b.request', '^a.request'], trace
    out, trace = run([Tracer('a'), Tracer('b')], rn_plan='raise')
    assert out == 'Boom:rn'
    assert trace[-6:] == ['>rn', '!rn', '^b.render', '^a.render', '^b.request', '^a.request'], trace

    out, trace = run([Tracer('a'), Tracer('b', {'endpoint': 'swallow'}), Tracer('c')], ep_plan='raise')
    assert out == 'swallowed:ep'
    assert trace == ['>a.request', '>b.request', '>c.request',
                     '>a.endpoint', '>b.endpoint', '>c.endpoint', '>ep', '!ep',
                     '^c.endpoint', '~b.endpoint', '<b.endpoint', '<a.endpoint',
                     '<c.request', '<b.request', '<a.request'], trace
    out, trace = run([Tracer('a', {'request': 'swallow'}), Tracer('b')], rn_plan='raise')
    assert out == 'swallowed:rn'
    assert trace[-6:] == ['!rn', '^b.render', '^a.render', '^b.request', '~a.request', '<a.request'], trace

    # 8. make_chain / compile_chain: nesting, argument resolution, returned containers
    log = []

    def outer(next, a, x=1):
        log.append(('outer', a, x))
        return ('o', next(b=a + 1))

    def mid(next, b, c):
        log.append(('mid', b, c))
        return ('m', next())

    def final(a, b, d=4, e=5):
        log.append(('final', a, b, d, e))
        return ('f', a, b, d, e)

    assert chain_argspec([outer, mid, final], [('b',), (), ()], 'next') == ({'a', 'c'}, {'x', 'd', 'e'})
    chain, args, unres = make_chain((outer, mid), (('b',), ()), final, ['a', 'c', 'e', 'zzz'], 'next')
    assert type(args) is set and args == {'a', 'c', 'e'}, args
    assert type(unres) is set and unres == set(), unres
    assert chain.__name__ == 'next'
    assert sorted(chain.__code__.co_varnames[:chain.__code__.co_argcount]) == ['a', 'c', 'e']
    funcs_env = chain.__globals__['funcs']
    assert type(funcs_env) is list and funcs_env == [outer, mid, final]
    assert [f is g for f, g in zip(funcs_env, (outer, mid, final))] == [True] * 3
    assert chain(a=1, c=3, e=9) == ('o', ('m', ('f', 1, 2, 4, 9)))
    assert log == [('outer', 1, 1), ('mid', 2, 3), ('final', 1, 2, 4, 9)], log
    # the returned sets are the caller's: emptying them leaves the chain alone
    args.clear()
    unres.add('junk')
    assert chain(a=0, c='', e=None) == ('o', ('m', ('f', 0, 1, 4, None)))
    src = ''.join(linecache.cache[chain.__code__.co_filename][2])
    lines = src.splitlines()
    assert lines[0].startswith('def next(') and sorted(lines[0][9:-2].split(', ')) == ['a', 'c', 'e']
    assert lines[1:] == ['    def next(b):',
                         '        def next():',
                         '            __traceback_hide__ = True',
                         '            return funcs[2](a=a, b=b, e=e)',
                         '        __traceback_hide__ = True',
                         '        return funcs[1](b=b, c=c, next=next)',
                         '    __traceback_hide__ = True',
                         '    return funcs[0](a=a, next=next)'], lines
    assert chain.__code__.co_filename.startswith('<sinter generated next ')

    # unresolved arguments are reported, not raised; one-shot iterables are fine
    chain, args, unres = make_chain(iter([outer, mid]), iter([('b',), ()]), final, iter(['a']), 'next')
    assert (args, unres) == ({'a', 'c'}, {'c'}) and args is not unres
    assert chain(a=5, c=6) == ('o', ('m', ('f', 5, 6, 4, 5)))
    # no middlewares at all: the chain is just the final function
    chain, args, unres = make_chain([], [], final, {'a', 'b', 'd'}, 'next')
    assert (args, unres) == ({'a', 'b', 'd'}, set())
    assert chain(a=1, b=2, d=3) == ('f', 1, 2, 3, 5)
    chain, args, unres = make_chain((), (), lambda: 'nil', (), 'next')
    assert (args, unres) == (set(), set()) and chain() == 'nil'
    # a different inner name, exceptions pass through every level untouched
    def guard(nxt, seen):
        try:
            return nxt()
        except KeyError as e:
            seen.append(e)
            raise

    def bad():
        raise KeyError('k')

    chain, args, unres = make_chain([guard, guard], [(), ()], bad, ['seen'], 'nxt')
    seen = []
    try:
        chain(seen=seen)
    except KeyError as e:
        assert seen == [e, e]
    else:
        raise AssertionError('KeyError expected')
    c2 = compile_chain([final], [['a', 'b']], 'next')
    assert c2(1, 2) == ('f', 1, 2, 4, 5) and c2(b=1, a=2) == ('f', 2, 1, 4, 5)

    # 9. through a real application: app-level, then route-level middlewares
    del TRACE[:]
    route = Route('/', make_endpoint(), make_render(), middlewares=[Tracer('r1'), Tracer('r2')])
    app = Application([route], middlewares=[Tracer('A1'), Tracer('A2')])
    resp = app.get_local_client().get('/')
    assert resp.status_code == 200 and resp.data == b"rendered:[('k', 'v')]"
    assert TRACE == expect_full(['A1', 'A2', 'r1', 'r2']), TRACE
    merged = merge_middlewares([Tracer('x')], [Tracer('y')])
    assert [m.label for m in merged] == ['y', 'x']

    print('PASS')


if __name__ == '__main__':
    main()
