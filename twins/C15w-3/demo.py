# -*- coding: utf-8 -*-
"""demo3: GET/POST parameter extractors (and script root) never change what
the client receives; their constructor argument handling is unchanged."""
import json
import os
import re
import sys
import warnings

warnings.simplefilter('ignore')
sys.path.insert(0, os.path.dirname(os.path.abspath(__file__)))

from collections import OrderedDict

from clastic import Application, render_basic, redirect, Response, GET, POST
from clastic.errors import NotFound, Forbidden, BadRequest, ServiceUnavailable
from clastic.middleware import GetParamMiddleware
from clastic.middleware.url import ScriptRootMiddleware
from clastic.middleware.form import PostDataMiddleware
import clastic.middleware.url as url_mod
import clastic.middleware.form as form_mod


# ---- the scenario application: every kind of response -------------------

def ep_resp():
    return Response('plain response body', mimetype='text/plain')

def ep_ctx():
    return {'a': 1, 'b': [1, 2, 3]}

def ep_redirect():
    return redirect('/resp')

def ep_raise_403():
    raise Forbidden('no entry')

def ep_return_404():
    return NotFound('returned, not raised')

def ep_nonbreaking():
    raise BadRequest('try the next one', is_breaking=False)

def ep_503():
    raise ServiceUnavailable()

def ep_boom():
    raise ValueError('uncaught \udcff <b>boom</b>')

def ep_binary():
    return Response(bytes(bytearray(range(256))) * 4,
                    mimetype='application/octet-stream')

def ep_empty():
    return Response(b'', mimetype='text/plain')


def make_routes(extra=()):
    return [('/resp', ep_resp),
            ('/ctx', ep_ctx, render_basic),
            ('/redir', ep_redirect),
            ('/403', ep_raise_403),
            ('/404', ep_return_404),
            ('/nb', ep_nonbreaking),
            ('/503', ep_503),
            ('/boom', ep_boom),
            ('/bin', ep_binary),
            ('/empty', ep_empty),
            GET('/getonly', ep_resp),
            POST('/postonly', ep_resp)] + list(extra)


REQUESTS = [('GET', '/resp'), ('HEAD', '/resp'), ('GET', '/ctx'),
            ('GET', '/ctx?format=json'), ('GET', '/redir'), ('GET', '/403'),
            ('GET', '/404'), ('GET', '/nb'), ('GET', '/503'), ('GET', '/boom'),
            ('GET', '/bin'), ('GET', '/empty'), ('GET', '/unknown/url'),
            ('POST', '/getonly'), ('GET', '/postonly'), ('POST', '/postonly'),
            ('GET', '/resp?a=1&n=5&n=6&bad=xyz'), ('GET', '/403?a=1&n=notint')]
ACCEPTS = [None, 'text/html', 'application/json', 'application/xml', 'text/plain']


def normalize(resp):
    """The body of an uncaught-exception 500 describes the call stack (which
    legitimately contains the middleware frames): blank that part out."""
    body = resp.get_data()
    if resp.status_code != 500:
        return body
    body = re.sub(br'\(\d+ frames', b'(N frames', body)
    if resp.headers.get('Content-Type') == 'application/json':
        parsed = json.loads(body.decode('utf8'))
        assert parsed['exc_info'].pop('exc_tb')['frames']
        body = json.dumps(parsed, sort_keys=True).encode('utf8')
    return body


def observe(app):
    cl = app.get_local_client()
    out = []
    for method, url in REQUESTS:
        for accept in ACCEPTS:
            headers = {'Accept': accept} if accept else {}
            data = {'a': 'x', 'n': '7'} if method == 'POST' else None
            resp = cl.open(url, method=method, headers=headers, data=data)
            body = normalize(resp)
            out.append((method, url, accept, resp.status_code, body,
                        resp.headers.get('Content-Type'),
                        resp.headers.get('Location'), resp.headers.get('Allow')))
    return out


baseline = observe(Application(make_routes()))
assert {r[3] for r in baseline} >= {200, 302, 403, 404, 405, 400, 500, 503}

MW_CONFIGS = [
    lambda: [GetParamMiddleware({})],
    lambda: [GetParamMiddleware('a')],
    lambda: [GetParamMiddleware(['a', 'n', 'bad'])],
    lambda: [GetParamMiddleware({'a': str, 'n': int, 'bad': float})],
    lambda: [GetParamMiddleware(('a',)), PostDataMiddleware({'n': int})],
    lambda: [PostDataMiddleware('a')],
    lambda: [PostDataMiddleware(iter(['a', 'n']))],
    lambda: [PostDataMiddleware({})],
    lambda: [ScriptRootMiddleware()],
    lambda: [ScriptRootMiddleware('sr'), GetParamMiddleware({'n': int}),
             PostDataMiddleware({'a': str})],
]
for make_mws in MW_CONFIGS:
    mws = make_mws()
    got = observe(Application(make_routes(), middlewares=mws))
    assert got == baseline, (mws, [(g, b) for g, b in zip(got, baseline) if g != b][:2])


# ---- the values the extractors hand to the endpoint --------------------------

def ep_show(a, n, bad):
    return Response(repr((a, n, bad)), mimetype='text/plain')

app = Application([('/show', ep_show)],
                  middlewares=[GetParamMiddleware(OrderedDict([('a', str), ('n', int), ('bad', float)]))])
cl = app.get_local_client()
assert cl.get('/show').get_data() == b"(None, None, None)"
assert cl.get('/show?a=&n=0&bad=0').get_data() == b"('', 0, 0.0)"
assert cl.get('/show?a=x&a=y&n=notint&bad=1e3').get_data() == b"('x', None, 1000.0)"

app = Application([POST('/show', ep_show)],
                  middlewares=[PostDataMiddleware(['a', 'n', 'bad'])])
cl = app.get_local_client()
assert cl.post('/show', data={'a': u'\xe9', 'n': '5'}).get_data(True) == repr((u'\xe9', '5', None))
assert cl.post('/show').get_data() == b"(None, None, None)"
assert cl.get('/show').status_code == 405


# ---- constructor argument handling -----------------------------------------

class Names(object):
    "an iterable that is neither a str nor a Mapping"
    def __iter__(self):
        return iter(['x', 'y'])


for mw_type in (GetParamMiddleware, PostDataMiddleware):
    # a mapping is used as-is (aliased, not copied)
    mapping = OrderedDict([('z', int), ('a', str)])
    mw = mw_type(mapping)
    assert mw.params is mapping
    assert mw.provides == ('z', 'a') and type(mw.provides) is tuple
    assert repr(mw) == "%s(params={'z': 'int', 'a': 'str'})" % mw_type.__name__

    mw = mw_type('name')
    assert mw.params == {'name': str} and type(mw.params) is dict
    assert mw.provides == ('name',)

    mw = mw_type('')  # a str wins over "iterable"
    assert mw.params == {'': str} and mw.provides == ('',)

    for names in (['p', 'q', 'p'], ('p', 'q'), iter(['p', 'q']), (n for n in 'pq')):
        mw = mw_type(names)
        assert mw.params == {'p': str, 'q': str}, mw.params
        assert type(mw.params) is dict and list(mw.params) == ['p', 'q']
        assert mw.provides == ('p', 'q')
    assert mw_type(Names()).provides == ('x', 'y')
    assert mw_type([]).provides == () and mw_type([]).params == {}
    assert mw_type({}).provides == ()
    assert mw_type(b'ab').params == {97: str, 98: str}  # bytes: iterable of ints

    for bad in (None, 5, 1.5, object(), True):
        try:
            mw_type(bad) if bad is not None else mw_type()
        except TypeError as te:
            assert str(te) == 'expected a string, dict, mapping, or iterable.', te
        else:
            raise AssertionError('no TypeError for %r' % (bad,))

    for bad in ({'a': 'str'}, {'a': None}, {'a': int, 'b': 5}, {'a': int()}):
        try:
            mw_type(bad)
        except TypeError as te:
            assert str(te) == 'param mapping values must be a valid type', te
        else:
            raise AssertionError('no TypeError for %r' % (bad,))

    # .params is already assigned when the value check fails (ordering of
    # the two steps), observable from a subclass
    class Lenient(mw_type):
        def __init__(self, params=None):
            try:
                super(Lenient, self).__init__(params)
            except TypeError:
                self.provides = ()
    bad_map = {'a': 1}
    assert Lenient(bad_map).params is bad_map
    assert not hasattr(Lenient(5), 'params')

# names that used to be importable from the two modules still are
for mod in (url_mod, form_mod):
    for name in ('Mapping', 'Iterable', 'is_iterable', 'unicode', 'Middleware'):
        assert hasattr(mod, name), (mod, name)
assert url_mod.unicode is str

print('PASS')
