# -*- coding: utf-8 -*-
"""demo2: C03 -- middlewares nest in the documented M-shaped order.

Focus: make_middleware_chain and the generated process_request, driven directly:
request chain around (endpoint chain, then render chain unless a Response came
back), every single / double fault, provides flow, bind-time errors.

Standalone: run with /venv/bin/python demo2.py from the worktree; prints PASS.
"""
import os
import sys

sys.path.insert(0, os.path.dirname(os.path.abspath(__file__)))

from werkzeug.test import EnvironBuilder

from clastic import Application, Route, Middleware, Response, BaseResponse
from clastic.middleware.core import merge_middlewares

# --------------------------------------------------------------------------
# harness: tracing middlewares / endpoint / render, plus an independent model
# --------------------------------------------------------------------------

TRACE = []
PRODUCED = []  # every value object created by a layer / endpoint / render


class Boom(Exception):
    def __init__(self, tag):
        Exception.__init__(self, tag)
        self.tag = tag


def _produce(obj):
    PRODUCED.append(obj)
    return obj


def _run_layer(tag, mode, next):
    TRACE.append('>' + tag)
    if mode == 'raise_before':
        TRACE.append('!' + tag)
        raise Boom(tag)
    if mode == 'short':
        TRACE.append('<' + tag + ':short')
        return _produce(Response('short:' + tag))
    if mode == 'short_ctx':
        TRACE.append('<' + tag + ':short_ctx')
        return _produce({'ctx': 'short:' + tag})
    try:
        ret = next()
    except Boom as e:
        if mode == 'swallow':
            TRACE.append('~' + tag)
            return _produce(Response('swallowed:%s@%s' % (e.tag, tag)))
        TRACE.append('x' + tag)
        raise
    if mode == 'raise_after':
        TRACE.append('!' + tag)
        raise Boom(tag)
    TRACE.append('<' + tag)
    return ret


def mw_class(name, kinds='qer', unique=True, reorderable=True):
    ns = {'unique': unique, 'reorderable': reorderable}

    def __init__(self, label=None, **modes):
        self.label = label or name
        self.modes = modes
    ns['__init__'] = __init__
    ns['__repr__'] = lambda self: '<mw %s>' % self.label

    if 'q' in kinds:
        def request(self, next):
            return _run_layer(self.label + '.request',
                              self.modes.get('request', 'pass'), next)
        ns['request'] = request
    if 'e' in kinds:
        def endpoint(self, next):
            return _run_layer(self.label + '.endpoint',
                              self.modes.get('endpoint', 'pass'), next)
        ns['endpoint'] = endpoint
    if 'r' in kinds:
        def render(self, next, context):
            return _run_layer(self.label + '.render',
                              self.modes.get('render', 'pass'), next)
        ns['render'] = render
    return type(name, (Middleware,), ns)


class Core(object):
    """endpoint + render pair with switchable behaviour."""
    def __init__(self):
        self.ep_mode = 'ctx'
        self.rn_mode = 'ok'
        core = self

        def endpoint():
            TRACE.append('>endpoint')
            if core.ep_mode == 'raise':
                TRACE.append('!endpoint')
                raise Boom('endpoint')
            TRACE.append('<endpoint')
            if core.ep_mode == 'resp':
                return _produce(Response('ep-resp'))
            return _produce({'ctx': 'from-endpoint'})

        def render(context):
            TRACE.append('>render')
            if core.rn_mode == 'raise':
                TRACE.append('!render')
                raise Boom('render')
            TRACE.append('<render')
            return _produce(Response('rendered:' + context['ctx']))

        self.endpoint = endpoint
        self.render = render


def tokenise(obj):
    if isinstance(obj, BaseResponse):
        return ('resp', obj.get_data(as_text=True))
    return ('ctx', obj['ctx'])


def run_real(func, **kwargs):
    del TRACE[:]
    del PRODUCED[:]
    try:
        ret = func(**kwargs)
    except Boom as e:
        result = ('raised', e.tag)
    else:
        result = tokenise(ret)
        # what comes out of the chain IS the object some layer produced
        assert any(ret is p for p in PRODUCED), ret
    return list(TRACE), result


def layers(mws, kind):
    return [(mw.label + '.' + kind, mw.modes.get(kind, 'pass'))
            for mw in mws if getattr(mw, kind)]


def model(mws, ep_mode, rn_mode):
    """Independent reference semantics of the documented onion."""
    trace = []

    def chain(stack, final, i=0):
        if i == len(stack):
            return final()
        tag, mode = stack[i]
        trace.append('>' + tag)
        if mode == 'raise_before':
            trace.append('!' + tag)
            raise Boom(tag)
        if mode == 'short':
            trace.append('<' + tag + ':short')
            return ('resp', 'short:' + tag)
        if mode == 'short_ctx':
            trace.append('<' + tag + ':short_ctx')
            return ('ctx', 'short:' + tag)
        try:
            ret = chain(stack, final, i + 1)
        except Boom as e:
            if mode == 'swallow':
                trace.append('~' + tag)
                return ('resp', 'swallowed:%s@%s' % (e.tag, tag))
            trace.append('x' + tag)
            raise
        if mode == 'raise_after':
            trace.append('!' + tag)
            raise Boom(tag)
        trace.append('<' + tag)
        return ret

    def ep_final():
        trace.append('>endpoint')
        if ep_mode == 'raise':
            trace.append('!endpoint')
            raise Boom('endpoint')
        trace.append('<endpoint')
        return ('resp', 'ep-resp') if ep_mode == 'resp' else ('ctx', 'from-endpoint')

    def process_request():
        context = chain(layers(mws, 'endpoint'), ep_final)
        if context[0] == 'resp':
            return context

        def rn_final():
            trace.append('>render')
            if rn_mode == 'raise':
                trace.append('!render')
                raise Boom('render')
            trace.append('<render')
            return ('resp', 'rendered:' + context[1])
        return chain(layers(mws, 'render'), rn_final)

    try:
        result = chain(layers(mws, 'request'), process_request)
    except Boom as e:
        result = ('raised', e.tag)
    return trace, result


def model_merge(levels):
    """levels: outermost first.  Unique type appears once, outermost position."""
    out = []
    for level in levels:
        for mw in level:
            if mw.unique and any(type(o) is type(mw) for o in out):
                if not mw.reorderable:
                    raise ValueError('multiple inclusion of unique '
                                     'middleware %r' % mw.name)
                continue
            out.append(mw)
    return out


FAULTS = ('raise_before', 'raise_after', 'short', 'short_ctx', 'swallow')
CHECKS = [0]


def check_stack(execute, mws, core, full=True):
    """Cross every single / double fault with endpoint + render behaviours."""
    def one():
        got = run_real(execute)
        want = model(mws, core.ep_mode, core.rn_mode)
        assert got == want, '\n got %r\nwant %r' % (got, want)
        CHECKS[0] += 1

    def reset():
        for mw in mws:
            mw.modes.clear()

    slots = [(mw, kind) for mw in mws for kind in ('request', 'endpoint', 'render')
             if getattr(mw, kind)]
    for core.ep_mode in ('ctx', 'resp', 'raise'):
        for core.rn_mode in ('ok', 'raise'):
            reset()
            one()
            for mw, kind in slots:
                for fault in FAULTS:
                    reset()
                    mw.modes[kind] = fault
                    one()
    if full:
        # swallow at X crossed with a raise at Y
        core.ep_mode, core.rn_mode = 'ctx', 'ok'
        for smw, skind in slots:
            for rmw, rkind in slots:
                if smw is rmw and skind == rkind:
                    continue
                for fault in ('raise_before', 'raise_after'):
                    reset()
                    smw.modes[skind] = 'swallow'
                    rmw.modes[rkind] = fault
                    one()
    reset()
    core.ep_mode, core.rn_mode = 'ctx', 'ok'


def make_request(app, path='/'):
    return app.request_type(EnvironBuilder(path=path).get_environ())


def find_route(app, pattern):
    found = [rt for rt in app.routes if rt.pattern == pattern]
    assert len(found) == 1, (pattern, [rt.pattern for rt in app.routes])
    return found[0]


def same_objects(a, b):
    return len(a) == len(b) and all(x is y for x, y in zip(a, b))


# --------------------------------------------------------------------------
# demo 2 proper: make_middleware_chain / process_request, driven directly
# --------------------------------------------------------------------------
import ast

from clastic.middleware.core import make_middleware_chain

A = mw_class('A')
B = mw_class('B')
C = mw_class('C', kinds='qe')
D = mw_class('D', kinds='er')
E = mw_class('E', kinds='q')
F = mw_class('F', kinds='r')
G = mw_class('G', kinds='')       # no functions at all
N = mw_class('N', unique=False)


def test_stacks():
    stacks = [
        [],
        [A('a')],
        [G('g')],
        [A('a'), B('b'), C('c')],
        [C('c'), D('d'), E('e'), F('f'), G('g')],
        [N('n1'), N('n2')],
        [E('e'), F('f')],
        (D('d'), A('a'), C('c'), N('n'), B('b')),     # tuple of middlewares
    ]
    for mws in stacks:
        core = Core()
        chain = make_middleware_chain(mws, core.endpoint, core.render, [])
        assert chain.__name__ == 'next'
        check_stack(chain, list(mws), core, full=(len(mws) <= 3))
    # preprovided of different iterable kinds, with reserved names inside
    for pre in (set(), ['next', 'context'], ('request',), iter(['next'])):
        core = Core()
        mws = [A('a'), D('d')]
        chain = make_middleware_chain(mws, core.endpoint, core.render, pre)
        check_stack(chain, mws, core, full=False)


def test_one_shot_iterable():
    # a generator of middlewares is consumed by the request pass: only request
    # layers end up in the chain (long-standing behaviour, kept as is)
    core = Core()
    mws = [A('a'), B('b')]
    chain = make_middleware_chain((mw for mw in mws), core.endpoint, core.render, [])
    got = run_real(chain)
    assert got == (['>a.request', '>b.request', '>endpoint', '<endpoint',
                    '>render', '<render', '<b.request', '<a.request'],
                   ('resp', 'rendered:from-endpoint')), got
    CHECKS[0] += 1


class ProvReq(Middleware):
    provides = ('token', 'unused')

    def request(self, next, request):
        TRACE.append('>ProvReq')
        ret = next(token='tok:' + request, unused=None)
        TRACE.append('<ProvReq')
        return ret


class ProvEp(Middleware):
    endpoint_provides = ('user',)

    def endpoint(self, next, token, res):
        TRACE.append('>ProvEp')
        ret = next(user='user-of-%s-%s' % (token, res))
        TRACE.append('<ProvEp')
        return ret


class ProvRn(Middleware):
    render_provides = ['style']

    def render(self, next, context, token):
        TRACE.append('>ProvRn')
        assert context['token'] == token
        ret = next(style='fancy')
        TRACE.append('<ProvRn')
        return ret


def test_provides_flow():
    seen = {}

    def endpoint(user, token, request, opt='dflt', other='other-dflt'):
        TRACE.append('endpoint')
        seen['endpoint'] = (user, token, request, opt, other)
        return {'token': token, 'user': user}

    def render(context, style, request, res):
        TRACE.append('render')
        seen['render'] = (style, request, res)
        return _produce(Response('%s/%s' % (context['user'], style)))

    mws = [ProvReq(), ProvEp(), ProvRn()]
    chain = make_middleware_chain(mws, endpoint, render,
                                  ['request', 'res', 'opt', 'context', 'next'])
    trace, result = run_real(chain, request='REQ', res='RES', opt='given')
    assert trace == ['>ProvReq', '>ProvEp', 'endpoint', '<ProvEp',
                     '>ProvRn', 'render', '<ProvRn', '<ProvReq'], trace
    assert result == ('resp', 'user-of-tok:REQ-RES/fancy'), result
    assert seen['endpoint'] == ('user-of-tok:REQ-RES', 'tok:REQ', 'REQ',
                                'given', 'other-dflt'), seen
    assert seen['render'] == ('fancy', 'REQ', 'RES')
    # 'context' and 'next' are never demanded from the caller
    try:
        chain(request='REQ', res='RES', opt='given', context={})
    except TypeError:
        pass
    else:
        raise AssertionError('context must not be a chain argument')
    # same order regardless of middleware list order for provides resolution
    chain = make_middleware_chain(mws, endpoint, render, ['request', 'res'])
    trace, result = run_real(chain, request='R2', res='S2')
    assert result == ('resp', 'user-of-tok:R2-S2/fancy')
    assert seen['endpoint'][3:] == ('dflt', 'other-dflt')
    CHECKS[0] += 2


def test_context_kinds():
    # only BaseResponse instances skip render; falsy contexts are rendered
    class MyResp(Response):
        pass

    for ctx, skip in ((None, False), (0, False), ('', False), ({}, False),
                      ([], False), (Response, False),   # the class, not an instance
                      (Response('x'), True), (MyResp('y'), True),
                      (BaseResponse('z'), True)):
        calls = []

        def endpoint():
            return ctx

        def render(context):
            calls.append(context)
            return ('rendered', context)

        mw = D('d')
        chain = make_middleware_chain([mw], endpoint, render, [])
        del TRACE[:]
        ret = chain()
        if skip:
            assert ret is ctx and calls == []
            assert TRACE == ['>d.endpoint', '<d.endpoint'], TRACE
        else:
            assert len(calls) == 1 and calls[0] is ctx
            assert ret[0] == 'rendered' and ret[1] is ctx
            assert TRACE == ['>d.endpoint', '<d.endpoint', '>d.render', '<d.render']
        CHECKS[0] += 1


def _name_error(mws, endpoint, render, pre=()):
    try:
        make_middleware_chain(mws, endpoint, render, pre)
    except NameError as ne:
        return str(ne)
    raise AssertionError('expected NameError')


def _split_unresolved(msg):
    head, _, tail = msg.partition(': ')
    return head, sorted(ast.literal_eval(tail))


def test_errors():
    def ok_ep():
        return {}

    def ok_rn(context):
        return Response('')

    def next_ep(next):
        return {}

    def next_rn(next, context):
        return Response('')

    def needy_ep(missing, gone):
        return {}

    def needy_rn(context, nope):
        return Response('')

    class NeedyReq(Middleware):
        def request(self, next, nada):
            return next()

    class NeedyEp(Middleware):
        def endpoint(self, next, zilch):
            return next()

    class NeedyRn(Middleware):
        def render(self, next, zip_):
            return next()

    class CtxReq(Middleware):
        def request(self, next, context):
            return next()

    class CtxEp(Middleware):
        def endpoint(self, next, context):
            return next()

    tmpl = "argument 'next' reserved for middleware use only (%r)"
    assert _name_error([], next_ep, ok_rn) == tmpl % next_ep
    assert _name_error([], ok_ep, next_rn) == tmpl % next_rn
    assert _name_error([], next_ep, next_rn) == tmpl % next_ep
    # the 'next' check precedes every resolution problem
    assert _name_error([NeedyReq(), NeedyEp()], needy_ep, next_rn) == tmpl % next_rn

    ep_head = 'unresolved endpoint middleware arguments'
    rn_head = 'unresolved render middleware arguments'
    rq_head = 'unresolved request middleware arguments'
    assert _split_unresolved(_name_error([], needy_ep, ok_rn)) == (ep_head, ['gone', 'missing'])
    assert _name_error([NeedyEp()], ok_ep, ok_rn) == ep_head + ": ['zilch']"
    assert _name_error([], ok_ep, needy_rn) == rn_head + ": ['nope']"
    assert _name_error([NeedyRn()], ok_ep, ok_rn) == rn_head + ": ['zip_']"
    assert _name_error([NeedyReq()], ok_ep, ok_rn) == rq_head + ": ['nada']"
    # precedence: endpoint, then render, then request
    assert _split_unresolved(_name_error([NeedyReq(), NeedyRn(), NeedyEp()], needy_ep, needy_rn)) \
        == (ep_head, ['gone', 'missing', 'zilch'])
    assert _split_unresolved(_name_error([NeedyReq(), NeedyRn()], ok_ep, needy_rn)) \
        == (rn_head, ['nope', 'zip_'])
    # 'context' is only available on the render side, even if "preprovided"
    assert _name_error([CtxReq()], ok_ep, ok_rn, ['context']) == rq_head + ": ['context']"
    assert _name_error([CtxEp()], ok_ep, ok_rn, ['context']) == ep_head + ": ['context']"
    # an argument needed by the endpoint itself but not preprovided is reported
    # on the endpoint side
    def ep_wants_res(res):
        return {}
    assert _name_error([], ep_wants_res, ok_rn) == ep_head + ": ['res']"
    # request-provided names satisfy endpoint and render sides
    core_chain = make_middleware_chain([ProvReq()],
                                       lambda token: {'t': token},
                                       lambda context, token, request: Response(context['t']),
                                       ['request'])
    assert core_chain(request='Q').get_data(as_text=True) == 'tok:Q'
    # endpoint_provides are NOT visible to render
    assert _name_error([ProvReq(), ProvEp()], ok_ep,
                       lambda context, user: Response(''), ['request', 'res']) \
        == rn_head + ": ['user']"
    CHECKS[0] += 1


if __name__ == '__main__':
    test_stacks()
    test_one_shot_iterable()
    test_provides_flow()
    test_context_kinds()
    test_errors()
    assert CHECKS[0] > 1000, CHECKS[0]
    print('PASS (%d checks)' % CHECKS[0])
