# -*- coding: utf-8 -*-
"""demo3: C07 -- trailing-slash redirects lead to the same resource in one hop.

Focus: where the slash mode of a bound route comes from (application-level,
route-level, inherited / not inherited through embedding, the NullRoute's
fixed rewrite mode), how the mode shapes the compiled path regex, and that the
resulting behaviour (redirect / direct execution / not found) follows the
effective mode.
"""
from __future__ import print_function, unicode_literals

import os
import sys
import json
import itertools

sys.path.insert(0, os.path.dirname(os.path.abspath(__file__)))

try:
    from urllib.parse import urlsplit, unquote
except ImportError:  # pragma: no cover
    from urlparse import urlsplit
    from urllib import unquote

from werkzeug.test import EnvironBuilder, run_wsgi_app
from werkzeug.wrappers import Response

import clastic
from clastic import Application, Route, SubApplication
from clastic.route import (S_REDIRECT, S_STRICT, S_REWRITE, NullRoute, BoundRoute,
                           InvalidPattern, _compile_path_pattern)

assert os.path.dirname(os.path.abspath(__file__)) in os.path.abspath(clastic.__file__)

MODES = (S_REDIRECT, S_REWRITE, S_STRICT)
CHECKS = [0]


def check(cond, *info):
    CHECKS[0] += 1
    if not cond:
        raise AssertionError(repr(info))


def raises(exc_type, func, *a, **kw):
    try:
        func(*a, **kw)
    except exc_type as e:
        return e
    except Exception as e:
        raise AssertionError('expected %r, got %r' % (exc_type, e))
    raise AssertionError('expected %r, nothing raised' % (exc_type,))


def _echo(_label, request, **params):
    body = json.dumps({'route': _label, 'params': params, 'path': request.path,
                       'qs': request.query_string.decode('latin1')}, sort_keys=True)
    return Response(body, mimetype='application/json')


def ep_page(request, name):
    return _echo('page', request, name=name)


def ep_index(request):
    return _echo('index', request)


def ep_leaf(request, name):
    return _echo('leaf', request, name=name)


def call(app, path, qs='', method='GET'):
    environ = EnvironBuilder(method=method).get_environ()
    environ['PATH_INFO'] = path.encode('utf8').decode('latin1')
    environ['QUERY_STRING'] = qs
    app_iter, status, headers = run_wsgi_app(app, environ, buffered=True)
    return int(status.split()[0]), headers, b''.join(app_iter)


def canonical(path):
    segs = [s for s in path.split('/') if s != '']
    return '/' + ''.join(s + '/' for s in segs)


SEGMENTS = ['x', 'a?b', 'a#b', '100%', '%41', 'a b', 'a;b', 'a&b=c', 'caf\xe9', '中']
QUERIES = ['', 'a=1&b=2', 'u=%2Fp%2F%2Fx&v=a+b']


def check_mode_behaviour(app, mode, prefix, label='page'):
    """A branch route '<prefix>/p/<name>/' of *app* must behave per *mode*."""
    qs_cycle = itertools.cycle(QUERIES)
    for seg in SEGMENTS:
        canon = '%s/p/%s/' % (prefix, seg)
        check(canonical(canon) == canon)
        for tmpl in ['%s/p/%s', '%s/p///%s/', '%s//p/%s//']:
            qs = next(qs_cycle)
            path = tmpl % (prefix, seg)
            # werkzeug collapses leading slashes before clastic sees the path
            seen = '/' + path.lstrip('/')
            check(seen != canon and canonical(seen) == canon)
            status, headers, body = call(app, canon, qs)
            check(status == 200 and 'Location' not in headers, mode, canon, status)
            want = json.loads(body.decode('utf8'))
            check(want == {'route': label, 'params': {'name': seg}, 'path': canon,
                           'qs': qs}, want)
            for method in ('GET', 'POST', 'DELETE'):
                status, headers, body = call(app, path, qs, method)
                if mode == S_REDIRECT:
                    check(status == 302, mode, path, status)
                    loc = urlsplit(headers['Location'])
                    check((loc.scheme, loc.netloc, loc.fragment) == ('http', 'localhost', ''))
                    check(unquote(loc.path) == canon, path, headers['Location'])
                    check(loc.query == qs, headers['Location'], qs)
                    status2, headers2, body2 = call(app, unquote(loc.path), loc.query, method)
                    check(status2 == 200 and 'Location' not in headers2, status2)
                    check(json.loads(body2.decode('utf8')) == want)
                elif mode == S_REWRITE:
                    check(status == 200 and 'Location' not in headers, mode, path, status)
                    got = json.loads(body.decode('utf8'))
                    check(got['params'] == want['params'] and got['route'] == label)
                    check(got['path'] == seen and got['qs'] == qs)
                else:
                    check(mode == S_STRICT)
                    check(status == 404 and 'Location' not in headers, mode, path, status)


def find_route(app, pattern):
    found = [r for r in app.routes if r.pattern == pattern]
    check(len(found) == 1, pattern, [r.pattern for r in app.routes])
    check(isinstance(found[0], BoundRoute))
    return found[0]


def test_app_and_route_level():
    for app_mode in MODES:
        for route_mode in MODES:
            # 1. routes given to the constructor inherit the application's mode
            app = Application([Route('/p/<name>/', ep_page, slash_mode=route_mode)],
                              slash_mode=app_mode)
            check(find_route(app, '/p/<name>/').slash_mode == app_mode)
            check_mode_behaviour(app, app_mode, '')
            # 2. ... same for add() without arguments and with inherit_slashes=True
            for kw in ({}, {'inherit_slashes': True}):
                app = Application(slash_mode=app_mode)
                app.add(Route('/p/<name>/', ep_page, slash_mode=route_mode), **kw)
                check(find_route(app, '/p/<name>/').slash_mode == app_mode)
            check_mode_behaviour(app, app_mode, '')
            # 3. inherit_slashes=False keeps the route-level mode
            app = Application(slash_mode=app_mode)
            app.add(Route('/p/<name>/', ep_page, slash_mode=route_mode),
                    inherit_slashes=False)
            check(find_route(app, '/p/<name>/').slash_mode == route_mode)
            check_mode_behaviour(app, route_mode, '')
            # 4. a tuple entry works like a Route
            app = Application(slash_mode=app_mode)
            app.add(('/p/<name>/', ep_page), inherit_slashes=False)
            check(find_route(app, '/p/<name>/').slash_mode == S_REDIRECT)  # Route default
            app.add(('/q/<name>/', ep_page))
            check(find_route(app, '/q/<name>/').slash_mode == app_mode)
            # 5. direct (re)binding
            rt = Route('/p/<name>/', ep_page, slash_mode=route_mode)
            check(rt.bind(app).slash_mode == app_mode)
            check(rt.bind(app, inherit_slashes=True).slash_mode == app_mode)
            brt = rt.bind(app, inherit_slashes=False)
            check(brt.slash_mode == route_mode)
            other = Application(slash_mode=S_STRICT)
            check(brt.bind(other).slash_mode == S_STRICT)
            check(brt.bind(other, inherit_slashes=False).slash_mode == route_mode)
        # defaults
        check(Application().slash_mode == S_REDIRECT)
        check(Route('/p/', ep_index).slash_mode == S_REDIRECT)
    # unknown keyword arguments are still rejected
    app = Application()
    err = raises(TypeError, Route('/p/', ep_index).bind, app, bogus=1)
    check('bogus' in str(err), str(err))
    err = raises(TypeError, app.add, Route('/p/', ep_index), bogus=1)
    check('bogus' in str(err) and 'inherit_slashes' not in str(err), str(err))
    err = raises(TypeError, app.add, ('/sub', Application([('/p/', ep_index)])), bogus=1)
    check('bogus' in str(err) and 'prefix' not in str(err), str(err))


def test_embedding():
    n = 0
    for outer_mode, inner_mode, route_mode in itertools.product(MODES, MODES, MODES):
        for inner_inherit, outer_inherit in itertools.product((True, False), repeat=2):
            inner = Application(slash_mode=inner_mode)
            inner.add(Route('/p/<name>/', ep_page, slash_mode=route_mode),
                      inherit_slashes=inner_inherit)
            inner.add(Route('/leaf/<name>', ep_leaf, slash_mode=route_mode),
                      inherit_slashes=inner_inherit)
            in_inner = inner_mode if inner_inherit else route_mode
            check(find_route(inner, '/p/<name>/').slash_mode == in_inner)
            effective = outer_mode if outer_inherit else in_inner

            subapp = SubApplication('/sub/', inner, inherit_slashes=outer_inherit)
            check(subapp.prefix == '/sub' and subapp.inherit_slashes is outer_inherit)
            outer_a = Application([subapp], slash_mode=outer_mode)
            outer_b = Application(slash_mode=outer_mode)
            outer_b.add(('/sub', inner), inherit_slashes=outer_inherit)
            # explicit keyword beats the SubApplication's own setting
            outer_c = Application(slash_mode=outer_mode)
            outer_c.add(SubApplication('/sub', inner, inherit_slashes=not outer_inherit),
                        inherit_slashes=outer_inherit)
            for outer in (outer_a, outer_b, outer_c):
                check([r.pattern for r in outer.routes] ==
                      ['/sub/p/<name>/', '/sub/leaf/<name>'])
                check(all(type(r) is BoundRoute for r in outer.routes))
                rt = find_route(outer, '/sub/p/<name>/')
                check(rt.slash_mode == effective, outer_mode, inner_mode, route_mode,
                      inner_inherit, outer_inherit, rt.slash_mode)
                check(rt.bound_apps == [inner, outer])
                check(find_route(outer, '/sub/leaf/<name>').slash_mode == effective)
                check(outer._null_route.slash_mode == S_REWRITE)
            check_mode_behaviour(outer_a if n % 3 == 0 else (outer_b if n % 3 == 1 else outer_c),
                                 effective, '/sub')
            n += 1
            # the embedded app itself is untouched
            check(find_route(inner, '/p/<name>/').slash_mode == in_inner)
            check(len(inner.routes) == 2)
            # leaf routes: never a redirect; lax modes serve, strict 404s
            for path in ['/sub/leaf/a?b/', '/sub//leaf/a?b']:
                status, headers, body = call(outer_a, path, 'k=v')
                check('Location' not in headers)
                check(status == (404 if effective == S_STRICT else 200), effective, path)
            status, headers, body = call(outer_a, '/sub/leaf/a?b', 'k=v')
            check(status == 200)
    # tuple entry in the constructor: embeds with inherit_slashes=True
    inner = Application([('/p/<name>/', ep_page)], slash_mode=S_STRICT)
    outer = Application([('/sub', inner)], slash_mode=S_REDIRECT)
    check(find_route(outer, '/sub/p/<name>/').slash_mode == S_REDIRECT)
    check_mode_behaviour(outer, S_REDIRECT, '/sub')
    # two levels of embedding, not inheriting all the way: innermost wins
    mid = Application([SubApplication('/mid', inner, inherit_slashes=False)],
                      slash_mode=S_REWRITE)
    top = Application([SubApplication('/top', mid, inherit_slashes=False)],
                      slash_mode=S_REDIRECT)
    check(find_route(top, '/top/mid/p/<name>/').slash_mode == S_STRICT)
    check_mode_behaviour(top, S_STRICT, '/top/mid')
    top = Application([SubApplication('/top', mid)], slash_mode=S_REDIRECT)
    check(find_route(top, '/top/mid/p/<name>/').slash_mode == S_REDIRECT)
    check_mode_behaviour(top, S_REDIRECT, '/top/mid')
    # bind_all called directly
    sub = SubApplication('/s', inner, inherit_slashes=False)
    bound = sub.bind_all(top)
    check(type(bound) is list and len(bound) == 1 and bound[0].slash_mode == S_STRICT)
    bound = sub.bind_all(top, inherit_slashes=True)
    check(bound[0].slash_mode == S_REDIRECT and bound[0].pattern == '/s/p/<name>/')
    check(SubApplication('/e', Application()).bind_all(top) == [])


def test_null_route():
    for mode in MODES:
        app = Application([Route('/p/<name>/', ep_page)], slash_mode=mode)
        null = app._null_route
        check(type(null) is BoundRoute and isinstance(null.unbound_route, NullRoute))
        check(null.slash_mode == S_REWRITE and null.pattern == '/<_ignored*>')
        # even when asked to inherit, the NullRoute stays in rewrite mode
        for kw in ({}, {'inherit_slashes': True}, {'inherit_slashes': False},
                   {'inherit_slashes': True, 'rebind_render': False}):
            passed = dict(kw)
            bound = NullRoute().bind(app, **passed)
            check(bound.slash_mode == S_REWRITE)
            check(passed == kw)   # caller's dict not modified
        err = raises(TypeError, NullRoute().bind, app, bogus=1)
        check('bogus' in str(err), str(err))
        raises(TypeError, NullRoute().bind)
        # it matches every spelling of every path and never redirects
        for path in ['/', '/nothing', '/nothing/', '//nothing//here//', '/a?b//c#d', '/p', '/p//']:
            check(null.match_path(path) is not None, path)
            for method in ('GET', 'POST'):
                status, headers, _ = call(app, path, 'a=1', method)
                check(status == 404 and 'Location' not in headers, mode, path, status)


def test_compiled_patterns():
    expected = {
        ('/', 'lax'): '^/*$',
        ('/', 'strict'): '^/$',
        ('/static/', 'lax'): '^/+static/*$',
        ('/static/', 'strict'): '^/static/$',
        ('/static', 'lax'): '^/+static/*$',
        ('/static', 'strict'): '^/static$',
        ('/a/b/', 'lax'): '^/+a/+b/*$',
        ('/a/b/', 'strict'): '^/a/b/$',
        ('/a/<b>/', 'lax'): '^/+a(?P<b>(/+[^/]+))/*$',
        ('/a/<b>/', 'strict'): '^/a(?P<b>(/[^/]+))/$',
        ('/a/<b>', 'lax'): '^/+a(?P<b>(/+[^/]+))/*$',
        ('/a/<b>', 'strict'): '^/a(?P<b>(/[^/]+))$',
        ('/a/<b+>/', 'lax'): '^/+a(?P<b>(/+[^/]+)+)/*$',
        ('/a/<b*>/c/', 'strict'): '^/a(?P<b>(/[^/]+)*)/c/$',
        ('/<b?>/', 'lax'): '^(?P<b>(/+[^/]+)?)/*$',
        ('/<b?>/', 'strict'): '^(?P<b>(/[^/]+)?)/$',
        ('/<n:int>/', 'lax'): '^(?P<n>(/+[+-]?\\ *[0-9]+))/*$',
    }
    for (pattern, kind), regex_src in sorted(expected.items()):
        modes = (S_STRICT,) if kind == 'strict' else (S_REDIRECT, S_REWRITE, 'bogus', None, '')
        for mode in modes:
            regex, convs = _compile_path_pattern(pattern, mode)
            check(regex.pattern == regex_src, pattern, mode, regex.pattern, regex_src)
            check(type(convs) is dict)
    regex, convs = _compile_path_pattern('/a/<b>/')        # default mode: rewrite
    check(regex.pattern == '^/+a(?P<b>(/+[^/]+))/*$' and list(convs) == ['b'])
    regex, convs = _compile_path_pattern('/a/<b>/', mode=S_STRICT)
    check(regex.pattern == '^/a(?P<b>(/[^/]+))/$')

    # matching behaviour per mode
    paths = ['/a/x/', '/a/x', '/a//x/', '/a/x//', '//a/x/', '/a/x/y/', '/a/', '/a', '/',
             '', 'a/x/', '/a/x?/', '/a/%41/', '/a/ /']
    lax_ok = set(['/a/x/', '/a/x', '/a//x/', '/a/x//', '//a/x/', '/a/x?/', '/a/%41/', '/a/ /'])
    strict_branch_ok = set(['/a/x/', '/a/x?/', '/a/%41/', '/a/ /'])
    strict_leaf_ok = set(['/a/x'])
    for mode in MODES:
        branch, _ = _compile_path_pattern('/a/<b>/', mode)
        leaf, _ = _compile_path_pattern('/a/<b>', mode)
        for path in paths:
            if mode == S_STRICT:
                check(bool(branch.match(path)) == (path in strict_branch_ok), mode, path)
                check(bool(leaf.match(path)) == (path in strict_leaf_ok), mode, path)
            else:
                check(bool(branch.match(path)) == (path in lax_ok), mode, path)
                check(bool(leaf.match(path)) == (path in lax_ok), mode, path)

    # invalid patterns are rejected the same way in every mode
    for mode in MODES:
        for bad in ['a', '', 'a/', '/a//b', '//', '/<a>/<a>/', '/<a:nope>/', '/<a!>/',
                    '/<a>/x/<a+>']:
            raises(InvalidPattern, _compile_path_pattern, bad, mode)
            raises(InvalidPattern, Route, bad, ep_index, slash_mode=mode)
    raises(AttributeError, _compile_path_pattern, None, S_STRICT)


def main():
    test_app_and_route_level()
    test_embedding()
    test_null_route()
    test_compiled_patterns()
    print('checks: %d' % CHECKS[0])
    print('PASS')


if __name__ == '__main__':
    main()
