# -*- coding: utf-8 -*-
"""C10 demo 2: an embedded application answers like the flat declaration.

Emphasis: the middlewares of all levels -- order of the request hooks and of
the WSGI wrappers (Application.__init__ / _get_all_middlewares), a unique type
kept once at its outermost position, at depth 1..3.

Prints PASS and exits 0 when every assertion holds.
"""
from __future__ import print_function

import random
import sys

from clastic import Application, SubApplication, Route, Middleware, Response
from clastic import S_REDIRECT, S_REWRITE, S_STRICT
from clastic.errors import ErrorHandler, NotFound

TRACE = []


# ---------------------------------------------------------------- middlewares
class TraceMW(Middleware):
    def __init__(self, label):
        self.label = label

    def request(self, next):
        TRACE.append('%s@%s' % (type(self).__name__, self.label))
        return next()


class WsgiTraceMW(TraceMW):
    def wsgi_wrapper(self, inner):
        tag = 'wsgi:%s@%s' % (type(self).__name__, self.label)

        def wrapped(environ, start_response):
            TRACE.append(tag)
            return inner(environ, start_response)
        return wrapped


class MwA(TraceMW):
    pass


class MwB(WsgiTraceMW):
    pass


class MwC(WsgiTraceMW):
    pass


class MwD(WsgiTraceMW):
    pass


class MwStamp(TraceMW):
    provides = ('stamp',)

    def request(self, next):
        TRACE.append('%s@%s' % (type(self).__name__, self.label))
        return next(stamp='stamp-from-' + self.label)


MW_TYPES = [MwA, MwB, MwC, MwD]


# ------------------------------------------------------------------ endpoints
def ep_plain(request):
    return {'ep': 'plain', 'path': request.path}


def ep_shared(request, shared):
    return {'ep': 'shared', 'shared': shared}


def ep_two(shared, other):
    return {'ep': 'two', 'shared': shared, 'other': other}


def ep_id(id):
    return {'ep': 'id', 'id': id}


def ep_parts(parts):
    return {'ep': 'parts', 'parts': parts}


def ep_opt(x):
    return {'ep': 'opt', 'x': x}


def ep_stamp(stamp):
    return {'ep': 'stamp', 'stamp': stamp}


def ep_notfound(request):
    raise NotFound()


def ep_soft_notfound(request):
    raise NotFound(is_breaking=False)


def ep_boom(request):
    raise ValueError('boom')


def ep_resp(request):
    return Response('direct:' + request.path)


def render_text(context):
    return Response('text|%r' % sorted(context.items()))


class Factory(object):
    def __init__(self, tag):
        self.tag = tag

    def __call__(self, arg):
        tag = self.tag

        def render(context):
            return Response('%s|%s|%r' % (tag, arg, sorted(context.items())))
        return render


class TagEH(ErrorHandler):
    def __init__(self, tag, **kw):
        super(TagEH, self).__init__(**kw)
        self.tag = tag

    def render_error(self, request, _error):
        return Response('EH-%s|%s|%s' % (self.tag, _error.code, request.path),
                        status=_error.code)


class FlatRoute(Route):
    # a flat route that keeps its own slash mode (the opted-out case)
    inherit_slashes = False


# ------------------------------------------------------------ spec generation
LEAVES = [('/', ep_plain), ('/leaf', ep_plain), ('/branch/', ep_plain),
          ('/item/<id:int>', ep_id), ('/multi/<parts*>', ep_parts),
          ('/opt/<x?int>', ep_opt), ('/plus/<parts+int>/', ep_parts),
          ('/nf', ep_notfound), ('/soft', ep_soft_notfound),
          ('/soft', ep_plain), ('/boom', ep_boom), ('/resp/', ep_resp),
          ('/shared', ep_shared), ('/two/', ep_two), ('/stamp', ep_stamp)]
PREFIXES = ['/p', '/p/', '/', '/a/b', '/q/', '/deep/er/']
MODES = [S_REDIRECT, S_REWRITE, S_STRICT]
RENDERS = ['callable', 'arg', 'arg', 'none']
METHODS = [None, None, ('GET',), ('POST',), ('GET', 'PUT')]


def gen_app(rng, depth, name, outer_res):
    """-> spec dict; *outer_res* are the names the outermost app defines."""
    spec = {'name': name, 'routes': [], 'mode': rng.choice(MODES),
            'eh': rng.choice([None, name]), 'factory': rng.choice([None, name]),
            'mws': [], 'res': {}}
    for mw_type in rng.sample(MW_TYPES, rng.randint(0, 4)):
        spec['mws'].append((mw_type, name))
    if name == 'L0':
        for res_name in outer_res:
            spec['res'][res_name] = '%s-of-%s' % (res_name, name)
    else:
        # an inner level only repeats a name the outermost level defines:
        # names shared by two inner levels alone have no documented order
        for res_name in outer_res:
            if rng.random() < 0.5:
                spec['res'][res_name] = '%s-of-%s' % (res_name, name)
    n_entries = rng.randint(2, 5)
    n_subs = 0
    for i in range(n_entries):
        if depth > 1 and (rng.random() < 0.4 or (i == n_entries - 1 and not n_subs)):
            n_subs += 1
            sub = gen_app(rng, depth - 1, '%s%d' % (name, i), outer_res)
            spec['routes'].append({'kind': 'sub', 'prefix': rng.choice(PREFIXES),
                                   'app': sub, 'tuple': rng.random() < 0.4,
                                   'rebind': rng.random() < 0.5,
                                   'inherit': rng.random() < 0.6})
            continue
        pattern, ep = rng.choice(LEAVES)
        if ep in (ep_shared, ep_two):
            # the endpoint's own level must be able to satisfy it; a name the
            # outermost level lacks gets one value on all inner levels (the
            # precedence between two inner levels is not documented)
            for res_name in ('shared', 'other'):
                if res_name in outer_res or name == 'L0':
                    value = '%s-of-%s' % (res_name, name)
                else:
                    value = '%s-inner' % res_name
                spec['res'].setdefault(res_name, value)
        if ep is ep_stamp and not any(t is MwStamp for t, _ in spec['mws']):
            spec['mws'].append((MwStamp, name))
        spec['routes'].append({'kind': 'route', 'pattern': pattern, 'ep': ep,
                               'render': rng.choice(RENDERS),
                               'methods': rng.choice(METHODS)})
    return spec


def make_mws(spec):
    return [mw_type(label) for mw_type, label in spec['mws']]


def make_eh(spec):
    return TagEH(spec['eh']) if spec['eh'] else None


def make_factory(tag):
    return Factory(tag) if tag else None


# ------------------------------------------------------------- nested builder
def build_nested(spec):
    entries = []
    for ent in spec['routes']:
        if ent['kind'] == 'route':
            render = {'callable': render_text, 'arg': 'tmpl', 'none': None}[ent['render']]
            kw = {}
            if ent['methods']:
                kw['methods'] = ent['methods']
            entries.append(Route(ent['pattern'], ent['ep'], render, **kw))
        else:
            sub_app = build_nested(ent['app'])
            if ent['tuple']:
                entries.append((ent['prefix'], sub_app))
            else:
                entries.append(SubApplication(ent['prefix'], sub_app,
                                              rebind_render=ent['rebind'],
                                              inherit_slashes=ent['inherit']))
    return Application(entries, resources=dict(spec['res']),
                       middlewares=make_mws(spec),
                       render_factory=make_factory(spec['factory']),
                       error_handler=make_eh(spec), slash_mode=spec['mode'])


# --------------------------------------------------------------- flat builder
def iter_leaves(spec, chain=()):
    """Yield (leaf entry, chain) in declaration order; chain is a tuple of
    (app spec, embedding entry or None) from the outermost level inwards."""
    for ent in spec['routes']:
        if ent['kind'] == 'route':
            yield ent, chain + ((spec, None),)
        else:
            for item in iter_leaves(ent['app'], chain + ((spec, ent),)):
                yield item


def expected_render(kind, chain):
    if kind == 'callable':
        return render_text
    if kind == 'none':
        return None
    cur, seen = None, []
    inwards = list(chain)            # outermost ... innermost
    levels = inwards[::-1]           # innermost ... outermost
    for k, (app_spec, _) in enumerate(levels):
        seen.append(app_spec['factory'])
        if k == 0:
            rebind = True            # Application.add of a plain Route
        else:
            emb = levels[k][1]       # entry of level k embedding level k-1
            rebind = False if emb['tuple'] else emb['rebind']
        if rebind or cur is None:
            latest = [t for t in seen if t]
            if latest:
                cur = latest[-1]
    return Factory(cur)('tmpl') if cur else None


def build_flat(spec):
    routes = []
    for leaf, chain in iter_leaves(spec):
        specs = [s for s, _ in chain]
        prefix = ''.join(emb['prefix'].rstrip('/') for _, emb in chain if emb)
        # middlewares: outer then inner, a type kept once (outermost instance)
        merged = []
        for app_spec in specs:
            for mw_type, label in app_spec['mws']:
                if not any(t is mw_type for t, _ in merged):
                    merged.append((mw_type, label))
        own = len([1 for t, _ in merged if any(t is o for o, _ in spec['mws'])])
        route_mws = [t(label) for t, label in merged
                     if not any(t is o for o, _ in spec['mws'])]
        assert own == len(spec['mws'])
        # resources of the inner levels (inner wins; the outermost level's
        # values win at request time and live on the flat application)
        res = {}
        for app_spec in specs[1:]:
            res.update(app_spec['res'])
        # slash mode: the innermost application's, replaced at each embedding
        # that inherits
        mode = specs[-1]['mode']
        for app_spec, emb in reversed(chain[:-1]):
            inherit = True if emb['tuple'] else emb['inherit']
            if inherit:
                mode = app_spec['mode']
        kw = {'middlewares': route_mws, 'resources': res, 'slash_mode': mode}
        if leaf['methods']:
            kw['methods'] = leaf['methods']
        routes.append(FlatRoute(prefix + leaf['pattern'], leaf['ep'],
                                expected_render(leaf['render'], chain), **kw))
    return Application(routes, resources=dict(spec['res']),
                       middlewares=make_mws(spec),
                       render_factory=make_factory(spec['factory']),
                       error_handler=make_eh(spec), slash_mode=spec['mode'])


# ----------------------------------------------------------- request catalogue
FILLS = {'<id:int>': ['42', 'abc', '+%205', '-7'], '<parts*>': ['a/b', '', 'x'],
         '<x?int>': ['7', '', 'zz'], '<parts+int>': ['1/2/3', '', '1/x']}


def catalogue(flat_app):
    paths = ['/', '/nowhere', '/nowhere/', '/p', '/p/', '/px', '/a', '/a/b/',
             '/q', '/deep/er', '//p//']
    for rt in flat_app.routes:
        variants = [rt.pattern]
        for hole, fills in FILLS.items():
            if hole in rt.pattern:
                variants = [rt.pattern.replace(hole, f) for f in fills]
        for path in variants:
            toggled = path[:-1] if path.endswith('/') and path != '/' else path + '/'
            doubled = path.replace('/', '//', 2)
            paths.extend([path, toggled, doubled, path + '?q=1&r=%FF&s=a+b',
                          toggled + '?x=%3F', path + 'zzz'])
    seen, ret = set(), []
    for path in paths:
        if path not in seen:
            seen.add(path)
            ret.append(path)
    return ret


def ask(app, path, method):
    del TRACE[:]
    resp = app.get_local_client().open(path, method=method)
    return (resp.status_code, resp.get_data(), resp.headers.get('Location'),
            resp.headers.get('Allow'), tuple(TRACE))


def compare(seed, depth, methods=('GET', 'POST', 'HEAD', 'PUT')):
    rng = random.Random(seed)
    outer_res = rng.choice([(), ('shared',), ('shared', 'other')])
    spec = gen_app(rng, depth, 'L0', outer_res)
    nested, flat = build_nested(spec), build_flat(spec)
    assert [r.pattern for r in nested.routes] == [r.pattern for r in flat.routes]
    n = 0
    for path in catalogue(flat):
        for method in methods:
            got, want = ask(nested, path, method), ask(flat, path, method)
            assert got == want, (seed, depth, method, path, got, want)
            n += 1
    return nested, flat, n


# ------------------------------------------------------- demo-specific checks
class WrappingEH(TagEH):
    def wsgi_wrapper(self, inner):
        def wrapped(environ, start_response):
            TRACE.append('wsgi:EH-' + self.tag)
            return inner(environ, start_response)
        return wrapped


def trace_of(app, path, method='GET'):
    return list(ask(app, path, method)[4])


def fixed_cases():
    from clastic.application import _get_all_middlewares

    # 1. order across two levels; a repeated type is kept once, outermost
    a_out, b_out = MwA('out'), MwB('out')
    c_in, b_in, d_in = MwC('in'), MwB('in'), MwD('in')
    c_deep, a_deep = MwC('deep'), MwA('deep')
    deep = Application([('/x', ep_plain, render_text)], middlewares=[c_deep, a_deep])
    inner = Application([('/leaf', ep_plain, render_text), ('/d/', deep)],
                        middlewares=[c_in, b_in, d_in])
    outer = Application([('/top', ep_plain, render_text), ('/in/', inner)],
                        middlewares=[a_out, b_out], error_handler=WrappingEH('o'))
    top, leaf, x = outer.routes
    assert [r.pattern for r in outer.routes] == ['/top', '/in/leaf', '/in/d/x']
    assert type(leaf.middlewares) is tuple
    assert [id(m) for m in top.middlewares] == [id(a_out), id(b_out)]
    assert [id(m) for m in leaf.middlewares] == [id(m) for m in (a_out, b_out, c_in, d_in)]
    assert [id(m) for m in x.middlewares] == [id(m) for m in (a_out, b_out, c_in, d_in)]
    assert [id(m) for m in deep.routes[0].middlewares] == [id(c_deep), id(a_deep)]
    # the WSGI wrappers of every middleware of every route, application's
    # first, then by route from the last one; each around the next, the
    # error handler's innermost -- on every request, also outside the prefix
    wsgi = ['wsgi:MwB@out', 'wsgi:MwC@in', 'wsgi:MwD@in', 'wsgi:EH-o']
    assert trace_of(outer, '/top') == wsgi + ['MwA@out', 'MwB@out']
    assert trace_of(outer, '/in/leaf') == wsgi + ['MwA@out', 'MwB@out', 'MwC@in', 'MwD@in']
    assert trace_of(outer, '/in/d/x') == wsgi + ['MwA@out', 'MwB@out', 'MwC@in', 'MwD@in']
    # (the catch-all route of the serving application carries its middlewares)
    assert trace_of(outer, '/elsewhere') == wsgi + ['MwA@out', 'MwB@out']
    assert trace_of(inner, '/leaf') == ['wsgi:MwC@in', 'wsgi:MwB@in', 'wsgi:MwD@in',
                                        'MwC@in', 'MwB@in', 'MwD@in']
    assert trace_of(deep, '/x') == ['wsgi:MwC@deep', 'MwC@deep', 'MwA@deep']

    # 2. the route-only middlewares are collected from the last route backwards
    r1 = Route('/r1', ep_plain, render_text, middlewares=[MwC('r1')])
    r2 = Route('/r2', ep_plain, render_text, middlewares=[MwD('r2'), MwB('r2')])
    app = Application([r1, r2], middlewares=[MwA('app')])
    assert trace_of(app, '/r1') == ['wsgi:MwD@r2', 'wsgi:MwB@r2', 'wsgi:MwC@r1',
                                    'MwA@app', 'MwC@r1']
    sub = Application([('/s', app)], middlewares=[MwB('sub')])
    assert trace_of(sub, '/s/r2') == ['wsgi:MwB@sub', 'wsgi:MwD@r2', 'wsgi:MwC@r1',
                                      'MwB@sub', 'MwA@app', 'MwD@r2']
    assert trace_of(sub, '/s/r1') == ['wsgi:MwB@sub', 'wsgi:MwD@r2', 'wsgi:MwC@r1',
                                      'MwB@sub', 'MwA@app', 'MwC@r1']

    # 3. the helper itself: any iterable of middlewares, unhashable ones, eq
    #    by type, first occurrence kept, a fresh list returned
    class FakeRoute(object):
        def __init__(self, *mws):
            self.middlewares = mws
    a1, a2, b1, c1, d1 = MwA('1'), MwA('2'), MwB('1'), MwC('1'), MwD('1')
    got = _get_all_middlewares([FakeRoute(b1, a2), FakeRoute(c1, d1)], [a1])
    assert [id(m) for m in got] == [id(a1), id(c1), id(d1), id(b1)]
    got = _get_all_middlewares([FakeRoute(b1, a2), FakeRoute(c1, d1)])
    assert [id(m) for m in got] == [id(c1), id(d1), id(b1), id(a2)]
    got = _get_all_middlewares([], iter([a1, a2, b1]))
    assert [id(m) for m in got] == [id(a1), id(b1)]
    own = [a1]
    got = _get_all_middlewares([], own)
    assert got == own and got is not own and type(got) is list
    assert _get_all_middlewares([], ()) == [] and _get_all_middlewares([]) == []
    got = _get_all_middlewares((FakeRoute(), FakeRoute(a1)), (a2,))
    assert [id(m) for m in got] == [id(a2)]

    # 4. routes added later do not add WSGI wrappers, but their hooks run
    app = Application([('/a', ep_plain, render_text)], middlewares=[MwA('app')])
    app.add(('/late', Application([('/l', ep_plain, render_text)],
                                  middlewares=[MwB('late')])))
    assert trace_of(app, '/late/l') == ['MwA@app', 'MwB@late']
    bare = Application([('/a', ep_plain, render_text)])
    assert trace_of(bare, '/a') == [] and ask(bare, '/a', 'GET')[0] == 200
    assert '_dispatch_wsgi' in vars(bare) and '_dispatch_wsgi' in vars(app)

    # 5. broken wrappers are refused when the *embedding* application is built
    class BadWrapper(Middleware):
        wsgi_wrapper = staticmethod(lambda inner: lambda environ, nope: [])

    class NoWrapper(Middleware):
        wsgi_wrapper = 'not callable'

    for bad, fragment in [(BadWrapper, 'expected valid WSGI callable from middleware'),
                          (NoWrapper, 'expected middleware.wsgi_wrapper to be callable')]:
        late_inner = Application([])
        # added after construction: the inner level never wraps it
        late_inner.add(Route('/b', ep_plain, render_text, middlewares=[bad()]))
        assert ask(late_inner, '/b', 'GET')[0] == 200
        for routes, mws in [([('/p', late_inner)], []),
                            ([('/a', ep_plain, render_text)], [bad()]),
                            ([], [MwB('ok'), bad(), MwC('ok')])]:
            try:
                Application(routes, middlewares=mws)
            except TypeError as te:
                assert fragment in str(te), te
            else:
                raise AssertionError('accepted %r' % bad)


def main():
    fixed_cases()
    total = 0
    for depth in (1, 2, 3):
        for seed in range(14):
            nested, flat, n = compare(2000 * depth + seed, depth,
                                      methods=('GET', 'POST', 'HEAD'))
            for n_rt, f_rt in zip(nested.routes, flat.routes):
                assert ([(type(m), m.label) for m in n_rt.middlewares]
                        == [(type(m), m.label) for m in f_rt.middlewares])
            total += n
    assert total > 3000, total
    print('compared %d requests' % total)
    print('PASS')
    return 0


if __name__ == '__main__':
    sys.exit(main())
