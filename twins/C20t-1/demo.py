# -*- coding: utf-8 -*-
"""demo1: the Flaw traceback parser (_ParsedTB.from_string) and the page built on it.

Compares clastic.flaw._ParsedTB.from_string against an independent reference
transcription of the parsing algorithm on a large corpus of error texts
(results AND exception types), then checks the C20 property on the rendered
failsafe page for every text.
"""
import html
import random
import re
import sys
import traceback

from clastic import flaw

_REF_FRAME_RE = re.compile(r'^File "(?P<filepath>.+)", line (?P<lineno>\d+)'
                           r', in (?P<funcname>.+)$')
_REF_SE_FRAME_RE = re.compile(r'^File "(?P<filepath>.+)", line (?P<lineno>\d+)')


def ref_parse(tb_str):
    """Reference semantics of the parser, returns (exc_type, exc_msg, frames)."""
    if not isinstance(tb_str, str):
        tb_str = tb_str.decode('utf-8')
    tb_lines = tb_str.lstrip().splitlines()
    if tb_lines[0].strip() == 'Traceback (most recent call last):':
        frame_lines = tb_lines[1:-1]
        frame_re = _REF_FRAME_RE
    elif len(tb_lines) > 1 and tb_lines[-2].lstrip().startswith('^'):
        frame_lines = tb_lines[:-2]
        frame_re = _REF_SE_FRAME_RE
    else:
        raise ValueError('unrecognized traceback string format')
    while tb_lines:
        cl = tb_lines[-1]
        if cl.startswith('Exception ') and cl.endswith('ignored'):
            tb_lines.pop()
        else:
            break
    for line in reversed(tb_lines):
        exc_type, sep, exc_msg = line.partition(':')
        if sep and exc_type and len(exc_type.split()) == 1:
            break
    frames = []
    for pair_idx in range(0, len(frame_lines), 2):
        frame_line = frame_lines[pair_idx].strip()
        frame_match = frame_re.match(frame_line)
        if frame_match:
            frame_dict = frame_match.groupdict()
        else:
            continue
        frame_dict['source_line'] = frame_lines[pair_idx + 1].strip()
        frames.append(frame_dict)
    return exc_type, exc_msg, frames


def outcome(func, arg):
    try:
        return ('ok', func(arg))
    except Exception as e:
        return ('exc', type(e))


def actual_parse(tb_str):
    ptb = flaw._ParsedTB.from_string(tb_str)
    assert type(ptb) is flaw._ParsedTB
    assert isinstance(ptb.frames, list)
    d = ptb.to_dict()
    assert sorted(d) == ['exc_msg', 'exc_type', 'frames']
    assert d['frames'] is ptb.frames
    if ptb.frames:
        assert ptb.source_file == ptb.frames[-1]['filepath']
    else:
        assert ptb.source_file is None
    return ptb.exc_type, ptb.exc_msg, ptb.frames


# ---------------------------------------------------------------- corpus

class CustomError(Exception):
    pass


def _raiser(exc, depth):
    if depth:
        return _raiser(exc, depth - 1)
    raise exc


EXC_CATALOGUE = [
    ValueError('bad value'), KeyError('k'), NameError("name 'plarp' is not defined"),
    TypeError('unsupported operand: int + str'), ZeroDivisionError('division by zero'),
    CustomError('custom: with: colons'), RuntimeError(''), OSError(2, 'No such file'),
    AttributeError('<b>markup</b> & "quotes"'), Exception('{#parsed_err}{exc_type}{/parsed_err}'),
    UnicodeError(u'sn\xf6wman ☃'), AssertionError(), ImportError('No module named nope'),
    IndexError('multi\nline\nmessage'), StopIteration(), LookupError('{tb_str}'),
]


def real_tracebacks():
    out = []
    for exc in EXC_CATALOGUE:
        for depth in (0, 1, 3, 7):
            try:
                _raiser(exc, depth)
            except Exception:
                out.append(traceback.format_exc())
    # chained
    try:
        try:
            _raiser(KeyError('inner'), 2)
        except KeyError as ke:
            raise ValueError('outer') from ke
    except ValueError:
        out.append(traceback.format_exc())
    try:
        try:
            1 / 0
        except ZeroDivisionError:
            _raiser(CustomError('during handling'), 1)
    except CustomError:
        out.append(traceback.format_exc())
    return out


def syntax_error_reports():
    out = []
    for src in ('def f(:\n  pass\n', 'x = (1,\n', 'print "hi"\n', 'a b c\n',
                '    indented = 1\n', 'x = "unterminated\n', 'for\n'):
        try:
            compile(src, 'broken_mod.py', 'exec')
        except SyntaxError:
            full = traceback.format_exc()
            out.append(full)
            # the form the interpreter prints for an import-time SyntaxError,
            # without the "Traceback" header
            lines = full.splitlines(True)
            idxs = [i for i, l in enumerate(lines) if l.lstrip().startswith('File "broken_mod.py"')]
            if idxs:
                out.append(''.join(lines[idxs[-1]:]))
    return out


HANDWRITTEN = [
    u'Traceback (most recent call last):\n  File "example.py", line 2, in <module>\n    plarp\n'
    u"NameError: name 'plarp' is not defined\n",
    u'\n\n   Traceback (most recent call last):\n  File "a.py", line 1, in f\n    g()\n'
    u'  File "b.py", line 22, in g\n    h()\nValueError: no\n',
    u'Traceback (most recent call last):\n',
    u'Traceback (most recent call last):',
    u'Traceback (most recent call last):\nValueError: x',
    u'Traceback (most recent call last):\n  File "a.py", line 1, in f\nValueError: x',
    u'Traceback (most recent call last):\n  File "a.py", line 1, in f\n    g()\n  File "b.py", line 2, in g\nValueError',
    u'Traceback (most recent call last):\n  File "a.py", line 1, in f\n    g()\nno colon here\nnor here',
    u'Traceback (most recent call last):\n  File "a.py", line 1, in f\n    g()\nValueError: x\n'
    u'Exception KeyError ignored\nException AttributeError: foo in <bar> ignored\n',
    u'Traceback (most recent call last):\n  File "a.py", line 1, in f\n    g()\n: leading colon\ntwo words: msg\n',
    u'  File "mod.py", line 3\n    def f(:\n          ^\nSyntaxError: invalid syntax\n',
    u'  File "mod.py", line 3\n    def f(:\n          ^\nSyntaxError: invalid syntax\nException X ignored',
    u'  ^\nException foo ignored',
    u'^\nlast',
    u'  ^^^^\n',
    u'x\n  ^\nSyntaxError: <script>alert(1)</script>',
    u'File "odd.py", line 1\n^\nE: m',
    u'', u' ', u'\n', u'\n\n\n', u'\t', u'not a traceback', u'one: line', u'a\nb\nc',
    u'<script>alert("x")</script>', u'<b>bold</b> & <i>it</i>', u"'single' \"double\"",
    u'{tb_str}', u'{#mon_files}{.}{/mon_files}', u'{>flaw_tmpl/}', u'{~lb}{~rb}{!c!}', u'{', u'}', u'{{}}',
    u'{@eq key=a value=b}x{/eq}', u'{#parsed_err}', u'{/parsed_err}', u'{:else}',
    u'\x00\x01\x02\x7f', u'\r\n\r\n', u'a\rb\x0bc\x0cd\x1ce\x85f g',
    u'sn\xf6wman ☃ \U0001f600', u'Traceback (most recent call last):\r\n  File "w.py", line 1, in <module>\r\n    x\r\nNameError: x\r\n',
]


def random_texts(rng, n):
    printable = ''.join(chr(i) for i in range(32, 127))
    nasty = printable + '\n\n\n\t\r\x00\x07\x1b{}<>&"\':^' + u'\xe9☃'
    out = []
    for _ in range(n):
        alphabet = rng.choice([printable, nasty])
        out.append(''.join(rng.choice(alphabet) for _ in range(rng.randrange(0, 120))))
    return out


def mutated(rng, texts, n):
    out = []
    for _ in range(n):
        t = rng.choice(texts)
        kind = rng.randrange(6)
        if kind == 0:   # truncate
            out.append(t[:rng.randrange(0, len(t) + 1)])
        elif kind == 1:  # drop head
            out.append(t[rng.randrange(0, len(t) + 1):])
        elif kind == 2:  # concatenate
            out.append(t + rng.choice(texts))
        elif kind == 3:  # drop a line
            ls = t.splitlines(True)
            if ls:
                del ls[rng.randrange(len(ls))]
            out.append(''.join(ls))
        elif kind == 4:  # trailing ignored-exception chatter
            out.append(t + 'Exception RuntimeError: boom in <gen> ignored\n' * rng.randrange(1, 3))
        else:           # duplicate a line
            ls = t.splitlines(True)
            if ls:
                i = rng.randrange(len(ls))
                ls.insert(i, ls[i])
            out.append(''.join(ls))
    return out


def build_corpus():
    rng = random.Random(20)
    base = real_tracebacks() + syntax_error_reports() + HANDWRITTEN
    texts = list(base)
    texts += mutated(rng, base, 400)
    texts += random_texts(rng, 150)
    return texts


NON_TEXT = [None, b'', b'bytes: here', b'\xff\xfe not utf8', 0, 42, 3.5, [], ['Traceback'], {}, object(),
            u'Traceback (most recent call last):\n  File "b.py", line 1, in f\n    x\nKeyError: 1\n'.encode('utf-8'),
            u'sn\xf6w: ☃'.encode('utf-8')]


# ---------------------------------------------------------------- checks

def check_parser(texts):
    n_ok = n_exc = 0
    for t in texts + NON_TEXT:
        exp = outcome(ref_parse, t)
        act = outcome(actual_parse, t)
        assert exp == act, (t, exp, act)
        if exp[0] == 'ok':
            n_ok += 1
        else:
            n_exc += 1
    assert n_ok > 50 and n_exc > 50, (n_ok, n_exc)
    # some pinned expectations
    et, em, fr = actual_parse(HANDWRITTEN[0])
    assert (et, em) == ('NameError', " name 'plarp' is not defined")
    assert fr == [{'filepath': 'example.py', 'lineno': '2', 'funcname': '<module>', 'source_line': 'plarp'}]
    et, em, fr = actual_parse(HANDWRITTEN[10])
    assert (et, em) == ('SyntaxError', ' invalid syntax')
    assert fr == [{'filepath': 'mod.py', 'lineno': '3', 'source_line': 'def f(:'}]
    et, em, fr = actual_parse(HANDWRITTEN[8])
    assert (et, em) == ('ValueError', ' x')
    # no candidate line: falls through to the top-most line
    et, em, fr = actual_parse(HANDWRITTEN[7])
    assert (et, em) == ('Traceback (most recent call last)', ''), (et, em)
    # frames list is a fresh list
    p = flaw._ParsedTB('T', 'm')
    q = flaw._ParsedTB('T', 'm', frames=())
    assert p.frames == [] and q.frames == [] and p.frames is not q.frames
    src = [{'filepath': 'z'}]
    r = flaw._ParsedTB('T', 'm', src)
    assert r.frames == src and r.frames is not src and r.source_file == 'z'
    return n_ok, n_exc


def rendered(text, files, path='/', method='get'):
    app = flaw.create_app(text, files)
    cl = app.get_local_client()
    resp = getattr(cl, method)(path)
    return resp


def check_page(text, files=None, path='/'):
    resp = rendered(text, files, path)
    assert resp.status_code == 200, (text, path, resp.status_code)
    body = resp.get_data(True)
    assert 'Whopps!' in body and '<h2>Stack trace</h2>' in body
    if text is None or len(text) == 0:
        assert '<pre></pre>' in body    # None, '' and b'' all render as nothing
    else:
        assert '<pre>%s</pre>' % html.escape(str(text), True) in body, text
    for marker in ('<script', '<b>', '<i>'):
        assert marker not in body, (marker, text)
    exp = outcome(ref_parse, text)
    if exp[0] == 'ok':
        exc_type, exc_msg, _ = exp[1]
        assert 'parsed-error-h2' in body and 'unparsed-error-h2' not in body, text
        assert ('<h2 class="parsed-error-h2">%s<p>%s</p></h2>'
                % (html.escape(exc_type, True), html.escape(exc_msg, True))) in body, text
        assert ("<title>Oh, Flaw'd: %s in </title>" % html.escape(exc_type, True)) in body, text
    else:
        assert 'class="unparsed-error-h2"' in body and 'class="parsed-error-h2"' not in body, text
        # (ashes renders a section over an empty dict when there is no :else body)
        assert "<title>Oh, Flaw'd:  in </title>" in body, (text, body[:200])
        try:
            last_line = text.splitlines()[-1]
        except Exception:
            last_line = u'Unknown error'
        assert ('<h2 class="unparsed-error-h2">%s</h2>' % html.escape(str(last_line), True)) in body, text
    return body


def check_standard_tracebacks():
    # a standard traceback ending in "Type: message" names both on the page
    for tb in real_tracebacks():
        last = tb.splitlines()[-1]
        body = check_page(tb, ['/srv/app/main.py'])
        etype, sep, msg = last.partition(': ')
        assert html.escape(etype, True) in body
        assert html.escape(msg, True) in body
        assert html.escape(last, True) in body or sep


def main():
    texts = build_corpus()
    n_ok, n_exc = check_parser(texts)
    rng = random.Random(7)
    paths = ['/', '/x', '/a/b/c', '/favicon.ico', '/%3Cscript%3E', '/index.html', '/a/', '//', '/clastic_assetsX']
    file_lists = [None, [], ['/srv/app/a.py'], ['/srv/<b>x</b>.py', '/srv/{tb_str}.py', '/q&a.py']]
    for i, t in enumerate(texts):
        fl = rng.choice(file_lists)
        check_page(t, None if fl is None else list(fl), rng.choice(paths))
    for t in NON_TEXT:
        if not (t is None or isinstance(t, bytes)):
            # other objects: only totality (construction + 200), rendering is ashes' business
            assert rendered(t, None, '/any').status_code == 200
            continue
        check_page(t, None, '/')
        check_page(t, ['/srv/app/a.py'], '/deep/er/path')
    check_standard_tracebacks()
    for method in ('get', 'post', 'put', 'delete', 'patch'):
        for path in ('/', '/anything/else'):
            resp = rendered(HANDWRITTEN[0], None, path, method)
            assert resp.status_code == 200, (method, path, resp.status_code)
            assert 'NameError' in resp.get_data(True)
    print('parser corpus: %d parsed, %d rejected; pages: %d' % (n_ok, n_exc, len(texts) + 2 * len(NON_TEXT)))
    print('PASS')


if __name__ == '__main__':
    main()
    sys.exit(0)
