# -*- coding: utf-8 -*-
"""demo2: every injected argument comes from its one declared source.

Focus: sinter.get_fb / get_arg_names -- how the declared parameter names
(and defaults) of every kind of callable are determined, since those
names decide what each function in a chain is (and is not) passed.
"""
import os
import sys
import functools

sys.path.insert(0, os.path.dirname(os.path.abspath(__file__)))

from boltons.funcutils import FunctionBuilder

from clastic import Application, Route, Middleware, Response
from clastic.sinter import (get_fb, get_arg_names, inject, make_chain,
                            get_callable_labels)

assert os.path.dirname(os.path.abspath(__file__)) in sys.modules['clastic'].__file__


class S(object):
    def __init__(self, label):
        self.label = label

    def __repr__(self):
        return '<S %s>' % self.label


class C(object):
    def __init__(self, a=0, b=1):
        self.got = None

    def __call__(self, x, y=2):
        self.got = dict(x=x, y=y)
        return self.got

    def meth(self, p, q=3):
        return dict(p=p, q=q)

    @staticmethod
    def sm(s1, s2=4):
        return dict(s1=s1, s2=s2)

    @classmethod
    def cm(cls, c1):
        return dict(c1=c1)


def f(a, b=1, *args, **kw):
    return dict(a=a, b=b, args=args, kw=kw)


def k(a, *, ko, kd=5):
    return dict(a=a, ko=ko, kd=kd)


def describe(obj):
    fb = get_fb(obj)
    return (list(fb.args), fb.varargs, fb.varkw, fb.get_defaults_dict(),
            get_arg_names(obj), get_arg_names(obj, True))


def test_signatures():
    c = C()
    expected = [
        (C, (['self', 'x', 'y'], None, None, {'y': 2},
             ('self', 'x', 'y'), ('self', 'x'))),
        (c, (['x', 'y'], None, None, {'y': 2}, ('x', 'y'), ('x',))),
        (c.meth, (['p', 'q'], None, None, {'q': 3}, ('p', 'q'), ('p',))),
        (C.meth, (['self', 'p', 'q'], None, None, {'q': 3},
                  ('self', 'p', 'q'), ('self', 'p'))),
        (C.sm, (['s1', 's2'], None, None, {'s2': 4}, ('s1', 's2'), ('s1',))),
        (c.sm, (['s1', 's2'], None, None, {'s2': 4}, ('s1', 's2'), ('s1',))),
        (C.cm, (['c1'], None, None, {}, ('c1',), ('c1',))),
        (f, (['a', 'b'], 'args', 'kw', {'b': 1}, ('a', 'b'), ('a',))),
        (k, (['a'], None, None, {'kd': 5}, ('a', 'ko', 'kd'), ('a', 'ko'))),
        (len, (['obj'], None, None, {}, ('obj',), ('obj',))),
        (functools.partial(f, 1), (['self'], 'args', 'kwargs', {},
                                   ('self',), ('self',))),
    ]
    for obj, exp in expected:
        got = describe(obj)
        assert got == exp, (obj, got, exp)
    lam = lambda z=0, n=None, e='': z
    assert describe(lam) == (['z', 'n', 'e'], None, None,
                             {'z': 0, 'n': None, 'e': ''},
                             ('z', 'n', 'e'), ())

    # drop_self=False keeps the bound instance parameter
    assert list(get_fb(c.meth, drop_self=False).args) == ['self', 'p', 'q']
    assert list(get_fb(c, drop_self=False).args) == ['self', 'x', 'y']
    assert list(get_fb(f, drop_self=False).args) == ['a', 'b']

    # a fresh builder every time (no aliasing between callers)
    assert get_fb(f) is not get_fb(f)
    fb = get_fb(c.meth)
    fb.args.append('junk')
    assert list(get_fb(c.meth).args) == ['p', 'q']

    # non-callables: same exception type and message
    for bad in (3, None, 'abc', 0, ''):
        try:
            get_fb(bad)
        except TypeError as te:
            assert str(te) == 'expected callable object, not %r' % (bad,)
        else:
            raise AssertionError('expected TypeError for %r' % (bad,))


def test_own_fb():
    # a function carrying its own builder: taken at its word, by identity
    def wrapped(*a, **kw):
        return kw
    own = FunctionBuilder('wrapped', args=['alpha', 'beta'],
                          defaults=('B',))
    wrapped._sinter_fb = own
    assert get_fb(wrapped) is own
    assert get_fb(wrapped, drop_self=False) is own
    assert get_arg_names(wrapped) == ('alpha', 'beta')
    assert get_arg_names(wrapped, True) == ('alpha',)

    # ... but only when it really is a FunctionBuilder
    def plain(u, v=1):
        pass
    for junk in (None, 0, '', 'fb', object(), ['alpha']):
        plain._sinter_fb = junk
        assert list(get_fb(plain).args) == ['u', 'v']

    # a callable object carrying its own builder (never looks at __call__)
    class Obj(object):
        def __call__(self, *a, **kw):
            return kw
    o = Obj()
    o_fb = FunctionBuilder('obj', args=['gamma'])
    o._sinter_fb = o_fb
    assert get_fb(o) is o_fb
    assert get_arg_names(o) == ('gamma',)
    o._sinter_fb = 'not a builder'
    assert get_fb(o).varkw == 'kw'
    assert get_fb(o).varargs == 'a' and list(get_fb(o).args) == []

    # the builder on the __call__ of a callable object is honoured as well
    class Obj2(object):
        def __call__(self, *a, **kw):
            return kw
    Obj2.__call__._sinter_fb = FunctionBuilder('call', args=['delta'])
    assert get_arg_names(Obj2()) == ('delta',)
    assert get_fb(Obj2()) is Obj2.__call__._sinter_fb

    # bound method whose function carries a builder: used as is (no self drop)
    class Obj3(object):
        def m(self, *a, **kw):
            return kw
    m_fb = FunctionBuilder('m', args=['self', 'eps'])
    Obj3.m._sinter_fb = m_fb
    assert get_fb(Obj3().m) is m_fb
    assert get_arg_names(Obj3().m) == ('self', 'eps')

    # strange (non-str) args are refused
    class FakeFB(FunctionBuilder):
        pass
    orig = FunctionBuilder.from_func
    try:
        FunctionBuilder.from_func = classmethod(
            lambda cls, func: FunctionBuilder('x', args=['ok', ('t', 'u')]))
        try:
            get_fb(plain)
        except TypeError as te:
            assert 'anonymous tuple arguments' in str(te)
        else:
            raise AssertionError('expected TypeError')
        FunctionBuilder.from_func = classmethod(
            lambda cls, func: FunctionBuilder('x', args=[]))
        assert list(get_fb(plain).args) == []
    finally:
        FunctionBuilder.from_func = orig
    assert list(get_fb(f).args) == ['a', 'b']


def test_inject_by_kind():
    v = dict(x=S('x'), y=S('y'), p=S('p'), s1=S('s1'), c1=S('c1'), a=S('a'),
             alpha=S('alpha'), extra=S('extra'))
    c = C()
    out = inject(c, v)
    assert out['x'] is v['x'] and out['y'] is v['y'] and sorted(out) == ['x', 'y']
    out = inject(c, dict(x=v['x'], extra=v['extra']))
    assert out['x'] is v['x'] and out['y'] == 2
    out = inject(c.meth, v)
    assert out['p'] is v['p'] and out['q'] == 3
    out = inject(C.sm, v)
    assert out['s1'] is v['s1'] and out['s2'] == 4
    assert inject(C.cm, v)['c1'] is v['c1']
    out = inject(f, v)          # **kw: receives everything on offer
    assert out['a'] is v['a'] and out['b'] == 1 and out['args'] == ()
    assert set(out['kw']) == set(v) - set(['a'])
    assert out['kw']['extra'] is v['extra']

    # names come from the carried builder when there is one
    def wrapped(**kw):
        return kw
    wrapped._sinter_fb = FunctionBuilder('wrapped', args=['alpha', 'x'])
    out = inject(wrapped, v)
    assert sorted(out) == ['alpha', 'x'] and out['alpha'] is v['alpha']


def test_chain_with_callable_kinds():
    rec = []

    class MWObj(object):
        "callable-object middleware function"
        def __call__(self, next, x, opt='obj-default'):
            rec.append(('obj', dict(x=x, opt=opt)))
            return next(from_obj=sentinel_obj)

    class Holder(object):
        def mw(self, next, from_obj, y):
            rec.append(('meth', dict(from_obj=from_obj, y=y)))
            return next(from_meth=sentinel_meth)

    def final(from_obj, from_meth, x, z=0):
        rec.append(('final', dict(from_obj=from_obj, from_meth=from_meth,
                                  x=x, z=z)))
        return 'ok'

    sentinel_obj, sentinel_meth = S('from_obj'), S('from_meth')
    chain, args, unres = make_chain([MWObj(), Holder().mw],
                                    [('from_obj',), ('from_meth',)], final,
                                    ['x', 'y', 'w'], 'next')
    assert args == set(['x', 'y']) and unres == set()
    vx, vy = S('x'), S('y')
    assert chain(x=vx, y=vy) == 'ok'
    assert rec[0] == ('obj', dict(x=vx, opt='obj-default'))
    assert rec[1] == ('meth', dict(from_obj=sentinel_obj, y=vy))
    assert rec[2] == ('final', dict(from_obj=sentinel_obj,
                                    from_meth=sentinel_meth, x=vx, z=0))


def test_application_with_callable_endpoint():
    res = S('res')

    class EP(object):
        def __init__(self):
            self.got = None

        def __call__(self, request, name, res, maybe=None):
            self.got = dict(request=request, name=name, res=res, maybe=maybe)
            return Response(name)

    class Ctl(object):
        def __init__(self):
            self.got = None

        def handle(self, num, res, _route):
            self.got = dict(num=num, res=res, _route=_route)
            return Response(str(num))

    ep, ctl = EP(), Ctl()
    app = Application([Route('/o/<name>', ep), Route('/m/<num:int>', ctl.handle)],
                      resources={'res': res})
    cl = app.get_local_client()
    assert cl.get('/o/bob').data == b'bob'
    assert ep.got['name'] == 'bob' and ep.got['res'] is res
    assert ep.got['maybe'] is None
    assert cl.get('/m/0').data == b'0'
    assert ctl.got['num'] == 0 and ctl.got['res'] is res
    assert ctl.got['_route'] is app.routes[1]
    assert app.routes[0].endpoint_args == ('request', 'name', 'res', 'maybe')
    assert app.routes[1].endpoint_args == ('num', 'res', '_route')

    # labels used by the meta application go through get_fb too
    mod, name, inv = get_callable_labels(ctl.handle)
    assert name == 'handle' and inv == 'self, num, res, _route'
    assert mod.endswith('.Ctl')


if __name__ == '__main__':
    test_signatures()
    test_own_fb()
    test_inject_by_kind()
    test_chain_with_callable_kinds()
    test_application_with_callable_endpoint()
    print('PASS')
