# -*- coding: utf-8 -*-
"""demo1: check_middleware / check_middlewares (clastic/middleware/core.py).

Exercises: first-parameter-must-be-next for every phase, non-callable phase
attributes, and the provided_by conflict map over every source pair, including
exact conflict messages (names, source order, tuple-ness).
"""
import warnings
warnings.simplefilter('ignore')

from clastic import Application, Route, SubApplication
from clastic.middleware import Middleware
from clastic.middleware.core import check_middleware, check_middlewares
from clastic.route import RESERVED_ARGS


def raises(exc_type, func, *a, **kw):
    try:
        func(*a, **kw)
    except Exception as e:
        assert type(e) is exc_type, 'expected %r, got %r' % (exc_type, e)
        return str(e)
    raise AssertionError('expected %r, nothing raised' % (exc_type,))


def ep():
    return 'ok'


def render_ctx(context):
    return context


CONFLICT = 'found conflicting provides: %r'


def make_mw(name, provides=(), endpoint_provides=(), render_provides=(),
            request=None, endpoint=None, render=None):
    attrs = {'provides': provides,
             'endpoint_provides': endpoint_provides,
             'render_provides': render_provides}
    if request is not None:
        attrs['request'] = request
    if endpoint is not None:
        attrs['endpoint'] = endpoint
    if render is not None:
        attrs['render'] = render
    return type(name, (Middleware,), attrs)()


# --- 1. check_middleware: first parameter must be next, in every phase --------

def good_req(self, next):
    return next()


def bad_first(self, request, next):
    return next()


def kw_next_first(self, next=None):
    return next()


for phase in ('request', 'endpoint', 'render'):
    good = make_mw('Good_' + phase, **{phase: good_req})
    assert check_middleware(good) is None
    assert check_middlewares([good]) is True
    good_kw = make_mw('GoodKw_' + phase, **{phase: kw_next_first})
    assert check_middleware(good_kw) is None

    bad = make_mw('Bad_' + phase, **{phase: bad_first})
    msg = raises(TypeError, check_middleware, bad)
    assert msg == ("middleware functions must take argument 'next' as the"
                   " first parameter (Bad_%s.%s)" % (phase, phase)), msg
    # ... and at construction time, both app-level and route-level
    raises(TypeError, Application, [('/', ep, render_ctx)], middlewares=[bad])
    raises(TypeError, Application,
           [Route('/', ep, render_ctx, middlewares=[bad])])
    raises(TypeError, check_middlewares, [good, bad])

    # non-callable but truthy
    notfunc = make_mw('NotFunc_' + phase)
    setattr(notfunc, phase, 5)
    msg = raises(TypeError, check_middleware, notfunc)
    assert msg == 'expected NotFunc_%s.%s to be a function' % (phase, phase), msg
    raises(TypeError, Application, [], middlewares=[notfunc])

    # falsy values are skipped
    for falsy in (None, 0, '', ()):
        skipped = make_mw('Skipped_' + phase)
        setattr(skipped, phase, falsy)
        assert check_middleware(skipped) is None

    # zero-argument (after self) function: indexing an empty arg list
    noargs = make_mw('NoArgs_' + phase, **{phase: (lambda self: None)})
    raises(IndexError, check_middleware, noargs)

# the first offending phase (request < endpoint < render) is the one reported
multi_bad = make_mw('MultiBad', request=good_req, endpoint=bad_first)
setattr(multi_bad, 'render', 7)
msg = raises(TypeError, check_middleware, multi_bad)
assert msg.endswith('(MultiBad.endpoint)'), msg

# an earlier broken middleware is reported before a later conflict, and a
# conflict is only reported when all middlewares are individually fine
mw_a = make_mw('ProvA', provides=('a',), request=good_req)
mw_a2 = make_mw('ProvA2', provides=('a',), request=good_req)
bad_last = make_mw('BadLast', request=bad_first)
raises(TypeError, check_middlewares, [mw_a, mw_a2, bad_last])
raises(NameError, check_middlewares, [mw_a, mw_a2])


# --- 2. check_middlewares: the provided_by map -------------------------------

assert check_middlewares([]) is True
assert check_middlewares([], None) is True
assert check_middlewares([], {}) is True
assert check_middlewares((), {'url': set(), 'builtins': (), 'resources': []}) is True
assert check_middlewares([mw_a], {'url': ['b'], 'resources': ['c']}) is True
assert check_middlewares(iter([mw_a]), {'url': ['b']}) is True

# mw vs mw: every pair of provides-tuples, across and within phases
KINDS = ('provides', 'endpoint_provides', 'render_provides')
for k1 in KINDS:
    for k2 in KINDS:
        m1 = make_mw('M1', **{k1: ('x', 'only1')})
        m2 = make_mw('M2', **{k2: ('only2', 'x')})
        msg = raises(NameError, check_middlewares, [m1, m2])
        assert msg == CONFLICT % [('x', (m1, m2))], msg
        msg = raises(NameError, check_middlewares, [m2, m1])
        assert msg == CONFLICT % [('x', (m2, m1))], msg
        raises(NameError, Application, [('/', ep, render_ctx)],
               middlewares=[m1, m2])
        if k1 != k2:
            # same middleware offering one name in two phases
            both = make_mw('Both', **{k1: ('x',), k2: ('x',)})
            msg = raises(NameError, check_middlewares, [both])
            assert msg == CONFLICT % [('x', (both, both))], msg
    # same name twice in one tuple
    dup = make_mw('Dup', **{k1: ('x', 'x')})
    msg = raises(NameError, check_middlewares, [dup])
    assert msg == CONFLICT % [('x', (dup, dup))], msg

# order inside one middleware: provides, endpoint_provides, render_provides
tri = make_mw('Tri', provides=('p',), endpoint_provides=('e',),
              render_provides=('r',))
other = make_mw('Other', provides=('r', 'e', 'p'))
msg = raises(NameError, check_middlewares, [tri, other])
assert msg == CONFLICT % [('p', (tri, other)), ('e', (tri, other)),
                          ('r', (tri, other))], msg
msg = raises(NameError, check_middlewares, [other, tri])
assert msg == CONFLICT % [('r', (other, tri)), ('e', (other, tri)),
                          ('p', (other, tri))], msg

# source vs source, source vs mw: sources come first, in args_dict order
msg = raises(NameError, check_middlewares, [],
             {'url': ['a'], 'builtins': ['b'], 'resources': ['a']})
assert msg == CONFLICT % [('a', ('url', 'resources'))], msg
msg = raises(NameError, check_middlewares, [],
             {'resources': ['a'], 'url': ['a']})
assert msg == CONFLICT % [('a', ('resources', 'url'))], msg
msg = raises(NameError, check_middlewares, [], {'url': ['a', 'a']})
assert msg == CONFLICT % [('a', ('url', 'url'))], msg
for src in ('url', 'builtins', 'resources'):
    for kind in KINDS:
        m = make_mw('SrcMw', **{kind: ('a',)})
        args = {'url': [], 'builtins': [], 'resources': []}
        args[src] = ['z', 'a']
        msg = raises(NameError, check_middlewares, [m], args)
        assert msg == CONFLICT % [('a', (src, m))], msg
three = make_mw('Three', provides=('a',))
msg = raises(NameError, check_middlewares, [three],
             {'url': ['a'], 'builtins': ['a'], 'resources': ['a']})
assert msg == CONFLICT % [('a', ('url', 'builtins', 'resources', three))], msg

# the args_dict is not mutated
args = {'url': ['a'], 'resources': ['b']}
check_middlewares([make_mw('Q', provides=('c',))], args)
assert args == {'url': ['a'], 'resources': ['b']}

# non-string (but hashable) names are handled like any other
m_int = make_mw('IntProv', provides=(0, None))
assert check_middlewares([m_int], {'url': ['', 1]}) is True
msg = raises(NameError, check_middlewares, [m_int], {'url': [None, 0]})
assert msg == CONFLICT % [(None, ('url', m_int)), (0, ('url', m_int))], msg


# --- 3. the same through Application / Route.bind ----------------------------

for kind in KINDS:
    for reserved in RESERVED_ARGS:
        m = make_mw('ResMw', **{kind: (reserved,)})
        # app-level check has no builtins map, but binding the null route does
        assert check_middlewares([m]) is True
        msg = raises(NameError, Application, [], middlewares=[m])
        assert msg == CONFLICT % [(reserved, ('builtins', m))], msg
        msg = raises(NameError, Application,
                     [Route('/', ep, render_ctx, middlewares=[m])])
        assert msg == CONFLICT % [(reserved, ('builtins', m))], msg
    m = make_mw('UrlMw', **{kind: ('item',)})
    msg = raises(NameError, Application, [('/<item>', ep, render_ctx)],
                 middlewares=[m])
    assert msg == CONFLICT % [('item', ('url', m))], msg
    msg = raises(NameError, Application, [('/', ep, render_ctx)],
                 resources={'item': 1}, middlewares=[m])
    assert msg == CONFLICT % [('item', ('resources', m))], msg
    # embedded: inner app is fine on its own, outer app's resource conflicts
    inner = Application([('/', ep, render_ctx)], middlewares=[m])
    msg = raises(NameError, Application, [SubApplication('/sub', inner)],
                 resources={'item': 1})
    assert msg == CONFLICT % [('item', ('resources', m))], msg
    # route-level mw vs app-level mw
    m_app = make_mw('AppMw', provides=('item',))
    msg = raises(NameError, Application,
                 [Route('/', ep, render_ctx, middlewares=[m])],
                 middlewares=[m_app])
    assert msg == CONFLICT % [('item', (m_app, m))], msg

# valid configuration still constructs and serves
ok_mw = make_mw('OkMw', provides=('thing',),
                request=lambda self, next: next(thing='T'))
app = Application([('/<name>', lambda name, thing, res: '%s-%s-%s' % (name, thing, res),
                    lambda context: __import__('clastic').Response(context))],
                  resources={'res': 'R'}, middlewares=[ok_mw])
resp = app.get_local_client().get('/n')
assert resp.status_code == 200 and resp.data == b'n-T-R', resp.data

print('PASS')
