# -*- coding: utf-8 -*-
"""demo3: dispatch property C06 (first match in order, methods, 404/405,
non-breaking fallthrough), with a focus on how a single route is run inside
Application.dispatch (responses, raised / returned HTTPExceptions, uncaught
exceptions, non-responses, RerouteWSGI) and on when its outcome ends the
search (is_breaking, source_route).

Prints PASS and exits 0 when every assertion holds.
"""
import itertools
import random
import sys
import warnings

warnings.simplefilter('ignore')

from werkzeug.test import create_environ, run_wsgi_app

from clastic import Application, Route, Response
from clastic.route import InvalidMethod, HTTP_METHODS
from clastic.errors import (BadRequest, Forbidden, NotFound, Gone,
                            InternalServerError)

# ---------------------------------------------------------------- catalogue

PATHS = ['/', '/a', '/b', '/a/b', '/c/d', '/a/']

# pattern -> request paths (of PATHS) it matches
PATTERNS = {
    '/a': {'/a', '/a/'},
    '/b': {'/b'},
    '/a/b': {'/a/b'},
    '/<name>': {'/a', '/b', '/a/'},
    '/<parts*>': {'/', '/a', '/b', '/a/b', '/c/d', '/a/'},
    '/a/<sub?>': {'/a', '/a/b', '/a/'},
}

METHOD_SETS = [None, ['GET'], ['post'], ['HEAD'], ['PUT', 'delete'],
               ('get', 'POST')]

REQ_METHODS = ['GET', 'HEAD', 'POST', 'PUT', 'DELETE', 'get', 'post',
               'FROB', 'OPTIONS']

BEHAVIOURS = ['answer', 'raise400', 'return410', 'raise500',
              'raise403nb', 'return404nb', 'raise404nb', 'uncaught',
              'notresponse']


def make_endpoint(kind, marker):
    hdr = {'X-Marker': marker}

    def endpoint():
        if kind == 'answer':
            return Response(marker, headers=hdr)
        if kind == 'raise400':
            raise BadRequest(marker, headers=hdr)
        if kind == 'return410':
            return Gone(marker, headers=hdr)
        if kind == 'raise500':
            raise InternalServerError(marker, headers=hdr)
        if kind == 'raise403nb':
            raise Forbidden(marker, headers=hdr, is_breaking=False)
        if kind == 'return404nb':
            return NotFound(marker, headers=hdr, is_breaking=False)
        if kind == 'raise404nb':
            raise NotFound(marker, headers=hdr, is_breaking=False)
        if kind == 'uncaught':
            raise ValueError(marker)
        if kind == 'notresponse':
            return {'marker': marker}
        raise AssertionError(kind)
    return endpoint


STATUS = {'answer': 200, 'raise400': 400, 'return410': 410, 'raise500': 500,
          'raise403nb': 403, 'return404nb': 404, 'raise404nb': 404,
          'uncaught': 500, 'notresponse': 500}
NONBREAKING = {'raise403nb', 'return404nb', 'raise404nb'}
NO_HEADER = {'uncaught', 'notresponse'}


def effective_methods(methods):
    if not methods:
        return None
    ret = set(m.upper() for m in methods)
    if 'GET' in ret:
        ret.add('HEAD')
    return ret


def expected(specs, path, method):
    """The reference model of the property: (status, marker, allow)."""
    last_nb = None
    allowed = set()
    any_path = False
    for marker, pattern, methods, kind in specs:
        if path not in PATTERNS[pattern]:
            continue
        any_path = True
        eff = effective_methods(methods)
        if eff is not None and method.upper() not in eff:
            allowed |= eff
            continue
        if kind in NONBREAKING:
            last_nb = (STATUS[kind], marker, None)
            continue
        return (STATUS[kind], None if kind in NO_HEADER else marker, None)
    if last_nb:
        return last_nb
    if allowed:
        return (405, None, ', '.join(sorted(allowed)))
    assert not any_path or not allowed
    return (404, None, None)


def call(app, path, method):
    environ = create_environ(path=path)
    environ['REQUEST_METHOD'] = method
    app_iter, status, headers = run_wsgi_app(app, environ)
    body = b''.join(app_iter).decode('utf8')
    return int(status.split()[0]), headers, body


def observe(app, path, method):
    status, headers, body = call(app, path, method)
    return status, headers.get('X-Marker'), headers.get('Allow'), body


def build_app(specs, rng, how):
    routes = [Route(pattern, make_endpoint(kind, marker), methods=methods)
              for marker, pattern, methods, kind in specs]
    if how == 'ctor':
        return Application(routes)
    if how == 'tuples':
        # only method-less specs can be given as plain tuples
        return Application([(r.pattern, r.endpoint) if r.methods is None else r
                            for r in routes])
    # 'add': insert in a random order at the index giving the final order
    app = Application()
    order = list(range(len(routes)))
    rng.shuffle(order)
    placed = []
    for i in order:
        index = len([p for p in placed if p < i])
        if index == len(placed) and rng.random() < 0.5:
            app.add(routes[i])
        else:
            app.add(routes[i], index)
        placed.append(i)
        placed.sort()
    return app


def check_table(specs, rng, how):
    app = build_app(specs, rng, how)
    got_patterns = [r.pattern for r in app.routes]
    assert got_patterns == [s[1] for s in specs], (got_patterns, specs)
    count = 0
    for path in PATHS:
        for method in REQ_METHODS:
            exp_status, exp_marker, exp_allow = expected(specs, path, method)
            status, marker, allow, body = observe(app, path, method)
            ctx = (specs, path, method, (status, marker, allow))
            assert status == exp_status, ctx
            assert marker == exp_marker, ctx
            assert allow == exp_allow, ctx
            if method.upper() != 'HEAD':
                if exp_marker is not None:
                    assert exp_marker in body, ctx
                if status == 405:
                    assert repr(sorted(exp_allow.split(', '))) in body, ctx
            count += 1
    return count


def random_tables(seed, n_tables):
    rng = random.Random(seed)
    patterns = sorted(PATTERNS)
    total = 0
    for t in range(n_tables):
        size = rng.choice([0, 1, 2, 2, 3, 3, 4, 4])
        specs = [('M%d.%d' % (t, i), rng.choice(patterns),
                  rng.choice(METHOD_SETS), rng.choice(BEHAVIOURS))
                 for i in range(size)]
        how = rng.choice(['ctor', 'add', 'add', 'tuples'])
        total += check_table(specs, rng, how)
    return total


def handpicked_tables():
    rng = random.Random(0)
    tables = [
        [],
        # method mismatch followed by a non-breaking error
        [('r0', '/a', ['POST'], 'answer'), ('r1', '/<name>', None, 'raise403nb'),
         ('r2', '/<parts*>', ['PUT'], 'answer')],
        # two non-breaking errors: the most recent wins
        [('r0', '/a', None, 'raise403nb'), ('r1', '/<name>', None, 'return404nb')],
        [('r0', '/a', None, 'return404nb'), ('r1', '/<name>', None, 'raise403nb'),
         ('r2', '/b', None, 'answer')],
        # overlapping patterns with different methods: Allow is the union
        [('r0', '/a', ['GET'], 'answer'), ('r1', '/<name>', ['post'], 'answer'),
         ('r2', '/<parts*>', ['DELETE'], 'answer'), ('r3', '/b', ['PUT'], 'answer')],
        # HEAD only route does not admit GET
        [('r0', '/a', ['HEAD'], 'answer'), ('r1', '/a', ['GET'], 'raise400')],
        # a breaking error stops the search, an uncaught one as well
        [('r0', '/a', None, 'raise400'), ('r1', '/a', None, 'answer')],
        [('r0', '/a', None, 'uncaught'), ('r1', '/a', None, 'answer')],
        [('r0', '/a', None, 'notresponse'), ('r1', '/a', None, 'answer')],
        # non-breaking then breaking
        [('r0', '/a', None, 'raise404nb'), ('r1', '/a', None, 'return410'),
         ('r2', '/a', None, 'answer')],
        # same pattern twice: first wins
        [('r0', '/a', None, 'answer'), ('r1', '/a', None, 'answer')],
    ]
    total = 0
    for specs in tables:
        for how in ('ctor', 'add', 'add', 'add'):
            total += check_table(specs, rng, how)
    return total


# ------------- focus: running one route and deciding whether it settles it

import werkzeug.exceptions

from clastic.application import RerouteWSGI
from clastic.errors import ErrorHandler, HTTPException, MethodNotAllowed


class Abort(BaseException):
    pass


class SpecialError(Exception):
    pass


class Teapot(HTTPException):
    code = 418
    message = 'teapot'


class LooseTeapot(Teapot):
    "an error type which never got the attributes HTTPException sets"
    def __init__(self, detail):
        super(LooseTeapot, self).__init__(detail)
        del self.is_breaking
        del self.source_route


class MappingHandler(ErrorHandler):
    "turns SpecialError into a non-breaking 403, anything else as usual"
    def __init__(self, **kw):
        super(MappingHandler, self).__init__(**kw)
        self.calls = []

    def uncaught_to_response(self, _application, _route, **kwargs):
        self.calls.append((_route, kwargs['_error'], sorted(kwargs)))
        if isinstance(kwargs['_error'], SpecialError):
            return Forbidden('mapped', is_breaking=False)
        return super(MappingHandler, self).uncaught_to_response(
            _application, _route, **kwargs)


def other_wsgi(environ, start_response):
    start_response('202 Accepted', [('Content-Type', 'text/plain')])
    return [b'other wsgi app']


def check_execution():
    log = []

    def ok(request):
        log.append(('ok', dict(request.path_params)))
        return Response('ok')

    def named(name, request):
        log.append(('named', name, dict(request.path_params)))
        return Response('named:' + name)

    def nb(code_name):
        def endpoint():
            log.append(code_name)
            raise Forbidden(code_name, is_breaking=False)
        return endpoint

    def raiser(exc_factory):
        def endpoint():
            raise exc_factory()
        return endpoint

    def returner(factory):
        def endpoint():
            return factory()
        return endpoint

    def reroute_raise():
        raise RerouteWSGI(other_wsgi)

    # --- what counts as breaking
    for flag, breaking in ((True, True), (1, True), ('no', True), (False, False),
                           (0, False), ('', False), (None, False)):
        for raised in (True, False):
            make = (lambda flag=flag: Teapot('tea', is_breaking=flag))
            first = raiser(make) if raised else returner(make)
            app = Application([Route('/t', first), Route('/t', ok)])
            status, headers, body = call(app, '/t', 'GET')
            if breaking:
                assert status == 418 and body.startswith('418 - teapot'), (flag, body)
            else:
                assert status == 200 and body == 'ok', (flag, status, body)
            # without a later route the non-breaking error is the answer
            app = Application([Route('/t', first)])
            assert call(app, '/t', 'GET')[0] == 418
    # an HTTPException without the attribute at all is breaking
    app = Application([Route('/t', raiser(lambda: LooseTeapot('loose'))),
                       Route('/t', ok)])
    status, headers, body = call(app, '/t', 'GET')
    assert status == 418 and 'loose' in body
    assert log and all(entry == ('ok', {}) for entry in log)
    del log[:]

    # --- source_route: set to the producing route unless already truthy
    seen = []

    class Handler(ErrorHandler):
        def render_error(self, request, _error, _route):
            seen.append((_error, _route))
            return super(Handler, self).render_error(request, _error)

    elsewhere = Application([Route('/x', ok)], error_handler=Handler()).routes[0]
    app = Application([Route('/own', raiser(lambda: Teapot('own'))),
                       Route('/pre', raiser(lambda: Teapot('pre', source_route=elsewhere))),
                       Route('/nbpre', raiser(lambda: Teapot('nbpre', source_route=elsewhere,
                                                             is_breaking=False))),
                       Route('/falsy', returner(lambda: Teapot('falsy', source_route=0))),
                       Route('/loose', returner(lambda: LooseTeapot('loose')))],
                      error_handler=Handler())
    for path, idx in (('/own', 0), ('/pre', None), ('/nbpre', None), ('/falsy', 3),
                      ('/loose', 4)):
        assert call(app, path, 'GET')[0] == 418
        (err, route), = seen
        want = elsewhere if idx is None else app.routes[idx]
        assert err.source_route is want and route is want, path
        del seen[:]

    # --- anything that is not an HTTPException goes to the error handler
    handler = MappingHandler()
    werkzeug_404 = werkzeug.exceptions.NotFound
    app = Application([Route('/v', raiser(lambda: ValueError('boom'))),
                       Route('/v', ok),
                       Route('/w', raiser(werkzeug_404)),
                       Route('/n', returner(lambda: None)),
                       Route('/s', returner(lambda: 'text')),
                       Route('/sp', raiser(lambda: SpecialError('first'))),
                       Route('/sp', nb('second')),
                       Route('/sp', raiser(lambda: SpecialError('third'))),
                       Route('/sp2', raiser(lambda: SpecialError('x'))),
                       Route('/sp2', ok, methods=['POST']),
                       Route('/<name>', named, methods=['GET'])],
                      error_handler=handler)
    status, headers, body = call(app, '/v', 'GET')
    assert status == 500 and 'ValueError' in body and 'boom' in body
    assert not log
    (route, error, keys), = handler.calls
    assert route is app.routes[0] and type(error) is ValueError
    assert keys == ['_dispatch_state', '_error', 'request'], keys
    del handler.calls[:]

    status, headers, body = call(app, '/w', 'GET')
    assert status == 500 and 'NotFound' in body
    assert type(handler.calls.pop()[1]) is werkzeug_404

    for path, type_name in (('/n', 'NoneType'), ('/s', 'str')):
        status, headers, body = call(app, path, 'GET')
        assert status == 500 and 'TypeError' in body, body
        assert 'expected Response, received' in body and type_name in body, body
        route, error, keys = handler.calls.pop()
        assert type(error) is TypeError and not handler.calls

    # the handler's own response is subject to the same rules: here it is a
    # non-breaking 403, so the search goes on and the last one wins
    status, headers, body = call(app, '/sp', 'PUT')
    assert status == 403 and 'mapped' in body and 'Allow' not in headers
    assert [c[0] for c in handler.calls] == [app.routes[5], app.routes[7]]
    assert [str(c[1]) for c in handler.calls] == ['first', 'third']
    assert log == ['second']
    del handler.calls[:], log[:]
    status, headers, body = call(app, '/sp2', 'GET')
    assert status == 200 and body == 'named:sp2'
    assert log == [('named', 'sp2', {'name': 'sp2'})]
    del handler.calls[:], log[:]
    status, headers, body = call(app, '/sp2', 'POST')
    assert status == 200 and body == 'ok' and len(handler.calls) == 1
    assert log == [('ok', {})]
    del handler.calls[:], log[:]
    status, headers, body = call(app, '/sp2', 'PUT')
    assert status == 403 and 'mapped' in body and 'Allow' not in headers

    # --- reraise_uncaught: the original exception leaves the WSGI callable,
    # HTTPExceptions are still answered
    app = Application([Route('/v', raiser(lambda: ValueError('boom'))),
                       Route('/t', raiser(lambda: Teapot('tea'))),
                       Route('/n', returner(lambda: None))],
                      error_handler=ErrorHandler(reraise_uncaught=True))
    for path, exc_type, text in (('/v', ValueError, 'boom'),
                                 ('/n', TypeError, 'expected Response')):
        try:
            call(app, path, 'GET')
        except exc_type as e:
            assert text in str(e)
        else:
            raise AssertionError('not re-raised')
    assert call(app, '/t', 'GET')[0] == 418
    assert call(app, '/zzz', 'GET')[0] == 404

    # --- exceptions which are not Exceptions are never swallowed
    app = Application([Route('/a', nb('before')),
                       Route('/a', raiser(Abort)), Route('/a', ok)])
    try:
        call(app, '/a', 'GET')
    except Abort:
        pass
    else:
        raise AssertionError('Abort swallowed')
    assert log == ['before']
    del log[:]

    # --- RerouteWSGI, raised or used as an endpoint, hands the request over,
    # also after a non-breaking error, but only when its turn comes
    app = Application([Route('/r1', reroute_raise),
                       Route('/r2', RerouteWSGI(other_wsgi)),
                       Route('/r3', nb('r3')), Route('/r3', reroute_raise),
                       Route('/r4', ok), Route('/r4', reroute_raise),
                       Route('/r5', reroute_raise, methods=['POST']), Route('/r5', ok)])
    for path in ('/r1', '/r2', '/r3'):
        status, headers, body = call(app, path, 'GET')
        assert (status, body) == (202, 'other wsgi app'), (path, status, body)
    assert log == ['r3']
    del log[:]
    assert call(app, '/r4', 'GET')[2] == 'ok'
    assert call(app, '/r5', 'GET')[2] == 'ok'
    assert call(app, '/r5', 'POST')[0] == 202
    del log[:]

    # --- path parameters reach the endpoint and the request, per route
    app = Application([Route('/<name>', nb('nb')),
                       Route('/<a>/<b?>', ok, methods=['POST']),
                       Route('/<name>', named)])
    status, headers, body = call(app, '/zed', 'GET')
    assert body == 'named:zed'
    assert log == ['nb', ('named', 'zed', {'name': 'zed'})]
    del log[:]

    # --- a branch route redirects to its canonical path (nothing is run)
    app = Application([Route('/dir/', ok), Route('/<name>', named)])
    status, headers, body = call(app, '/dir', 'GET')
    assert status in (301, 302, 303, 307, 308) and '/dir/' in headers['Location']
    assert not log
    assert call(app, '/dir/', 'GET')[2] == 'ok'
    return True


def main():
    n = handpicked_tables()
    n += random_tables(20260603, 260)
    assert n > 10000, n
    check_execution()
    print('checked %d requests' % n)
    print('PASS')
    return 0


if __name__ == '__main__':
    sys.exit(main())
