# -*- coding: utf-8 -*-
"""demo3: RESERVED_ARGS, Application.__init__ and BoundRoute.__init__
(clastic/route.py, clastic/application.py).

Exercises: reserved names as application resources, route resources and URL
bindings; url/resource/builtin/middleware name clashes at application level,
route level and through embedding; exact messages (incl. ordering).
"""
import warnings
warnings.simplefilter('ignore')

from clastic import Application, Route, SubApplication, Response, GET, POST
from clastic.middleware import Middleware
from clastic.route import (RESERVED_ARGS, BoundRoute, _REQUEST_BUILTINS,
                           _RENDER_BUILTINS)


def raises(exc_type, func, *a, **kw):
    try:
        func(*a, **kw)
    except Exception as e:
        assert type(e) is exc_type, 'expected %r, got %r' % (exc_type, e)
        return str(e)
    raise AssertionError('expected %r, nothing raised' % (exc_type,))


CONFLICT = 'found conflicting provides: %r'
RES_CONFLICT = 'resource names conflict with builtins: %r'


def ep():
    return 'ok'


def rn(context):
    return Response(context)


# --- 0. the reserved tuple itself --------------------------------------------

assert type(RESERVED_ARGS) is tuple
assert RESERVED_ARGS == ('request', '_application', '_route', '_dispatch_state',
                         'context', 'next'), RESERVED_ARGS
assert _REQUEST_BUILTINS == RESERVED_ARGS[:4]
assert _RENDER_BUILTINS == RESERVED_ARGS[:5]


# --- 1. reserved names as application resources ------------------------------

for name in RESERVED_ARGS:
    msg = raises(NameError, Application, [], {name: 1})
    assert msg == RES_CONFLICT % [name], msg
    msg = raises(NameError, Application, [('/', ep, rn)], resources={name: None, 'fine': 2})
    assert msg == RES_CONFLICT % [name], msg
# several at once: reported in RESERVED_ARGS order, whatever the dict order
msg = raises(NameError, Application, [], {'next': 1, 'x': 2, 'context': 3, 'request': 4})
assert msg == RES_CONFLICT % ['request', 'context', 'next'], msg
msg = raises(NameError, Application, resources=dict.fromkeys(reversed(RESERVED_ARGS)))
assert msg == RES_CONFLICT % list(RESERVED_ARGS), msg
# resource conflicts are reported before middleware problems


class BrokenMW(Middleware):
    def request(self, request, next):
        return next()


msg = raises(NameError, Application, [], {'next': 1}, [BrokenMW()])
assert msg == RES_CONFLICT % ['next'], msg
raises(TypeError, Application, [], {'nxt': 1}, [BrokenMW()])
# unexpected kwargs are reported before resource conflicts
raises(TypeError, Application, [], {'next': 1}, bogus=True)
# near-misses are fine; falsy resources arguments mean "no resources"
for resources in (None, {}, [], (), 0, {'Request': 1, 'next_': 2, '_Route': 3, 'ctx': 4}):
    app = Application([('/', ep, rn)], resources)
    assert app.resources == (resources or {})
    assert app.get_local_client().get('/').data == b'ok'
# resources can be given as pairs; they are copied, not aliased
pairs = [('a', 1), ('b', 2)]
app = Application([], pairs)
assert app.resources == {'a': 1, 'b': 2}
res = {'a': 1}
app = Application([], res)
assert app.resources == res and app.resources is not res
raises(NameError, Application, [], [('a', 1), ('_route', 2)])
mws = [Middleware()]
app = Application([], None, mws)
assert app.middlewares == mws and app.middlewares is not mws
assert Application([], None, None).middlewares == []
assert Application([], None, ()).middlewares == []


# --- 2. reserved names as URL bindings / route resources ---------------------

for name in RESERVED_ARGS:
    route = Route('/<%s>' % name, ep, rn)
    msg = raises(NameError, Application, [route])
    assert msg == CONFLICT % [(name, ('url', 'builtins'))], msg
    msg = raises(NameError, route.bind, Application())
    assert msg == CONFLICT % [(name, ('url', 'builtins'))], msg
    for op in ('?', '*', '+', ':int', '?float'):
        raises(NameError, Application, [('/a/<%s%s>' % (name, op), ep, rn)])
    # route-level resources are not screened by Application.__init__, but by bind
    route = Route('/', ep, rn, resources={name: 1})
    msg = raises(NameError, Application, [route])
    assert msg == CONFLICT % [(name, ('builtins', 'resources'))], msg
    raises(NameError, Application().add, route)
    raises(NameError, Application, [GET('/', ep, rn, resources={name: 1})])
    # all three at once
    route = Route('/<%s>' % name, ep, rn, resources={name: 1})
    msg = raises(NameError, Application, [route])
    assert msg == CONFLICT % [(name, ('url', 'builtins', 'resources'))], msg


# --- 3. url vs resources, at every level -------------------------------------

msg = raises(NameError, Application, [('/<item>', ep, rn)], {'item': 1})
assert msg == CONFLICT % [('item', ('url', 'resources'))], msg
msg = raises(NameError, Application, [Route('/<item>', ep, rn, resources={'item': 1})])
assert msg == CONFLICT % [('item', ('url', 'resources'))], msg
msg = raises(NameError, Application, [('/x', ep, rn), ('/<a>/<b?int>', ep, rn)], {'b': 1})
assert msg == CONFLICT % [('b', ('url', 'resources'))], msg
# route resources overriding app resources of the same name is not a conflict
app = Application([Route('/', lambda item: str(item), rn, resources={'item': 'route'})],
                  {'item': 'app'})
assert app.routes[0].resources == {'item': 'route'}
assert app.get_local_client().get('/').status_code == 200
# embedding: prefix bindings and outer resources are checked on re-bind
inner = Application([('/<item>', lambda item: item, rn)])
msg = raises(NameError, Application, [SubApplication('/sub', inner)], {'item': 1})
assert msg == CONFLICT % [('item', ('url', 'resources'))], msg
inner = Application([('/', lambda item: item, rn)], {'item': 'I'})
msg = raises(NameError, Application, [SubApplication('/<item>', inner)])
assert msg == CONFLICT % [('item', ('url', 'resources'))], msg
msg = raises(NameError, Application, [SubApplication('/<request>', inner)])
assert msg == CONFLICT % [('request', ('url', 'builtins'))], msg
outer = Application([SubApplication('/sub', inner)], {'other': 1})
assert outer.get_local_client().get('/sub/').data == b'I'


# --- 4. middlewares against the route's source map ---------------------------

class ProvidesItem(Middleware):
    provides = ('item',)

    def request(self, next):
        return next(item='mw')


class RenderProvidesItem(Middleware):
    render_provides = ('item',)

    def render(self, next, context):
        return next(item='mw')


for mw in (ProvidesItem(), RenderProvidesItem()):
    msg = raises(NameError, Application, [('/<item>', ep, rn)], None, [mw])
    assert msg == CONFLICT % [('item', ('url', mw))], msg
    msg = raises(NameError, Application, [Route('/<item>', ep, rn, middlewares=[mw])])
    assert msg == CONFLICT % [('item', ('url', mw))], msg
    msg = raises(NameError, Application, [('/', ep, rn)], {'item': 1}, [mw])
    assert msg == CONFLICT % [('item', ('resources', mw))], msg
    msg = raises(NameError, Application, [Route('/', ep, rn, resources={'item': 1})], None, [mw])
    assert msg == CONFLICT % [('item', ('resources', mw))], msg
    msg = raises(NameError, Application, [Route('/<item>', ep, rn, resources={'item': 1})],
                 None, [mw])
    assert msg == CONFLICT % [('item', ('url', 'resources', mw))], msg
    inner = Application([('/', ep, rn)], None, [mw])
    msg = raises(NameError, Application, [SubApplication('/<item>', inner)])
    assert msg == CONFLICT % [('item', ('url', mw))], msg
    # without a clash everything binds, and the bound route knows its sources
    if isinstance(mw, ProvidesItem):
        good_ep = lambda other, item, res: '%s %s %s' % (other, item, res)
    else:
        good_ep = ep
    app = Application([('/<other>', good_ep, rn)], {'res': 'R'}, [mw])
    br = app.routes[0]
    assert isinstance(br, BoundRoute)
    assert set(br.converters) == set(['other']) and br.resources == {'res': 'R'}
    assert br.middlewares == (mw,)
    if isinstance(mw, ProvidesItem):
        assert app.get_local_client().get('/o').data == b'o mw R'
        assert br.get_required_args() == ['other', 'item', 'res'], br.get_required_args()

# names available to endpoints = url + builtins + resources (+ middleware provides)
seen = {}


def nosy(request, _application, _route, _dispatch_state, a, b, r1, r2):
    seen.update(a=a, b=b, r1=r1, r2=r2, app=_application, route=_route)
    return 'nosy'


app = Application([POST('/<a>/<b*int>', nosy, rn, resources={'r2': 'two'})], {'r1': 'one'})
assert app.get_local_client().post('/x/1/2').data == b'nosy'
assert seen['a'] == 'x' and seen['b'] == [1, 2] and seen['r1'] == 'one' and seen['r2'] == 'two'
assert seen['app'] is app and seen['route'] is app.routes[0]
# ... and nothing else
raises(NameError, Application, [('/<a>', lambda a, zzz: a, rn)], {'r1': 1})

print('PASS')
