# -*- coding: utf-8 -*-
"""demo2: JSONRender / JSONPRender emit valid JSON that round-trips."""
import sys
import json
import datetime

from werkzeug.test import EnvironBuilder
from werkzeug.wrappers import Request, Response

from clastic.render import render_json, render_json_dev, render_basic
from clastic.render.simple import JSONRender, JSONPRender


def req(path='/', **kw):
    return Request(EnvironBuilder(path=path, **kw).get_environ())


NATIVE = [
    None, True, False, 0, 1, -3, 2.5, 1e100, '', 'text', 'café ☃', '"q"\\\n',
    [], {}, [1, 2, 3], {'a': 1}, {'a': {'b': [1, {'c': None}]}, 'z': 'é'},
    [[], [[]], {}], {'': ''}, {'k': [True, False, None]}, 10 ** 30,
    ['<html>', '{}', '</script>'],
]


class Plain(object):
    def __repr__(self):
        return '<Plain obj>'


class WithToDict(object):
    def to_dict(self):
        return {'kind': 'to_dict'}


def check_json_resp(resp, expected, encoding='utf-8'):
    assert isinstance(resp, Response)
    assert resp.status_code == 200
    assert resp.mimetype == 'application/json', resp.mimetype
    assert resp.mimetype_params == {'charset': encoding}, resp.mimetype_params
    assert resp.headers['Content-Type'] == \
        'application/json; charset=%s' % encoding, resp.headers['Content-Type']
    body = resp.get_data(as_text=True)
    assert json.loads(body) == expected, (body, expected)
    return body


renders = {
    'plain': JSONRender(),
    'dev': JSONRender(dev_mode=True),
    'stream': JSONRender(streaming=True),
    'stream_dev': JSONRender(streaming=True, dev_mode=True),
    'latin': JSONRender(encoding='latin-1'),
    'module': render_json,
    'module_dev': render_json_dev,
}

for name, render in renders.items():
    for value in NATIVE:
        body = check_json_resp(render(value), value, encoding=render.encoding)
        # sort_keys + indent=2 + ensure_ascii defaults are visible in the body
        assert body == json.dumps(value, indent=2, sort_keys=True), (name, body)
        assert body.encode('ascii')

# streaming: the body is produced lazily, chunk by chunk; non-streaming: one chunk
lazy = JSONRender(streaming=True)([1, 2])
assert not isinstance(lazy.response, (list, tuple))
assert ''.join(lazy.response) == json.dumps([1, 2], indent=2)
eager = JSONRender()([1, 2])
assert isinstance(eager.response, list) and len(eager.response) == 1
assert eager.response[0] == json.dumps([1, 2], indent=2)

# non-streaming raises at call time, streaming only when iterated (laziness kept)
try:
    JSONRender()(Plain())
except TypeError as e:
    assert 'cannot serialize to JSON' in str(e)
else:
    raise AssertionError('expected TypeError')
lazy_bad = JSONRender(streaming=True)(Plain())   # no error yet
try:
    list(lazy_bad.response)
except TypeError as e:
    assert 'cannot serialize to JSON' in str(e)
else:
    raise AssertionError('expected TypeError')

# dev mode degrades to repr
for render in (renders['dev'], renders['stream_dev'], render_json_dev):
    check_json_resp(render({'o': Plain()}), {'o': '<Plain obj>'})
    check_json_resp(render(Plain()), '<Plain obj>')
for render in renders.values():
    check_json_resp(render([WithToDict()]), [{'kind': 'to_dict'}],
                    encoding=render.encoding)
    d = datetime.datetime(2020, 1, 2, 3, 4, 5)
    check_json_resp(render({'when': d}), {'when': '2020-01-02T03:04:05'},
                    encoding=render.encoding)
    check_json_resp(render((1, (2, 3))), [1, [2, 3]], encoding=render.encoding)
    check_json_resp(render({1: 'int key'}), {'1': 'int key'},
                    encoding=render.encoding)
    # skipkeys=True: un-serializable keys are dropped instead of raising
    check_json_resp(render({(1, 2): 'x'}), {}, encoding=render.encoding)

# --- JSONP
jsonp_renders = [
    (JSONPRender(), 'callback'),
    (JSONPRender('cb'), 'cb'),
    (JSONPRender(qp_name='jsonp', dev_mode=True), 'jsonp'),
    (JSONPRender('callback', True), 'callback'),             # streaming positional
    (JSONPRender('callback', False, True, 'latin-1'), 'callback'),
]
assert jsonp_renders[3][0].streaming is True
assert jsonp_renders[4][0].dev_mode is True
assert jsonp_renders[4][0].encoding == 'latin-1'

for render, qp in jsonp_renders:
    for value in NATIVE:
        # no callback / empty callback -> plain JSON response
        for request in (req('/'), req('/?%s=' % qp), req('/?other=fn')):
            check_json_resp(render(request, value), value,
                            encoding=render.encoding)
        resp = render(req('/?%s=my_fn' % qp), value)
        assert resp.status_code == 200
        assert resp.mimetype == 'application/javascript'
        assert resp.mimetype_params == {'charset': render.encoding}
        assert not isinstance(resp.response, (list, tuple))   # always lazy
        body = resp.get_data(as_text=True)
        assert body.startswith('my_fn(') and body.endswith(');'), body
        assert json.loads(body[len('my_fn('):-2]) == value
        assert body == 'my_fn(' + json.dumps(value, indent=2, sort_keys=True) + ');'

# jsonp with a callback is lazy even for a non-streaming renderer
p = JSONPRender()
lazy_bad = p(req('/?callback=f'), Plain())
try:
    list(lazy_bad.response)
except TypeError:
    pass
else:
    raise AssertionError('expected TypeError')
# ... and eager without one
try:
    p(req('/'), Plain())
except TypeError:
    pass
else:
    raise AssertionError('expected TypeError')
resp = JSONPRender(dev_mode=True)(req('/?callback=f'), Plain())
assert resp.get_data(as_text=True) == 'f("<Plain obj>");'

# --- render_basic delegates to its JSON renderer (dev mode by default)
for value in [v for v in NATIVE if isinstance(v, (list, dict))]:
    for request in (req('/'), req('/?format=json'),
                    req('/', headers={'Accept': 'application/json'})):
        check_json_resp(render_basic(value, request, None), value)
check_json_resp(render_basic([Plain()], req('/'), None), ['<Plain obj>'])

print('PASS')
sys.exit(0)
