# -*- coding: utf-8 -*-
"""demo1: URL patterns match exactly the paths their mini-language describes.

Focus: the pattern compiler (_compile_path_pattern) -- which patterns are
rejected (and with which message), which regex each slash mode produces and
what the compiled routes match.  Besides a hand-written table of expected
results, the live implementation is compared against a frozen reference copy
of the compiler over a large enumerated space of patterns x paths.

Prints PASS and exits 0 when every assertion holds.
"""
from __future__ import print_function

import re
import sys
import random
import itertools

from clastic import Application, Route
from clastic import route as route_mod
from clastic.route import (InvalidPattern, S_STRICT, S_REDIRECT, S_REWRITE,
                           _compile_path_pattern)

MODES = (S_STRICT, S_REDIRECT, S_REWRITE)

# --------------------------------------------------------------------------
# frozen reference implementation (independent of clastic's module state)
# --------------------------------------------------------------------------
REF_BINDING = re.compile(r'<(?P<name>[A-Za-z_]\w*)(?P<op>\W*)(?P<type>\w+)*>')
REF_FLOAT = r'[+-]?\ *(\d+(\.\d*)?|\.\d+)([eE][+-]?\d+)?'
REF_INT = r'[+-]?\ *[0-9]+'
REF_STR = r'[^/]+'
REF_CONV = {'int': int, 'float': float, 'str': str, 'unicode': str}
REF_PATT = {'int': REF_INT, 'float': REF_FLOAT, 'str': REF_STR,
            'unicode': REF_STR}
REF_OPS = ['', '?', ':', '+', '*']
REF_MULTI = {'': False, '?': False, ':': False, '+': True, '*': True}
REF_OPT = {'': False, '?': True, ':': False, '+': False, '*': True}


class RefInvalid(Exception):
    pass


def ref_build_converter(converter, optional, multi):
    if multi:
        def multi_converter(value):
            if not value and optional:
                return []
            return [converter(v) for v in value.split('/')[1:]]
        return multi_converter

    def single_converter(value):
        if not value and optional:
            return None
        return converter(value.replace('/', ''))
    return single_converter


def ref_compile(pattern, mode):
    processed = []
    convs = {}
    if not pattern.startswith('/'):
        raise RefInvalid('URL path patterns must start with a forward'
                         ' slash (got %r)' % pattern)
    if '//' in pattern:
        raise RefInvalid('URL path patterns must not contain multiple'
                         'contiguous slashes (got %r)' % pattern)
    sep = '/' if mode == 'strict' else '/+'
    for part in pattern.split('/'):
        m = REF_BINDING.match(part)
        if not m:
            processed.append(part)
            continue
        name, type_name, op = m.group('name'), m.group('type'), m.group('op')
        if name in convs:
            raise RefInvalid('duplicate path binding %s' % name)
        if op == ':':
            op = ''
        if not type_name:
            type_name = 'unicode'
        if type_name not in REF_CONV:
            raise RefInvalid('unknown type specifier %s' % type_name)
        if op not in REF_MULTI:
            raise RefInvalid('unknown arity operator %r, expected one of '
                             'dict_keys(%r)' % (op, REF_OPS))
        convs[name] = ref_build_converter(REF_CONV[type_name],
                                          REF_OPT[op], REF_MULTI[op])
        processed[-1] += '(?P<%s>(%s%s)%s)' % (name, sep,
                                               REF_PATT[type_name], op)
    if mode != 'strict' and not processed[-1]:
        processed = processed[:-1]
    full = '^' + sep.join(processed)
    if mode != 'strict':
        full += '/*'
    return re.compile(full + '$'), convs


def ref_match(regex, convs, path):
    m = regex.match(path)
    if not m:
        return None
    groups = m.groupdict()
    ret = {}
    try:
        for name, conv in convs.items():
            ret[name] = conv(groups[name])
    except (KeyError, TypeError, ValueError):
        return None
    return ret


# --------------------------------------------------------------------------
# live side helpers
# --------------------------------------------------------------------------
APP = Application()


def endpoint():
    return None


def live_route(pattern, mode):
    """Bound route for *pattern* in slash *mode* (raises InvalidPattern)."""
    rt = Route(pattern, endpoint, slash_mode=mode)
    return rt.bind(APP, inherit_slashes=False)


def canon(result):
    """Order- and type-sensitive rendering of a match_path result."""
    if result is None:
        return None
    return repr(list(result.items()))


CHECKS = [0]


def expect(pattern, mode, path, expected):
    got = live_route(pattern, mode).match_path(path)
    assert canon(got) == canon(expected), (pattern, mode, path, got, expected)
    CHECKS[0] += 1


def expect_all_modes(pattern, path, expected):
    for mode in MODES:
        expect(pattern, mode, path, expected)


def expect_invalid(pattern, message):
    for mode in MODES:
        for compiler in (lambda: Route(pattern, endpoint, slash_mode=mode),
                         lambda: _compile_path_pattern(pattern, mode)):
            try:
                compiler()
            except InvalidPattern as exc:
                assert isinstance(exc, ValueError)
                assert str(exc) == message, (pattern, str(exc), message)
            else:
                raise AssertionError('accepted invalid pattern %r' % pattern)
            CHECKS[0] += 1


# --------------------------------------------------------------------------
# 1. rejected patterns (with the exact diagnostics, in precedence order)
# --------------------------------------------------------------------------
def check_rejections():
    start = 'URL path patterns must start with a forward slash (got %r)'
    multi = ('URL path patterns must not contain multiplecontiguous slashes'
             ' (got %r)')
    for bad in ('', 'a', 'a/b', '<x>', 'a//b', ' /a'):
        expect_invalid(bad, start % bad)
    for bad in ('//', '/a//b', '/a//', '//<x>', '/<x>//<x>', '/<x:bogus>//'):
        expect_invalid(bad, multi % bad)
    expect_invalid('/<x>/<x>', 'duplicate path binding x')
    expect_invalid('/<x:int>/a/<x*>', 'duplicate path binding x')
    # the duplicate check precedes type and operator checks
    expect_invalid('/<x>/<x!bogus>', 'duplicate path binding x')
    expect_invalid('/<x:bogus>', 'unknown type specifier bogus')
    expect_invalid('/<x?Int>', 'unknown type specifier Int')
    # the type check precedes the operator check
    expect_invalid('/<x!bogus>', 'unknown type specifier bogus')
    ops = "dict_keys(['', '?', ':', '+', '*'])"
    for op in ('!', '??', '::', '-', ' ', '*?', '+:', '?:', '.'):
        for type_name in ('', 'int', 'str'):
            pat = '/a/<x%s%s>' % (op, type_name)
            expect_invalid(pat, 'unknown arity operator %r, expected one of %s'
                           % (op, ops))
    # lookups failing are reported from inside the KeyError handler
    for pat in ('/<x:bogus>', '/<x!>'):
        try:
            _compile_path_pattern(pat, S_STRICT)
        except InvalidPattern as exc:
            assert isinstance(exc.__context__, KeyError), pat
        else:
            raise AssertionError(pat)
    # the first problem in left-to-right order wins
    expect_invalid('/<a:bogus>/<b!>', 'unknown type specifier bogus')
    expect_invalid('/<a!>/<b:bogus>',
                   "unknown arity operator '!', expected one of %s" % ops)


# --------------------------------------------------------------------------
# 2. generated regexes per slash mode
# --------------------------------------------------------------------------
def check_regex_sources():
    table = [
        ('/', '^/$', '^/*$'),
        ('/a', '^/a$', '^/+a/*$'),
        ('/a/', '^/a/$', '^/+a/*$'),
        ('/a/b', '^/a/b$', '^/+a/+b/*$'),
        ('/<x>', '^(?P<x>(/[^/]+))$', '^(?P<x>(/+[^/]+))/*$'),
        ('/<x:>/', '^(?P<x>(/[^/]+))/$', '^(?P<x>(/+[^/]+))/*$'),
        ('/a/<n?int>/b',
         '^/a(?P<n>(/[+-]?\\ *[0-9]+)?)/b$',
         '^/+a(?P<n>(/+[+-]?\\ *[0-9]+)?)/+b/*$'),
        ('/<p*str>/<q+unicode>',
         '^(?P<p>(/[^/]+)*)(?P<q>(/[^/]+)+)$',
         '^(?P<p>(/+[^/]+)*)(?P<q>(/+[^/]+)+)/*$'),
        ('/v/<f:float>',
         '^/v(?P<f>(/[+-]?\\ *(\\d+(\\.\\d*)?|\\.\\d+)([eE][+-]?\\d+)?))$',
         '^/+v(?P<f>(/+[+-]?\\ *(\\d+(\\.\\d*)?|\\.\\d+)([eE][+-]?\\d+)?))/*$'),
        # text after a binding inside one segment is dropped, text before it
        # turns the whole segment into a literal
        ('/<x>tail/b', '^(?P<x>(/[^/]+))/b$', '^(?P<x>(/+[^/]+))/+b/*$'),
        ('/pre<x>', '^/pre<x>$', '^/+pre<x>/*$'),
    ]
    for pattern, strict_src, loose_src in table:
        for mode in MODES:
            regex, convs = _compile_path_pattern(pattern, mode)
            want = strict_src if mode == S_STRICT else loose_src
            assert regex.pattern == want, (pattern, mode, regex.pattern)
            assert type(convs) is dict
            assert live_route(pattern, mode).regex.pattern == want
            CHECKS[0] += 1
    # default mode of the compiler is 'rewrite'
    assert _compile_path_pattern('/a/<x>')[0].pattern == \
        _compile_path_pattern('/a/<x>', S_REWRITE)[0].pattern
    # unknown mode strings behave like the non-strict modes
    assert _compile_path_pattern('/a/', 'whatever')[0].pattern == '^/+a/*$'
    assert _compile_path_pattern('/a/', None)[0].pattern == '^/+a/*$'
    # converters are keyed by binding name in pattern order
    _, convs = _compile_path_pattern('/<z>/k/<a*int>/<m?float>', S_STRICT)
    assert list(convs) == ['z', 'a', 'm']
    assert all(callable(c) for c in convs.values())
    assert convs['a']('/1/2') == [1, 2] and convs['a']('') == []
    assert convs['m']('') is None and convs['m']('/2') == 2.0
    assert convs['z']('/q') == 'q'


# --------------------------------------------------------------------------
# 3. hand-written expectations for matching
# --------------------------------------------------------------------------
def check_matching_table():
    # literals
    expect_all_modes('/a/b', '/a/b', {})
    expect_all_modes('/a/b', '/a', None)
    expect_all_modes('/a/b', '/a/b/c', None)
    expect_all_modes('/a/b', 'a/b', None)
    expect_all_modes('/a/b', '/a/B', None)
    expect_all_modes('/pre<x>', '/pre<x>', {})
    # single binding, all types
    expect_all_modes('/a/<x:int>/b', '/a/12/b', {'x': 12})
    expect_all_modes('/a/<x:int>/b', '/a/-3/b', {'x': -3})
    expect_all_modes('/a/<x:int>/b', '/a/ 5/b', {'x': 5})
    expect_all_modes('/a/<x:int>/b', '/a/+ 5/b', None)   # int() refuses
    expect_all_modes('/a/<x:int>/b', '/a/1.5/b', None)
    expect_all_modes('/a/<x:int>/b', '/a/b', None)
    expect_all_modes('/a/<x:int>/b', u'/a/١٢/b', None)
    expect_all_modes('/a/<x:float>/b', '/a/12/b', {'x': 12.0})
    expect_all_modes('/a/<x:float>/b', '/a/1e3/b', {'x': 1000.0})
    expect_all_modes('/a/<x:float>/b', '/a/.5/b', {'x': 0.5})
    expect_all_modes('/a/<x:float>/b', '/a/./b', None)
    expect_all_modes('/a/<x:float>/b', '/a/1e/b', None)
    expect_all_modes('/a/<x:float>/b', '/a/nan/b', None)
    expect_all_modes('/a/<x>/b', '/a/12/b', {'x': '12'})
    expect_all_modes('/a/<x:str>/b', u'/a/\xe9 +-./b', {'x': u'\xe9 +-.'})
    expect_all_modes('/a/<x:unicode>/b', '/a/b/b', {'x': 'b'})
    expect_all_modes('/a/<x>/b', '/a/b', None)
    # optional binding: None when absent, also in the middle
    expect_all_modes('/a/<m?>/z', '/a/z', {'m': None})
    expect_all_modes('/a/<m?>/z', '/a/q/z', {'m': 'q'})
    expect_all_modes('/a/<m?>/z', '/a/z/z', {'m': 'z'})
    expect_all_modes('/a/<m?>/z', '/a/q/r/z', None)
    expect_all_modes('/<n?int>/end', '/end', {'n': None})
    expect_all_modes('/<n?int>/end', '/0/end', {'n': 0})
    expect_all_modes('/<n?int>/end', '/x/end', None)
    # multi bindings: lists, [] when absent
    expect_all_modes('/files/<parts*>', '/files', {'parts': []})
    expect_all_modes('/files/<parts*>', '/files/a/b', {'parts': ['a', 'b']})
    expect_all_modes('/files/<parts+>', '/files', None)
    expect_all_modes('/files/<parts+>', '/files/a', {'parts': ['a']})
    expect_all_modes('/sum/<nums+float>', '/sum/1/2.5/.5/1e3/-2.',
                     {'nums': [1.0, 2.5, 0.5, 1000.0, -2.0]})
    expect_all_modes('/sum/<nums+float>', '/sum/1/x', None)
    expect_all_modes('/sum/<nums*int>', '/sum/1/2/3', {'nums': [1, 2, 3]})
    expect_all_modes('/sum/<nums*int>', '/sum/1/+ 2/3', None)
    # adjacent multi bindings: greedy with backtracking
    expect_all_modes('/<a*>/<b*>', '/x/y', {'a': ['x', 'y'], 'b': []})
    expect_all_modes('/<a+>/<b+>', '/x/y/z', {'a': ['x', 'y'], 'b': ['z']})
    expect_all_modes('/<a+>/<b+>', '/x', None)
    expect_all_modes('/<a?>/<b?>', '/x', {'a': 'x', 'b': None})
    expect_all_modes('/<a*int>/<b*>', '/1/2/x', {'a': [1, 2], 'b': ['x']})
    expect_all_modes('/<a*int>/<b+>', '/1/2', {'a': [1], 'b': ['2']})
    expect_all_modes('/<a*>/k/<b:int>', '/k/k/k/7', {'a': ['k', 'k'], 'b': 7})
    # no second assignment is tried after a conversion failure
    expect_all_modes('/<a*int>/<b*str>', '/+ 5', None)
    # slash modes
    expect('/a/<x:int>/b', S_STRICT, '/a/12/b/', None)
    expect('/a/<x:int>/b', S_STRICT, '/a//12/b', None)
    expect('/a/<x:int>/b/', S_STRICT, '/a/12/b/', {'x': 12})
    expect('/a/<x:int>/b/', S_STRICT, '/a/12/b', None)
    expect('/files/<parts*>', S_STRICT, '/files/', None)
    expect('/<a?>/<b?>', S_STRICT, '/', None)
    expect('/<a?>/<b?>', S_STRICT, '', {'a': None, 'b': None})
    expect('/', S_STRICT, '/', {})
    expect('/', S_STRICT, '//', None)
    for mode in (S_REDIRECT, S_REWRITE):
        expect('/a/<x:int>/b', mode, '/a/12/b/', {'x': 12})
        expect('/a/<x:int>/b', mode, '/a/12/b///', {'x': 12})
        expect('/a/<x:int>/b', mode, '//a///12//b', {'x': 12})
        expect('/a/<x:int>/b/', mode, '/a/12/b', {'x': 12})
        expect('/a/<x:int>/b/', mode, '/a/12/b//', {'x': 12})
        expect('/files/<parts*>', mode, '/files/', {'parts': []})
        expect('/files/<parts*>/', mode, '/files/a/b', {'parts': ['a', 'b']})
        expect('/<a?>/<b?>', mode, '/', {'a': None, 'b': None})
        expect('/', mode, '/', {})
        expect('/', mode, '///', {})
        expect('/', mode, '', {})
        expect('/a', mode, '/a/', {})
        expect('/a', mode, '/a/b', None)
    # result value types are exactly str / int / float
    got = live_route('/<i:int>/<f:float>/<s>/<l*int>', S_STRICT) \
        .match_path('/1/1/1/1')
    assert [type(v) for v in got.values()] == [int, float, str, list]
    assert type(got['l'][0]) is int


# --------------------------------------------------------------------------
# 4. differential enumeration against the frozen reference
# --------------------------------------------------------------------------
LITERALS = ['a', 'b-1', '12']
TYPES = ['', 'int', 'float', 'str', 'unicode']


def binding_specs():
    specs = ['<%s>']
    for op in ':?*+':
        for type_name in TYPES:
            specs.append('<%s' + op + type_name + '>')
    return specs


ELEMENTS = LITERALS + binding_specs()
NAMES = ['x', 'y', 'z', 'w']


def make_pattern(elements, trailing):
    parts = []
    for pos, elem in enumerate(elements):
        parts.append(elem % NAMES[pos] if '%s' in elem else elem)
    return '/' + '/'.join(parts) + ('/' if trailing else '')


def all_patterns(max_full=2, sample_sizes=((3, 250), (4, 150)), seed=5):
    rng = random.Random(seed)
    for n in range(1, max_full + 1):
        for combo in itertools.product(ELEMENTS, repeat=n):
            for trailing in (False, True):
                yield make_pattern(combo, trailing)
    for n, count in sample_sizes:
        for _ in range(count):
            combo = [rng.choice(ELEMENTS) for _ in range(n)]
            yield make_pattern(combo, rng.random() < 0.5)


ALPHABET = [u'/', u'a', u'1', u'.', u'-', u'+', u' ', u'e', u'\xe9']
SEGMENT_POOL = [u'a', u'b-1', u'12', u'1', u'-2', u'+ 5', u' 7', u'1.5',
                u'.5', u'1e3', u'1E-2', u'\xe9', u'a b', u'0', u'x.y', u'',
                u'+', u'.', u'e', u'1e', u'007', u'-0.0']


def all_paths(seed=11, n_random=300):
    for n in range(0, 4):
        for tup in itertools.product(ALPHABET, repeat=n):
            yield u''.join(tup)
    for tup in itertools.product(ALPHABET, repeat=3):
        yield u'/' + u''.join(tup)
    rng = random.Random(seed)
    for _ in range(n_random):
        segs = [rng.choice(SEGMENT_POOL) for _ in range(rng.randint(1, 7))]
        path = u''
        for seg in segs:
            path += rng.choice([u'/', u'/', u'/', u'//']) + seg
        path += rng.choice([u'', u'', u'/', u'//'])
        yield path


def check_differential():
    paths = list(all_paths())
    assert len(set(paths)) > 1500
    patterns = list(all_patterns())
    # 4a. compiler output is identical for every pattern in every mode
    n_compiled = 0
    for pattern in patterns:
        for mode in MODES:
            ref_regex, ref_convs = ref_compile(pattern, mode)
            regex, convs = _compile_path_pattern(pattern, mode)
            assert regex.pattern == ref_regex.pattern, (pattern, mode)
            assert regex.flags == ref_regex.flags
            assert list(convs) == list(ref_convs), (pattern, mode)
            n_compiled += 1
    # 4b. match results are identical on a seeded sample of routes
    rng = random.Random(23)
    sample = rng.sample(patterns, 260)
    n_pairs = n_hits = 0
    for pattern in sample:
        mode = rng.choice(MODES)
        ref_regex, ref_convs = ref_compile(pattern, mode)
        bound = live_route(pattern, mode)
        assert bound.regex.pattern == ref_regex.pattern
        for path in paths:
            want = ref_match(ref_regex, ref_convs, path)
            got = bound.match_path(path)
            assert canon(got) == canon(want), (pattern, mode, path, got, want)
            n_pairs += 1
            n_hits += got is not None
    assert n_hits > 1000, n_hits
    # 4c. rejected patterns agree too (same decision, same message)
    bad_patterns = ['a/<x>', '/a//<x>', '/<x>/<x:int>', '/<x:nope>',
                    '/<x!int>', '/<x>/<y!nope>/<x>', '/<x>/<y:nope>/<z!>',
                    '/<x:int>/', '/<x*int>/<y+float>/<z?str>/<w:unicode>',
                    '/<x-int>', '/<x:int:int>', '/<x:int>y', '/<1x>',
                    '/<x:>', '/<x?>', '/<x >', '/< x>', '/<>', '/<x', '/x>']
    n_bad = 0
    for pattern in bad_patterns:
        for mode in MODES:
            try:
                ref = ref_compile(pattern, mode)[0].pattern
            except RefInvalid as exc:
                ref = ('invalid', str(exc))
            try:
                live = _compile_path_pattern(pattern, mode)[0].pattern
            except InvalidPattern as exc:
                live = ('invalid', str(exc))
            assert live == ref, (pattern, mode, live, ref)
            n_bad += isinstance(live, tuple)
    assert n_bad >= 20, n_bad
    return n_compiled, n_pairs, n_hits


# --------------------------------------------------------------------------
# 5. end to end: the endpoint receives the converted values
# --------------------------------------------------------------------------
def check_end_to_end():
    from werkzeug.wrappers import Response

    def show(a, b, rest, opt):
        return Response(repr((a, b, rest, opt)))

    for mode in MODES:
        app = Application([('/add/<a:int>/<b:float>/<opt?int>/x/<rest*>',
                             show)], slash_mode=mode)
        client = app.get_local_client()
        resp = client.get('/add/1/2.5/x/p/q')
        assert resp.status_code == 200, (mode, resp.status_code)
        assert resp.data == b"(1, 2.5, ['p', 'q'], None)", resp.data
        resp = client.get('/add/1/2.5/-4/x')
        assert resp.status_code == 200, (mode, resp.status_code)
        assert resp.data == b"(1, 2.5, [], -4)", resp.data
        assert client.get('/add/one/2.5/x').status_code == 404
        assert client.get('/add/1/2.5/+ 4/x').status_code == 404
        assert client.get('/add/1/x').status_code == 404


def main():
    check_rejections()
    check_regex_sources()
    check_matching_table()
    n_compiled, n_pairs, n_hits = check_differential()
    check_end_to_end()
    print('explicit checks: %d; compiled: %d; pattern x path pairs: %d '
          '(%d matches)' % (CHECKS[0], n_compiled, n_pairs, n_hits))
    print('PASS')


if __name__ == '__main__':
    main()
    sys.exit(0)
