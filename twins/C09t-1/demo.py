# -*- coding: utf-8 -*-
"""demo1: the serializers of clastic.errors.HTTPException (to_text / to_html /
to_xml / to_json / to_escaped_dict) and adapt(), compared against an
independent oracle and re-parsed with json / ElementTree / HTMLParser.

Prints PASS and exits 0 when the C09 property holds.
"""
import sys
import json
import html
import itertools
import xml.etree.ElementTree as ET
from html.parser import HTMLParser

from clastic import errors
from clastic.errors import HTTPException, MIME_SUPPORT_MAP

CHECKS = 0


def check(cond, msg):
    global CHECKS
    CHECKS += 1
    if not cond:
        raise AssertionError(msg)


# --------------------------------------------------------------- oracle --

def esc(v):
    if v is None:
        return ''
    if isinstance(v, str):
        return html.escape(v, True)
    return html.escape(repr(v), True)


def oracle_text(code, message, detail, error_type):
    out = '%s - %s' % (code, message)
    if detail:
        out += '\n\n' + detail
    if error_type:
        out += '\n\nError type: %s' % error_type
    return out


def oracle_html(code, message, detail, error_type):
    c, m, d, t = esc(code), esc(message), esc(detail), esc(error_type)
    out = ['<!doctype html><html>',
           '<head><title>' + c + ' - ' + m + '</title></head>',
           '<body><h1>' + m + '</h1>']
    if d:
        out.append('<p>' + d + '</p>')
    if t:
        if t.startswith('http'):
            out.append('<p>Error type: <a target="_blank" href="' + t + '">'
                       + t + '</a></p>')
        else:
            out.append('<p>Error type: ' + t + '</p>')
    out.append('</body></html>')
    return '\n'.join(out)


def oracle_xml(code, message, detail, error_type):
    return ('<http_error><code>' + esc(code) + '</code><message>'
            + esc(message) + '</message><detail>' + esc(detail)
            + '</detail><error_type>' + esc(error_type)
            + '</error_type></http_error>')


# ----------------------------------------------------------- tokenizers --

class Collector(HTMLParser):
    def __init__(self):
        HTMLParser.__init__(self, convert_charrefs=True)
        self.tags = []
        self.attrs = []
        self.text = {}
        self.stack = []

    def handle_starttag(self, tag, attrs):
        self.tags.append(tag)
        self.stack.append(tag)
        if attrs:
            self.attrs.append((tag, attrs))

    def handle_endtag(self, tag):
        if self.stack and self.stack[-1] == tag:
            self.stack.pop()

    def handle_data(self, data):
        key = self.stack[-1] if self.stack else None
        self.text[key] = self.text.get(key, '') + data

    def handle_comment(self, data):
        raise AssertionError('comment introduced: %r' % data)

    def handle_pi(self, data):
        raise AssertionError('processing instruction introduced: %r' % data)

    def unknown_decl(self, data):
        raise AssertionError('declaration introduced: %r' % data)


ALLOWED_TAGS = ['html', 'head', 'title', 'body', 'h1', 'p', 'a']


def as_text(v):
    if v is None:
        return ''
    return v if isinstance(v, str) else repr(v)


def check_html(body, code, message, detail, error_type, label):
    col = Collector()
    col.feed(body)
    col.close()
    expected_tags = ['html', 'head', 'title', 'body', 'h1']
    if as_text(detail):
        expected_tags.append('p')
    et_text = as_text(error_type)
    is_link = bool(et_text) and esc(error_type).startswith('http')
    if et_text:
        expected_tags.append('p')
        if is_link:
            expected_tags.append('a')
    check(col.tags == expected_tags,
          '%s: unexpected html tags %r != %r' % (label, col.tags, expected_tags))
    if is_link:
        check(col.attrs == [('a', [('target', '_blank'), ('href', et_text)])],
              '%s: bad attrs %r' % (label, col.attrs))
    else:
        check(col.attrs == [], '%s: stray attrs %r' % (label, col.attrs))
    check(col.text.get('h1') == as_text(message) or not as_text(message),
          '%s: h1 text %r' % (label, col.text.get('h1')))
    want_p = as_text(detail)
    if et_text:
        want_p += 'Error type: ' + ('' if is_link else et_text)
    check(col.text.get('p', '') == want_p, '%s: p text %r != %r' % (label, col.text.get('p'), want_p))
    check(col.text.get('a', '') == (et_text if is_link else ''), '%s: a text' % label)
    check(col.text.get('title') =='%s - %s' % (as_text(code), as_text(message)),
          '%s: title text %r' % (label, col.text.get('title')))


def xml_representable(s):
    return all(ch in '\t\n\r' or 0x20 <= ord(ch) <= 0xD7FF
               or 0xE000 <= ord(ch) <= 0xFFFD or ord(ch) >= 0x10000 for ch in s)



def check_xml(body, code, message, detail, error_type, label):
    # escaping claim: once the fixed skeleton is removed, no markup chars
    skeleton = ['<http_error>', '<code>', '</code>', '<message>', '</message>',
                '<detail>', '</detail>', '<error_type>', '</error_type>',
                '</http_error>']
    rest = body
    for piece in skeleton:
        check(rest.count(piece) >= 1, '%s: missing %s' % (label, piece))
        rest = rest.replace(piece, '\x01', 1)
    for ch in '<>"\'':
        check(ch not in rest, '%s: raw %r in xml payload %r' % (label, ch, rest))
    texts = [as_text(v) for v in (code, message, detail, error_type)]
    if all(xml_representable(t) for t in texts):
        root = ET.fromstring(body.encode('utf-8'))
        check(root.tag == 'http_error', label)
        check([c.tag for c in root] == ['code', 'message', 'detail', 'error_type'],
              '%s: xml children' % label)
        norm = lambda s: s.replace('\r\n', '\n').replace('\r', '\n')
        for child, want in zip(root, texts):
            check(norm(child.text or '') == norm(want),
                  '%s: xml <%s> %r != %r' % (label, child.tag, child.text, want))
            check(len(child) == 0, '%s: nested element in <%s>' % (label, child.tag))


# ------------------------------------------------------------- the spread --

NASTY = [
    '<script>alert(1)</script>',
    '"double" & \'single\' <b>bold</b> &amp; &lt;',
    '{code} {0} {detail!r} {{}} {message.__class__}',
    '%s %(x)s %d %%',
    '{%s}{?exc_type}{exc_type}{/exc_type}{>partial/}',
    u'ünïcödé ☃ \U0001F600',
    'ctrl\x00\x08\x0b\x1f chars',
    ']]> <!-- --> <?pi?> <![CDATA[x]]>',
    'http://example.net/"onmouseover="alert(1)',
    "https://example.net/?a=1&b='2'<3>",
    'http<b>',
    'line1\nline2\r\nline3',
    '0',
    ' ',
]
FALSY = [None, '']

MIMES = list(MIME_SUPPORT_MAP) + [None, 'image/png', 'text/*', '*/*', '',
                                  'TEXT/HTML', 'application/json; charset=utf-8']


def expected_format(mimetype):
    return {'text/html': ('html', 'text/html'),
            'application/json': ('json', 'application/json'),
            'text/plain': ('text', 'text/plain'),
            'application/xml': ('xml', 'application/xml')}.get(
                mimetype, ('text', 'text/plain'))


def expected_content_type(mime):
    if mime.startswith('text/') or mime == 'application/xml':
        return mime + '; charset=utf-8'
    return mime


def verify_instance(err, code, message, detail, error_type, label):
    status = 200 if code is None else code  # werkzeug's default for status=None
    check(err.code == code and err.status_code == status, '%s: status %r' % (label, err.status_code))
    check(err.message == message and err.detail == detail
          and err.error_type == error_type, '%s: fields' % label)
    # freshly built: text/plain
    check(err.headers['Content-Type'] == 'text/plain; charset=utf-8', label)
    check(err.get_data(as_text=True) == oracle_text(code, message, detail, error_type),
          '%s: initial text body' % label)
    check(err.to_text() == oracle_text(code, message, detail, error_type), label + ': to_text')
    check(err.to_html() == oracle_html(code, message, detail, error_type),
          '%s: to_html\n%r\n%r' % (label, err.to_html(), oracle_html(code, message, detail, error_type)))
    check(err.to_xml() == oracle_xml(code, message, detail, error_type), label + ': to_xml')
    ed = err.to_escaped_dict()
    check(list(ed)[:4] == ['detail', 'message', 'code', 'error_type'], label + ': escaped keys')
    check([ed[k] for k in ('detail', 'message', 'code', 'error_type')]
          == [esc(detail), esc(message), esc(code), esc(error_type)], label + ': escaped values')
    check(all(type(v) is str for v in ed.values()), label + ': escaped types')
    check_html(err.to_html(), code, message, detail, error_type, label)
    check_xml(err.to_xml(), code, message, detail, error_type, label)
    loaded = json.loads(err.to_json())
    for key, want in (('code', code), ('message', message), ('detail', detail),
                      ('error_type', error_type)):
        check(key in loaded, '%s: json lacks %s' % (label, key))
        if isinstance(want, tuple):
            want = list(want)
        check(loaded[key] == want, '%s: json %s %r != %r' % (label, key, loaded[key], want))
    for mimetype in MIMES:
        fmt, mime = expected_format(mimetype)
        ret = err.adapt(mimetype)
        check(ret is None, label + ': adapt returns None')
        check(err.headers['Content-Type'] == expected_content_type(mime),
              '%s: content-type for %r: %r' % (label, mimetype, err.headers['Content-Type']))
        body = err.get_data(as_text=True)
        check(body == getattr(err, 'to_' + fmt)(), '%s: body for %r' % (label, mimetype))
        check(err.status_code == status, label + ': status survives adapt')
        if fmt == 'json':
            check(json.loads(body)['code'] == code, label + ': adapt json')
    err.adapt()  # default -> text
    check(err.headers['Content-Type'] == 'text/plain; charset=utf-8', label + ': adapt()')


def main():
    # 1. every exported class, defaults: status table + four formats
    std = {400: 'BadRequest', 401: 'Unauthorized', 402: 'PaymentRequired', 403: 'Forbidden',
           405: 'MethodNotAllowed', 406: 'NotAcceptable', 407: 'ProxyAuthenticationRequired',
           408: 'RequestTimeout', 409: 'Conflict', 410: 'Gone', 411: 'LengthRequired',
           412: 'PreconditionFailed', 413: 'RequestEntityTooLarge', 414: 'RequestURITooLong',
           415: 'UnsupportedMediaType', 416: 'RequestedRangeNotSatisfiable',
           417: 'ExpectationFailed', 418: 'ImATeapot', 422: 'UnprocessableEntity',
           426: 'UpgradeRequired', 428: 'PreconditionRequired', 429: 'TooManyRequests',
           431: 'RequestHeaderFieldsTooLarge', 451: 'UnavailableForLegalReasons',
           501: 'NotImplemented', 502: 'BadGateway', 503: 'ServiceUnavailable',
           504: 'GatewayTimeout', 505: 'HTTPVersionNotSupported',
           404: 'NotFound', 500: 'InternalServerError'}
    for code, name in sorted(std.items()):
        cls = getattr(errors, name)
        check(cls.code == code, 'class code %s' % name)
        check(issubclass(errors.ERROR_CODE_MAP[code], cls), 'ERROR_CODE_MAP[%s]' % code)
        err = cls()
        verify_instance(err, code, cls.message, cls.detail, None, name)
    check(errors.ERROR_CODE_MAP[None] is HTTPException, 'base in code map')
    check(sorted(errors.ERROR_CODE_MAP, key=lambda c: c or 0) == [None] + sorted(std),
          'code map keys')
    check(len(errors.__all__) == len(std), '__all__ size')
    base = HTTPException()
    verify_instance(base, None, 'Error', 'An unspecified error occurred.', None, 'base')

    # 2. overridden fields drawn from nasty strings, on a few classes
    classes = [errors.BadRequest, errors.NotFound, errors.InternalServerError,
               errors.ImATeapot, HTTPException]
    n = 0
    for detail, message, error_type in itertools.product(NASTY[:11] + FALSY, NASTY[:4] + [''],
                                                         NASTY[7:12] + FALSY + ['plain-type']):
        cls = classes[n % len(classes)]
        n += 1
        code = [cls.code, 499, 599, 418][n % 4]
        err = cls(detail, message=message, code=code, error_type=error_type)
        want_detail = detail or cls.detail
        verify_instance(err, code, message, want_detail, error_type, 'combo %d' % n)
    for s in NASTY:
        err = errors.Forbidden(s, message=s, error_type=s)
        verify_instance(err, 403, s, s, s, 'same %r' % s)
        err = errors.Forbidden(detail=s, mimetype='text/html')
        check(err.headers['Content-Type'] == 'text/html; charset=utf-8', 'ctor mimetype')
        check(err.get_data(as_text=True) == oracle_html(403, errors.Forbidden.message, s, None),
              'ctor mimetype body')
        err = errors.Forbidden(detail=s, mimetype='application/x-unknown')
        check(err.headers['Content-Type'] == 'text/plain; charset=utf-8', 'ctor bad mimetype')

    # 3. non-string field values (repr fallback of the escaper, %-format quirks)
    err = errors.BadRequest('d', message=404, code=400, error_type=('<x>',))
    check(err.to_text() == "400 - 404\n\nd\n\nError type: <x>", 'tuple text')
    check(err.to_html() == oracle_html(400, 404, 'd', ('<x>',)), 'tuple html')
    check('<x>' not in err.to_html() and '<x>' not in err.to_xml(), 'tuple escaped')
    check_xml(err.to_xml(), 400, 404, 'd', ('<x>',), 'tuple xml')
    err = errors.BadRequest('d', message=('<a>', '"b"'), error_type=b'<bytes&>')
    check(err.to_text() == "400 - ('<a>', '\"b\"')\n\nd\n\nError type: b'<bytes&>'", 'bytes text')
    check(err.to_html() == oracle_html(400, ('<a>', '"b"'), 'd', b'<bytes&>'), 'bytes html')
    check(err.to_xml() == oracle_xml(400, ('<a>', '"b"'), 'd', b'<bytes&>'), 'bytes xml')
    err = errors.BadRequest('d', error_type=0)
    check(err.to_text() == '400 - Bad Request\n\nd', 'zero error_type text')
    check(err.to_escaped_dict()['error_type'] == '0', 'zero error_type escaped')
    check(err.to_html() == oracle_html(400, 'Bad Request', 'd', 0), 'zero error_type html')
    for bad_kwargs in ({'error_type': ('a', 'b')}, {'detail': ['<list>']}, {'detail': 5}):
        try:
            errors.BadRequest(**bad_kwargs)
        except TypeError:
            check(True, 'TypeError')
        else:
            check(False, 'expected TypeError for %r' % (bad_kwargs,))
    try:
        errors.BadRequest('x').adapt(['text/html'])
    except TypeError:
        check(True, 'unhashable mimetype')
    else:
        check(False, 'expected TypeError for unhashable mimetype')

    # 4. InternalServerError carries exc_info into dict/json only
    ise = errors.InternalServerError('<boom>')
    check(ise.to_dict()['exc_info'] is None, 'exc_info none')
    check(ise.to_escaped_dict()['exc_info'] == '', 'escaped exc_info')
    check(json.loads(ise.to_json())['exc_info'] is None, 'json exc_info')
    check(ise.to_html() == oracle_html(500, ise.message, '<boom>', None), 'ise html')

    # 5. MethodNotAllowed detail / Allow header
    mna = errors.MethodNotAllowed(['POST', 'GET'])
    check(mna.headers['Allow'] == 'GET, POST', 'allow header')
    check(mna.detail.endswith("Allowed methods: ['GET', 'POST']"), 'mna detail')
    verify_instance(mna, 405, mna.message, mna.detail, None, 'mna')
    check(mna.headers['Allow'] == 'GET, POST', 'allow header survives adapt')

    print('PASS (%d checks)' % CHECKS)
    return 0


if __name__ == '__main__':
    sys.exit(main())
