# -*- coding: utf-8 -*-
"""Shared checks for the C07 demos (trailing-slash redirects, one hop)."""
import re
import sys

from werkzeug.test import create_environ
from werkzeug.urls import url_quote, url_unquote, url_parse
from werkzeug.wrappers import Response

from clastic import Application, SubApplication, Route, GET, POST
from clastic import S_REDIRECT, S_REWRITE, S_STRICT
from clastic.route import normalize_path, NullRoute, BoundRoute

MODES = (S_REDIRECT, S_REWRITE, S_STRICT)
METHODS = ('GET', 'HEAD', 'POST', 'PUT', 'DELETE', 'OPTIONS', 'TRACE',
           'CONNECT', 'PATCH')

# decoded path segments with URL-significant characters
SEGMENTS = [u'a', u'a?b', u'a#b', u'100%', u'%41', u'a b', u'a;b', u'a&b=c',
            u'caf\xe9', u'中', u'+', u'a:b@c', u'.', u'..', u'0']
QUERIES = ['', 'x=1', 'x=1&y=%2F', 'a=b?c', 'q=caf%C3%A9', 'e=', '=',
           'x=%zz', 'a=1&a=2', 'sp=a+b%20c']


def ep(request):
    return Response(u'|'.join([request.method, request.path]))


def ep_single(request, name):
    return Response(u'|'.join([request.method, request.path, name]))


def ep_multi(request, parts):
    return Response(u'|'.join([request.method, request.path] + list(parts)))


def spec_normalize(path, is_branch):
    """Independent statement of the canonical form."""
    segs = [s for s in re.split('/+', path) if s != '']
    if not segs:
        return '/'
    out = ''
    for s in segs:
        out += '/' + s
    if is_branch:
        out += '/'
    return out


def call(app, path, query='', method='GET'):
    """Run one request with a *decoded* path; returns (status, headers, body)."""
    environ = create_environ(path=url_quote(path, safe='/'), base_url='http://h.test/',
                             query_string=query, method=method)
    # make sure the decoded path is exactly what we asked for
    environ['PATH_INFO'] = path.encode('utf8').decode('latin1')
    environ['QUERY_STRING'] = query
    captured = {}

    def start_response(status, headers, exc_info=None):
        captured['status'] = int(status.split()[0])
        captured['headers'] = dict(headers)
    body = b''.join(app(environ, start_response))
    return captured['status'], captured['headers'], body.decode('utf8')


def split_location(location):
    """-> (decoded path, raw query) of an absolute Location."""
    assert location.startswith('http://h.test/'), location
    rest = location[len('http://h.test'):]
    assert '#' not in rest, location
    raw_path, sep, query = rest.partition('?')
    return url_unquote(raw_path), query


def check_redirect_one_hop(app, path, query, method, is_branch=True):
    """path must be non-canonical for a branch route admitted for method."""
    status, headers, body = call(app, path, query, method)
    assert 300 <= status < 400, (path, query, method, status)
    loc_path, loc_query = split_location(headers['Location'])
    canonical = spec_normalize(path, True)
    assert loc_path == canonical, (path, loc_path, canonical)
    assert loc_query == query, (query, loc_query)
    # fixed point
    assert normalize_path(loc_path, True) == loc_path
    # second hop: no more redirects, same resource
    status2, headers2, body2 = call(app, loc_path, loc_query, method)
    assert status2 == 200, (path, loc_path, status2)
    if method != 'HEAD':
        assert body2.split(u'|')[:2] == [method, canonical], body2
    return canonical


def noncanonical_variants(segs):
    """Non-canonical spellings of the branch path made of segs.

    (werkzeug's request.path collapses *leading* slashes itself, so the
    doubled slashes are put elsewhere.)"""
    body = u'/'.join(segs)
    ret = [u'/' + body,                 # missing trailing slash
           u'/' + body + u'//',         # doubled trailing slash
           u'/' + body + u'////']
    if len(segs) > 1:
        ret.append(u'/' + u'//'.join(segs) + u'/')
        ret.append(u'/' + u'///'.join(segs))
    return ret


def finish():
    print('PASS')
    sys.exit(0)


# ---------------------------------------------------------------- demo 2
# The sentinel NullRoute: always rewrite mode, never redirects, reports the
# strict-mode NotFound / MethodNotAllowed / NotFound that dispatch recorded;
# and around it: redirects only for admitted methods, not in strict / rewrite.

def main():
    from clastic.errors import NotFound, MethodNotAllowed

    # 1. the null route itself
    for mode in MODES:
        app = Application([], slash_mode=mode)
        null = app._null_route
        assert isinstance(null, BoundRoute)
        assert isinstance(null.unbound_route, NullRoute)
        assert null.slash_mode == S_REWRITE, (mode, null.slash_mode)
        assert null.pattern == '/<_ignored*>'
        assert null.methods is None
        assert not null.is_branch
        for path in (u'/', u'/a', u'/a/', u'//a//b//', u'/a?b/%41/', u'/caf\xe9//'):
            assert null.match_path(path) is not None, (mode, path)
        # rebinding with explicit kwargs still can't make it inherit
        for kw in ({}, {'inherit_slashes': True}, {'inherit_slashes': False},
                   {'rebind_render': False}, {'prefix': '/p', 'inherit_slashes': True}):
            kw_before = dict(kw)
            rebound = NullRoute().bind(app, **kw)
            assert rebound.slash_mode == S_REWRITE, (mode, kw)
            assert kw == kw_before
            assert rebound.pattern == kw.get('prefix', '') + '/<_ignored*>'
        try:
            NullRoute().bind(app, bogus=1)
        except TypeError as te:
            assert 'unexpected keyword args' in str(te) and 'bogus' in str(te)
            assert 'inherit_slashes' not in str(te)
        else:
            raise AssertionError('bogus kwarg accepted')
        try:
            NullRoute().bind()
        except TypeError:
            pass
        else:
            raise AssertionError('bind() without app accepted')

    # 2. what the sentinel answers, per mode
    def routes():
        return [GET('/g/<name>/', ep_single),
                POST('/p/<name>/', ep_single),
                Route('/gp/<name>/', ep_single, methods=['GET', 'POST']),
                Route('/any/<name>/', ep_single),
                GET('/leaf/<name>', ep_single)]

    apps = dict((mode, Application(routes(), slash_mode=mode)) for mode in MODES)
    admitted = {u'g': ('GET', 'HEAD'), u'p': ('POST',),
                u'gp': ('GET', 'HEAD', 'POST'), u'any': METHODS}

    for seg in SEGMENTS:
        for head, ok_methods in sorted(admitted.items()):
            canonical = u'/%s/%s/' % (head, seg)
            for method in METHODS:
                ok = method in ok_methods
                for query in ('', 'x=1&y=%2F'):
                    for path in noncanonical_variants([head, seg]):
                        # redirect mode: 30x iff the method is admitted, else 405
                        if ok:
                            check_redirect_one_hop(apps[S_REDIRECT], path, query, method)
                        else:
                            status, headers, body = call(apps[S_REDIRECT], path, query, method)
                            assert status == 405, (path, method, status)
                            assert 'Location' not in headers
                            assert set(headers['Allow'].split(', ')) == set(ok_methods)
                        # rewrite mode: executed directly, never a redirect
                        status, headers, body = call(apps[S_REWRITE], path, query, method)
                        assert status == (200 if ok else 405), (path, method, status)
                        assert 'Location' not in headers
                        if ok and method != 'HEAD':
                            assert body == u'|'.join([method, path, seg]), body
                        # strict mode: does not match at all -> plain 404
                        status, headers, body = call(apps[S_STRICT], path, query, method)
                        assert status == 404, (path, method, status)
                        assert 'Location' not in headers and 'Allow' not in headers
                    # canonical path: same in all three modes
                    for mode in MODES:
                        status, headers, body = call(apps[mode], canonical, query, method)
                        assert status == (200 if ok else 405), (mode, canonical, method)
                        assert 'Location' not in headers

    # 3. unmatched paths: 404 from the sentinel in every mode, no redirect
    for mode in MODES:
        for path in (u'/', u'/nope', u'/nope//', u'/g', u'/g//', u'/g/a/b//', u'/leaf'):
            for method in ('GET', 'POST', 'DELETE'):
                status, headers, body = call(apps[mode], path, 'x=1', method)
                assert status == 404, (mode, path, method, status)
                assert 'Location' not in headers

    # 4. handle_sentinel_condition, called directly
    from clastic.application import DispatchState
    app = apps[S_REDIRECT]
    sentinel = app._null_route.unbound_route.handle_sentinel_condition
    req = app.request_type(create_environ('/zzz'))

    state = DispatchState()
    res = sentinel(req, app, app._null_route, state)
    assert isinstance(res, NotFound) and res.code == 404

    state = DispatchState()
    state.update_methods(set(['GET', 'HEAD']))
    res = sentinel(req, app, app._null_route, state)
    assert isinstance(res, MethodNotAllowed) and res.code == 405
    assert set(res.allowed_methods) == set(['GET', 'HEAD'])

    first_exc, last_exc = NotFound(), NotFound()
    state.add_exception(first_exc)
    state.add_exception(last_exc)
    assert sentinel(req, app, app._null_route, state) is last_exc

    class NoHandlerApp(object):
        pass
    try:
        sentinel(req, NoHandlerApp(), app._null_route, state)
    except AttributeError:
        pass
    else:
        raise AssertionError('error_handler is looked up first')
    finish()


if __name__ == '__main__':
    main()
