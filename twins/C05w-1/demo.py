# -*- coding: utf-8 -*-
"""demo1 -- C05: URL patterns match exactly the paths their mini-language describes.

Standalone: compares BoundRoute.match_path against an independent,
segment-level backtracking matcher written here, over an enumerated set
of patterns x paths x slash modes, and checks the InvalidPattern
rejections (including their exact messages, which refactoring 1 rewrote
as f-strings).  Prints PASS and exits 0 on success.
"""
import itertools
import random
import re
import sys

from clastic import Application, Route
from clastic.route import (InvalidPattern, S_REDIRECT, S_REWRITE, S_STRICT,
                           BoundRoute, _compile_path_pattern)

MODES = (S_STRICT, S_REWRITE, S_REDIRECT)


def NO_OP(**kw):
    return None


# ---------------------------------------------------------------- reference

# lexical forms accepted per type (the documented mini-language), and the
# Python conversion applied afterwards
LEX = {'str': re.compile(r'[^/]+\Z'),
       'int': re.compile(r'[+-]? *[0-9]+\Z'),
       'float': re.compile(r'[+-]? *(\d+(\.\d*)?|\.\d+)([eE][+-]?\d+)?\Z')}
CONV = {'str': str, 'int': int, 'float': float}
COUNTS = {'': (1, 1), ':': (1, 1), '?': (0, 1), '*': (0, None), '+': (1, None)}


def tokenize(path, strict):
    """path -> (list of (n_slashes, segment), n_trailing_slashes) or None."""
    toks = []
    pos = 0
    n = len(path)
    while pos < n:
        start = pos
        while pos < n and path[pos] == '/':
            pos += 1
        n_sl = pos - start
        if pos == n:
            return toks, n_sl
        if n_sl == 0:
            return None  # segment not preceded by a slash
        seg_start = pos
        while pos < n and path[pos] != '/':
            pos += 1
        toks.append((n_sl, path[seg_start:pos]))
    return toks, 0


def ref_match(elements, trailing, mode, path):
    """elements: list of ('lit', text) | ('bind', name, op, type)."""
    strict = mode == S_STRICT
    tk = tokenize(path, strict)
    if tk is None:
        return None
    toks, n_trail = tk
    if strict:
        if any(n_sl != 1 for n_sl, _ in toks):
            return None
        if n_trail != (1 if trailing else 0):
            return None

    def rec(ei, ti):
        if ei == len(elements):
            return {} if ti == len(toks) else None
        el = elements[ei]
        if el[0] == 'lit':
            if ti < len(toks) and toks[ti][1] == el[1]:
                return rec(ei + 1, ti + 1)
            return None
        _, name, op, tname = el
        lo, hi = COUNTS[op]
        avail = 0
        while (ti + avail < len(toks) and (hi is None or avail < hi)
               and LEX[tname].match(toks[ti + avail][1])):
            avail += 1
        for cnt in range(avail, lo - 1, -1):  # greedy first
            rest = rec(ei + 1, ti + cnt)
            if rest is not None:
                rest = dict(rest)
                rest[name] = toks[ti:ti + cnt]
                return rest
        return None

    assignment = rec(0, 0)
    if assignment is None:
        return None
    out = {}
    try:
        for el in elements:
            if el[0] != 'bind':
                continue
            _, name, op, tname = el
            taken = assignment[name]
            multi = op in ('*', '+')
            optional = op in ('?', '*')
            if multi:
                if not taken:
                    out[name] = []
                    continue
                raw = []
                for n_sl, seg in taken:
                    # every extra slash shows up as an empty item
                    raw.extend([''] * (n_sl - 1))
                    raw.append(seg)
                out[name] = [CONV[tname](r) for r in raw]
            else:
                if not taken:
                    assert optional
                    out[name] = None
                else:
                    out[name] = CONV[tname](taken[0][1])
    except ValueError:
        return None
    return out


def render(elements, trailing):
    parts = []
    for el in elements:
        if el[0] == 'lit':
            parts.append(el[1])
        else:
            _, name, op, tname = el
            parts.append('<%s%s%s>' % (name, op, tname))
    patt = '/' + '/'.join(parts)
    if trailing and parts:
        patt += '/'
    return patt


# ---------------------------------------------------------------- universe

LITS = ['a', 'b-1']
TYPES = ['str', 'int', 'float']
OPS = ['', ':', '?', '*', '+']


def element_choices(idx):
    name = 'v%d' % idx
    for lit in LITS:
        yield ('lit', lit)
    for t in TYPES:
        for op in OPS:
            if op == '':
                # '<v0int>' would parse as a name; use ':' for typed singles
                continue
            yield ('bind', name, op, t)
    yield ('bind', name, '', '')   # '<v0>' -> untyped single (str)


def all_patterns(n):
    pools = [list(element_choices(i)) for i in range(n)]
    return [list(p) for p in itertools.product(*pools)]


def norm(el):
    if el[0] == 'bind' and el[3] == '':
        return ('bind', el[1], el[2], 'str')
    return el


SEGS = ['a', 'b-1', '1', '-2', '+ 3', ' 4', '1.5', '.5', '1.', '1e3', '1e',
        'e', '\xe9', 'x y', '٣', '+', '.', '0']


def make_paths():
    rng = random.Random(505)
    paths = set(['', '/', '//', '///', 'a', 'a/', '1'])
    alphabet = ['/', 'a', '1', '.', '-', '+', ' ', 'e', '\xe9']
    for n in range(1, 4):
        for tup in itertools.product(alphabet, repeat=n):
            paths.add(''.join(tup))
    for n in range(1, 4):
        for tup in itertools.product(SEGS[:12], repeat=n):
            if n == 3 and rng.random() > 0.12:
                continue
            base = '/' + '/'.join(tup)
            paths.add(base)
            paths.add(base + '/')
            if rng.random() < 0.3:
                paths.add('/' + '//'.join(tup) + '//')
            if rng.random() < 0.2:
                paths.add('//' + '/'.join(tup))
    for _ in range(400):  # long random paths
        k = rng.randint(3, 9)
        segs = [rng.choice(SEGS) for _ in range(k)]
        sl = [rng.choice(['/', '/', '/', '//', '///']) for _ in range(k)]
        p = ''.join(s + g for s, g in zip(sl, segs)) + rng.choice(['', '/', '//'])
        paths.add(p)
    return sorted(paths)


def main():
    rng = random.Random(5)
    app = Application()
    pats = all_patterns(0) + all_patterns(1)
    two = all_patterns(2)
    rng.shuffle(two)
    pats += two[:110]
    three = all_patterns(3)
    rng.shuffle(three)
    pats += three[:50]
    four = all_patterns(4)
    rng.shuffle(four)
    pats += four[:25]
    # hand-picked backtracking cases
    pats += [
        [('bind', 'x', '*', 'int'), ('bind', 'y', '*', 'float')],
        [('bind', 'x', '+', 'str'), ('bind', 'y', '+', 'str')],
        [('bind', 'x', '*', 'str'), ('lit', 'a'), ('bind', 'y', '?', 'int')],
        [('lit', 'a'), ('bind', 'x', '?', 'int'), ('lit', 'a')],
        [('bind', 'x', '?', 'float'), ('bind', 'y', '+', 'int'), ('lit', 'b-1')],
    ]
    paths = make_paths()
    n_checked = n_matched = 0
    for els in pats:
        ref_els = [norm(e) for e in els]
        for trailing in (False, True):
            patt = render(els, trailing)
            if not trailing and not els:
                continue  # '/' is its own trailing slash
            modes = MODES if len(els) <= 1 else (S_STRICT, S_REWRITE)
            for mode in modes:
                br = Route(patt, NO_OP, slash_mode=mode).bind(
                    app, inherit_slashes=False)
                assert isinstance(br, BoundRoute)
                assert br.slash_mode == mode
                for path in paths:
                    got = br.match_path(path)
                    exp = ref_match(ref_els, trailing, mode, path)
                    if got != exp or _types(got) != _types(exp):
                        print('MISMATCH', patt, mode, repr(path), got, exp)
                        sys.exit(1)
                    n_checked += 1
                    n_matched += got is not None
    assert n_matched > 5000, n_matched

    check_specific(app)
    check_invalid()
    check_converter_objects(app)
    print('checked %d pattern/path pairs (%d matches)' % (n_checked, n_matched))
    print('PASS')


def _types(d):
    if d is None:
        return None
    return dict((k, (type(v), [type(i) for i in v] if isinstance(v, list)
                     else None)) for k, v in d.items())


def check_specific(app):
    def bound(patt, mode=S_REDIRECT):
        return Route(patt, NO_OP, slash_mode=mode).bind(app, inherit_slashes=False)

    rp = bound('/a/b/<t:int>/thing/<das+int>')
    assert rp.match_path('/a/b/1/thing/1/2/3/4') == {'t': 1, 'das': [1, 2, 3, 4]}
    assert rp.match_path('/a/b/1/thing/hi/') is None
    assert rp.match_path('/a/b/1/thing/') is None
    rp = bound('/a/b/<t:int>/thing/<das*int>')
    assert rp.match_path('/a/b/1/thing') == {'t': 1, 'das': []}
    assert rp.match_path('/a/b/+ 1/thing') is None      # lexically ok, int() fails
    assert rp.match_path('/a/b/ 1/thing') == {'t': 1, 'das': []}
    rp = bound('/<x?float>/<y?>')
    assert rp.match_path('') == {'x': None, 'y': None}
    assert rp.match_path('/1e3') == {'x': 1000.0, 'y': None}
    assert rp.match_path('/e3') == {'x': None, 'y': 'e3'}
    assert rp.match_path('/1/2/3') is None
    rp = bound('/<x*str>', S_REWRITE)
    assert rp.match_path('//a///b/') == {'x': ['', 'a', '', '', 'b']}
    rp = bound('/<x*int>', S_REWRITE)
    assert rp.match_path('/1/2') == {'x': [1, 2]}
    assert rp.match_path('//1/2') is None   # the empty item does not convert
    rp = bound('/<x:int>', S_REWRITE)
    assert rp.match_path('///7//') == {'x': 7}
    rp = bound('/<x:int>', S_STRICT)
    assert rp.match_path('/7') == {'x': 7}
    assert rp.match_path('/7/') is None and rp.match_path('//7') is None
    rp = bound('/<x:int>/', S_STRICT)
    assert rp.match_path('/7/') == {'x': 7} and rp.match_path('/7') is None
    rp = bound('/', S_STRICT)
    assert rp.match_path('/') == {} and rp.match_path('') is None
    rp = bound('/', S_REWRITE)
    assert rp.match_path('') == {} and rp.match_path('////') == {}
    assert rp.match_path('/a') is None
    # path_args / converters keep pattern order
    rp = bound('/<b>/<a:int>/<c*float>')
    assert list(rp.converters) == ['b', 'a', 'c'] == list(rp.path_args)


def check_invalid():
    bad = [
        ('a/b', "URL path patterns must start with a forward slash (got 'a/b')"),
        ('', "URL path patterns must start with a forward slash (got '')"),
        ('/a//b', "URL path patterns must not contain multiplecontiguous"
                  " slashes (got '/a//b')"),
        ('//', "URL path patterns must not contain multiplecontiguous"
               " slashes (got '//')"),
        ('/<a>/<a>', 'duplicate path binding a'),
        ('/<a:int>/x/<a*str>', 'duplicate path binding a'),
        ('/<a:nope>', 'unknown type specifier nope'),
        ('/<a?bytes>', 'unknown type specifier bytes'),
        ('/<a!int>', "unknown arity operator '!', expected one of "
                     "dict_keys(['', '?', ':', '+', '*'])"),
        ('/<a??>', "unknown arity operator '??', expected one of "
                   "dict_keys(['', '?', ':', '+', '*'])"),
        ('/<a:+int>', "unknown arity operator ':+', expected one of "
                      "dict_keys(['', '?', ':', '+', '*'])"),
        # the type is looked up before the operator
        ('/<a!nope>', 'unknown type specifier nope'),
        # the duplicate check comes before both
        ('/<a>/<a!nope>', 'duplicate path binding a'),
        # the slash checks come before everything else
        ('x/<a!nope>', "URL path patterns must start with a forward slash"
                       " (got 'x/<a!nope>')"),
        ('/<a!nope>//', "URL path patterns must not contain multiplecontiguous"
                        " slashes (got '/<a!nope>//')"),
        ("/it's//", 'URL path patterns must not contain multiplecontiguous'
                    ' slashes (got "/it\'s//")'),
    ]
    for patt, msg in bad:
        for mode in MODES:
            for maker in (lambda: Route(patt, NO_OP, slash_mode=mode),
                          lambda: _compile_path_pattern(patt, mode)):
                try:
                    maker()
                except InvalidPattern as e:
                    assert type(e) is InvalidPattern
                    assert isinstance(e, ValueError)
                    assert e.args == (msg,), (patt, e.args, msg)
                else:
                    raise AssertionError('accepted %r' % patt)
    # valid corner cases stay valid
    for patt in ['/', '/a', '/a/', '/<a>', '/<a:>', '/<a?>', '/<a*>', '/<a+>',
                 '/<a:int>/', '/<a_1:float>/<b2*unicode>/c', '/<_a?str>']:
        for mode in MODES:
            Route(patt, NO_OP, slash_mode=mode)
    # a non-string pattern fails the same way as before
    for bad_patt in (None, 5, b'/a'):
        try:
            Route(bad_patt, NO_OP)
        except (AttributeError, TypeError) as e:
            assert not isinstance(e, InvalidPattern)
        else:
            raise AssertionError('accepted %r' % (bad_patt,))


def check_converter_objects(app):
    import clastic.route as R
    # public/private names importable from clastic.route
    for attr in ('BINDING', '_FLOAT_PATTERN', '_INT_PATTERN', '_STR_PATTERN',
                 '_SEG_TMPL', '_OP_ARITY_MAP', '_OP_OPTIONALITY_MAP',
                 'TYPE_CONV_MAP', 'TYPE_PATT_MAP', 'DEFAULT_CONVS',
                 '_register_converter', 'build_converter',
                 '_compile_path_pattern', 'normalize_path'):
        assert hasattr(R, attr), attr
    assert R._FLOAT_PATTERN == r'[+-]?\ *(\d+(\.\d*)?|\.\d+)([eE][+-]?\d+)?'
    assert R._INT_PATTERN == r'[+-]?\ *[0-9]+'
    assert R._STR_PATTERN == r'[^/]+'
    assert R.TYPE_PATT_MAP == {'int': R._INT_PATTERN, 'float': R._FLOAT_PATTERN,
                               'str': R._STR_PATTERN, 'unicode': R._STR_PATTERN}
    assert R.TYPE_CONV_MAP == {'int': int, 'float': float, 'str': str,
                               'unicode': str}
    assert list(R.TYPE_CONV_MAP) == ['int', 'float', 'str', 'unicode']

    bc = R.build_converter
    calls = []

    def conv(v):
        calls.append(v)
        return v.upper()

    # positional order is (converter, optional, multi)
    single = bc(conv)
    assert single('/ab') == 'AB' and single('//a/b') == 'AB'
    assert single('') == ''                       # not optional: converts ''
    opt_single = bc(conv, True)
    assert opt_single('') is None and opt_single('/x') == 'X'
    multi = bc(conv, False, True)
    assert multi('/a/b') == ['A', 'B'] and multi('') == []
    assert multi('/a//b') == ['A', '', 'B']
    opt_multi = bc(conv, multi=True, optional=True)
    res1, res2 = opt_multi(''), opt_multi('')
    assert res1 == [] and res2 == [] and res1 is not res2   # fresh list each time
    assert calls == ['ab', 'ab', '', 'x', 'a', 'b', 'a', '', 'b'], calls
    # optional flag is evaluated by truthiness
    assert bc(conv, 1)('') is None and bc(conv, 0)('') == ''
    # conversion errors propagate out of the converter ...
    for exc in (ValueError, TypeError, KeyError, ZeroDivisionError):
        def boom(v, exc=exc):
            raise exc(v)
        for c in (bc(boom), bc(boom, multi=True)):
            try:
                c('/q')
            except exc:
                pass
            else:
                raise AssertionError('swallowed')
    # ... and match_path turns Value/Type/KeyError into "no match" only
    regex, convs = _compile_path_pattern('/<a:int>/<b*float>', S_STRICT)
    assert regex.pattern == ('^(?P<a>(/%s))(?P<b>(/%s)*)$'
                             % (R._INT_PATTERN, R._FLOAT_PATTERN))
    regex, convs = _compile_path_pattern('/x/<a?>/y/', S_REWRITE)
    assert regex.pattern == '^/+x(?P<a>(/+[^/]+)?)/+y/*$'
    regex, convs = _compile_path_pattern('/x/<a?>/y/', S_STRICT)
    assert regex.pattern == '^/x(?P<a>(/[^/]+)?)/y/$'
    regex, convs = _compile_path_pattern('/<a+int>/<b:>', S_REDIRECT)
    assert regex.pattern == ('^(?P<a>(/+%s)+)(?P<b>(/+[^/]+))/*$' % R._INT_PATTERN)
    assert list(convs) == ['a', 'b']
    r1 = _compile_path_pattern('/<a>', S_STRICT)
    r2 = _compile_path_pattern('/<a>', S_STRICT)
    assert r1[1] is not r2[1] and r1[1]['a'] is not r2[1]['a']
    # default mode is rewrite
    assert _compile_path_pattern('/a/')[0].pattern == '^/+a/*$'

    br = Route('/<a:int>', NO_OP).bind(app)
    for exc, swallowed in ((ValueError, True), (TypeError, True),
                           (KeyError, True), (ZeroDivisionError, False)):
        def boom(v, exc=exc):
            raise exc(v)
        br.converters = {'a': boom}
        try:
            got = br.match_path('/1')
        except ZeroDivisionError:
            assert not swallowed
        else:
            assert swallowed and got is None


if __name__ == '__main__':
    main()
