# -*- coding: utf-8 -*-
"""demo1: URL patterns match exactly the paths their mini-language describes.

Compares BoundRoute.match_path against an independent, segment-based matcher
(no regular expressions) for many pattern x slash-mode x path combinations.
Focus of this demo: how the compiled pattern is *terminated* -- strict vs.
redirect/rewrite, patterns with and without trailing slash, the root pattern,
repeated/trailing slashes in the path, the empty path.

Prints PASS and exits 0 when every assertion holds.
"""
from __future__ import print_function

import itertools
import random
import sys

from clastic import Application, Response
from clastic.route import (Route, InvalidPattern, _compile_path_pattern,
                           S_STRICT, S_REWRITE, S_REDIRECT)

MODES = (S_STRICT, S_REWRITE, S_REDIRECT)
NO_OP = lambda: Response()
APPS = dict((m, Application(slash_mode=m)) for m in MODES)
DIGITS = '0123456789'


# ---------------------------------------------------------------- reference

def _lex_digits(s, i):
    j = i
    while j < len(s) and s[j] in DIGITS:
        j += 1
    return j


def _lex_prefix(s):
    i = 0
    if i < len(s) and s[i] in '+-':
        i += 1
    while i < len(s) and s[i] == ' ':
        i += 1
    return i


def lex_int(s):
    i = _lex_prefix(s)
    j = _lex_digits(s, i)
    return j > i and j == len(s)


def lex_float(s):
    i = _lex_prefix(s)
    j = _lex_digits(s, i)
    if j > i:                      # digits [ '.' digits* ]
        i = j
        if i < len(s) and s[i] == '.':
            i = _lex_digits(s, i + 1)
    else:                          # '.' digits+
        if not (i < len(s) and s[i] == '.'):
            return False
        j = _lex_digits(s, i + 1)
        if j == i + 1:
            return False
        i = j
    if i == len(s):
        return True
    if s[i] not in 'eE':
        return False
    i += 1
    if i < len(s) and s[i] in '+-':
        i += 1
    j = _lex_digits(s, i)
    return j > i and j == len(s)


def lex_str(s):
    return len(s) > 0


LEX = {'int': lex_int, 'float': lex_float, 'str': lex_str, None: lex_str}
CONV = {'int': int, 'float': float, 'str': str, None: str}
COUNTS = {'': (1, 1), ':': (1, 1), '?': (0, 1), '*': (0, None), '+': (1, None)}


def lit(text):
    return ('lit', text)


def bind(name, op='', type_name=None):
    return ('bind', name, op, type_name)


def render(elements, trailing):
    out = ''
    for el in elements:
        if el[0] == 'lit':
            out += '/' + el[1]
        else:
            out += '/<%s%s%s>' % (el[1], el[2], el[3] or '')
    if trailing or not elements:
        out += '/'
    return out


def assign(elements, segs):
    """First assignment in greedy order (earlier bindings take as much as
    possible), every bound segment lexically valid for its type."""
    if not elements:
        return {} if not segs else None
    el, rest = elements[0], elements[1:]
    if el[0] == 'lit':
        if segs and segs[0][1] == el[1]:
            return assign(rest, segs[1:])
        return None
    _, name, op, type_name = el
    lo, hi = COUNTS[op]
    valid = LEX[type_name]
    most = 0
    while most < len(segs) and (hi is None or most < hi) and valid(segs[most][1]):
        most += 1
    for take in range(most, lo - 1, -1):
        tail = assign(rest, segs[take:])
        if tail is not None:
            tail = dict(tail)
            tail[name] = (op, type_name, segs[:take])
            return tail
    return None


def ref_match(elements, trailing, mode, path):
    if path and not path.startswith('/'):
        return None
    if mode == S_STRICT:
        segs = [(1, s) for s in path.split('/')[1:]]
        elements = list(elements)
        if trailing or not elements:
            elements.append(lit(''))
    else:
        # (number of slashes in front of the segment, segment)
        segs, run = [], 0
        for piece in path.split('/')[1:]:
            run += 1
            if piece:
                segs.append((run, piece))
                run = 0
    found = assign(list(elements), segs)
    if found is None:
        return None
    ret = {}
    try:
        for name, (op, type_name, taken) in found.items():
            conv = CONV[type_name]
            if op in '*+' and op:
                # quirk of the implementation: a multi-segment capture is
                # split on every single '/', so 'a//b' yields ['a', '', 'b']
                # (and '' is not a valid int/float -> no match)
                raw = []
                for nslashes, text in taken:
                    raw.extend([''] * (nslashes - 1) + [text])
                ret[name] = [conv(s) for s in raw]
            elif not taken:
                ret[name] = None
            else:
                ret[name] = conv(taken[0][1])
    except ValueError:
        return None   # e.g. '+ 1' is lexically fine but int() refuses it
    return ret


def same(a, b):
    """Equality that also distinguishes 1 from 1.0 from '1'."""
    if a is None or b is None:
        return a is b
    if sorted(a) != sorted(b):
        return False
    for k in a:
        x, y = a[k], b[k]
        if type(x) is not type(y):
            return False
        if isinstance(x, list):
            if [type(i) for i in x] != [type(i) for i in y] or x != y:
                return False
        elif x != y:
            return False
    return True


# ------------------------------------------------------------------ inputs

def all_binding_shapes(name):
    yield bind(name)
    for op in ':?*+':
        for type_name in (None, 'int', 'float', 'str'):
            yield bind(name, op, type_name)


def gen_patterns():
    lits = [lit('a'), lit('1'), lit('x-y_Z')]
    singles = lits + list(all_binding_shapes('p'))
    pats = [[]]
    pats += [[e] for e in singles]
    for e1 in lits[:2] + list(all_binding_shapes('p')):
        for e2 in lits[:2] + list(all_binding_shapes('q')):
            pats.append([e1, e2])
    rng = random.Random(505)
    pools = [lits + list(all_binding_shapes(n)) for n in 'pqrs']
    for _ in range(140):
        n = rng.choice((3, 3, 4))
        pats.append([rng.choice(pools[i]) for i in range(n)])
    return pats


SEG_POOL = ['a', '1', 'x-y_Z', '-1', '+1', '+ 1', ' 2', '2 ', '007', '1.5',
            '.5', '1.', '.', '1e1', '1.e+2', '1e', 'e', '-', '+', ' ',
            u'\xe9', 'a.b', '1-2', '-.5E-3', '1e1.0']
ALPHABET = ['/', 'a', '1', '.', '-', '+', ' ', 'e', u'\xe9']


def gen_paths():
    paths = set([''])
    for n in range(1, 4):
        for tup in itertools.product(ALPHABET, repeat=n):
            paths.add(''.join(tup))
    rng = random.Random(5050)
    for n in range(0, 3):
        for tup in itertools.product(SEG_POOL[:14], repeat=n):
            base = ''.join('/' + s for s in tup)
            paths.add(base)
            paths.add(base + '/')
    for _ in range(700):
        n = rng.randint(0, 7)
        p = ''
        for _i in range(n):
            p += rng.choice(('/', '/', '/', '//', '///')) + rng.choice(SEG_POOL)
        p += rng.choice(('', '', '/', '//'))
        if rng.random() < 0.05:
            p = p.lstrip('/')
        paths.add(p)
    return sorted(paths)


# ------------------------------------------------------------------ checks

def live_route(pattern, mode):
    return Route(pattern, NO_OP, slash_mode=mode).bind(APPS[mode])


def check_differential():
    patterns = gen_patterns()
    paths = gen_paths()
    rng = random.Random(55)
    n_pairs = n_hits = 0
    for idx, elements in enumerate(patterns):
        # small patterns see every path; big ones a random half
        use = paths if len(elements) <= 1 else rng.sample(paths, 260)
        for trailing in (False, True):
            text = render(elements, trailing)
            for mode in MODES:
                route = live_route(text, mode)
                for path in use:
                    got = route.match_path(path)
                    want = ref_match(elements, trailing, mode, path)
                    assert same(got, want), (text, mode, path, got, want)
                    n_pairs += 1
                    n_hits += got is not None
    assert n_hits > 5000, n_hits
    return n_pairs, n_hits


def check_termination_by_hand():
    """Hand-written expectations about slashes at the end of pattern/path."""
    table = [
        # pattern, mode, path, expected
        ('/', S_STRICT, '/', {}),
        ('/', S_STRICT, '', None),
        ('/', S_STRICT, '//', None),
        ('/', S_REWRITE, '', {}),
        ('/', S_REWRITE, '/', {}),
        ('/', S_REDIRECT, '///', {}),
        ('/', S_REDIRECT, '/a', None),
        ('/a', S_STRICT, '/a', {}),
        ('/a', S_STRICT, '/a/', None),
        ('/a/', S_STRICT, '/a/', {}),
        ('/a/', S_STRICT, '/a', None),
        ('/a/', S_STRICT, '/a//', None),
        ('/a', S_REWRITE, '/a/', {}),
        ('/a', S_REWRITE, '//a//', {}),
        ('/a/', S_REDIRECT, '/a', {}),
        ('/a/', S_REDIRECT, '/a///', {}),
        ('/a/', S_REDIRECT, 'a/', None),
        ('/a/b', S_STRICT, '/a//b', None),
        ('/a/b', S_REWRITE, '/a//b', {}),
        ('/a/b/', S_REWRITE, '/a/b', {}),
        ('/a/<x>', S_STRICT, '/a/v', {'x': 'v'}),
        ('/a/<x>', S_STRICT, '/a/v/', None),
        ('/a/<x>/', S_STRICT, '/a/v/', {'x': 'v'}),
        ('/a/<x>/', S_STRICT, '/a/v', None),
        ('/a/<x>/', S_REWRITE, '/a/v', {'x': 'v'}),
        ('/a/<x>', S_REDIRECT, '/a//v//', {'x': 'v'}),
        ('/<x?>', S_STRICT, '', {'x': None}),
        ('/<x?>', S_STRICT, '/', None),
        ('/<x?>/', S_STRICT, '/', {'x': None}),
        ('/<x?>/', S_REWRITE, '/', {'x': None}),
        ('/<x*int>', S_REWRITE, '', {'x': []}),
        ('/<x*int>', S_REWRITE, '/1/2//', {'x': [1, 2]}),
        ('/<x*int>', S_REWRITE, '//1/2', None),   # '' is no int
        ('/<x*>', S_REWRITE, '/a//b', {'x': ['a', '', 'b']}),
        ('/<x*int>', S_STRICT, '/1//2', None),
        ('/<x*int>/', S_STRICT, '/1/2/', {'x': [1, 2]}),
        ('/<x+float>/end', S_REDIRECT, '/1/.5/1e2/end/', {'x': [1.0, 0.5, 100.0]}),
        ('/<x+float>/end', S_REDIRECT, '/end', None),
        ('/<x:int>', S_REWRITE, '/+ 1', None),
        ('/<x:int>', S_REWRITE, '/ 7', {'x': 7}),
        ('/<x:int>', S_REWRITE, '/1.0', None),
        ('/<x+>/<y+>', S_REWRITE, '/a/b/c', {'x': ['a', 'b'], 'y': ['c']}),
        ('/<x*>/<y?>', S_REWRITE, '/a/b', {'x': ['a', 'b'], 'y': None}),
        ('/<x?int>/<y*>', S_REWRITE, '/a/b', {'x': None, 'y': ['a', 'b']}),
    ]
    for pattern, mode, path, want in table:
        got = live_route(pattern, mode).match_path(path)
        assert same(got, want), (pattern, mode, path, got, want)
    return len(table)


def check_compiled_regex_text():
    """The compiled expression itself, for a few representative patterns."""
    seg = '(/+[^/]+)'
    table = [
        ('/', S_STRICT, '^/$'),
        ('/', S_REWRITE, '^/*$'),
        ('/', S_REDIRECT, '^/*$'),
        ('/a', S_STRICT, '^/a$'),
        ('/a/', S_STRICT, '^/a/$'),
        ('/a', S_REWRITE, '^/+a/*$'),
        ('/a/', S_REWRITE, '^/+a/*$'),
        ('/a/b/', S_REDIRECT, '^/+a/+b/*$'),
        ('/<x>', S_REWRITE, '^(?P<x>%s)/*$' % seg),
        ('/<x>/', S_REWRITE, '^(?P<x>%s)/*$' % seg),
        ('/<x*>/', S_STRICT, '^(?P<x>(/[^/]+)*)/$'),
        ('/a/<x?>/b', S_STRICT, '^/a(?P<x>(/[^/]+)?)/b$'),
        ('/a/<x+int>', 'anything-else', r'^/+a(?P<x>(/+[+-]?\ *[0-9]+)+)/*$'),
    ]
    for pattern, mode, want in table:
        regex, convs = _compile_path_pattern(pattern, mode)
        assert regex.pattern == want, (pattern, mode, regex.pattern, want)
        assert regex.flags == __import__('re').compile('x').flags, regex.flags
    regex, convs = _compile_path_pattern('/a/<x>')     # default mode: rewrite
    assert regex.pattern == '^/+a(?P<x>%s)/*$' % seg
    assert list(convs) == ['x']
    return len(table)


def check_rejections():
    bad = ['', 'a', 'a/b', '<x>', '//', '//a', '/a//b', '/a//', '/<x>/<x>',
           '/<x>/a/<x*>', '/<x:bool>', '/<x:Int>', '/<x!>', '/<x|int>',
           '/<x??>', '/<x+*>', '/<x: int>', '/<x::int>']
    for pattern in bad:
        for mode in MODES:
            try:
                Route(pattern, NO_OP, slash_mode=mode)
            except InvalidPattern:
                pass
            else:
                raise AssertionError('accepted %r' % pattern)
    # InvalidPattern wins over the duplicate/type/op checks in this order
    for pattern, needle in [('x//<a!>', 'forward'), ('/<a!>//', 'contiguous'),
                            ('/<a>/<a!bool>', 'duplicate'),
                            ('/<a!bool>', 'unknown type'),
                            ('/<a!int>', 'unknown arity')]:
        try:
            _compile_path_pattern(pattern, S_STRICT)
        except InvalidPattern as e:
            assert needle in str(e), (pattern, str(e))
        else:
            raise AssertionError('accepted %r' % pattern)
    ok = ['/', '/a', '/a/', '/<x>', '/<x:>', '/<x?>/<y*int>/<z+float>/',
          '/a-b_c/<x:unicode>', '/<_x1:str>']
    for pattern in ok:
        for mode in MODES:
            Route(pattern, NO_OP, slash_mode=mode)
    return len(bad) + len(ok)


def check_fresh_results():
    """Absent '*' bindings give a new list each time; results are new dicts."""
    route = live_route('/<x*>/<y?>', S_REWRITE)
    first, second = route.match_path('/'), route.match_path('/')
    assert first == second == {'x': [], 'y': None}
    assert first is not second and first['x'] is not second['x']
    first['x'].append('polluted')
    assert route.match_path('')['x'] == []


def main():
    n_table = check_termination_by_hand()
    n_regex = check_compiled_regex_text()
    n_rej = check_rejections()
    check_fresh_results()
    n_pairs, n_hits = check_differential()
    print('hand table %d, regex texts %d, constructions %d, '
          'differential pairs %d (%d matches)'
          % (n_table, n_regex, n_rej, n_pairs, n_hits))
    print('PASS')
    return 0


if __name__ == '__main__':
    sys.exit(main())
