# -*- coding: utf-8 -*-
"""demo2: fault handling and conditional requests of static serving.

OS errors (ENOENT, EACCES, EIO, EISDIR) and a ValueError are injected at each
filesystem call made while serving (isfile / open / getmtime / getsize / read
of the sniffing peek), one call at a time, for plain and conditional requests:
the answer must be a non-breaking 403/404 (so that an overlapping static
application further down still serves the file), never a 500, and a fault-free
request afterwards must serve the exact bytes again.  build_file_response is
also driven directly to pin down which exception type each failure maps to.
Prints PASS and exits 0 on success.
"""
import errno
import os
import shutil
import sys
import tempfile
from datetime import datetime, timedelta

sys.path.insert(0, os.path.dirname(os.path.abspath(__file__)))

import clastic.static as cs
from clastic import Application, StaticApplication, StaticFileRoute
from clastic.errors import Forbidden, NotFound
from clastic.static import build_file_response

FIXED_MTIME = 1500000000
LAST_MODIFIED = 'Fri, 14 Jul 2017 02:40:00 GMT'
MTIME_DT = datetime(2017, 7, 14, 2, 40, 0)


def write(path, data):
    os.makedirs(os.path.dirname(path), exist_ok=True)
    with open(path, 'wb') as f:
        f.write(data)
    os.utime(path, (FIXED_MTIME, FIXED_MTIME))


class Faults(object):
    """Counts the filesystem calls static.py makes and fails the n-th one."""
    def __init__(self):
        self.calls = []
        self.fail_at = None
        self.exc = None
        self.real = {}

    def _tick(self, name):
        self.calls.append(name)
        if self.fail_at is not None and len(self.calls) - 1 == self.fail_at:
            raise self.exc

    def install(self):
        faults = self
        self.real = {'isfile': cs.isfile, 'getmtime': os.path.getmtime,
                     'getsize': os.path.getsize}
        real_isfile, real_getmtime, real_getsize = (cs.isfile, os.path.getmtime,
                                                    os.path.getsize)

        def isfile(p):
            # os.path.isfile swallows the OSError / ValueError of its stat()
            # and answers False: a fault here shows up the same way
            try:
                faults._tick('isfile')
            except (OSError, ValueError):
                return False
            return real_isfile(p)

        def getmtime(p):
            faults._tick('getmtime')
            return real_getmtime(p)

        def getsize(p):
            faults._tick('getsize')
            return real_getsize(p)

        class FaultyFile(object):
            def __init__(self, f):
                self._f = f
                self.closed_by_server = False

            def read(self, *a):
                if a and a[0] == 1024:  # the sniffing peek, not the body iteration
                    faults._tick('peek-read')
                return self._f.read(*a)

            def close(self):
                self.closed_by_server = True
                return self._f.close()

            def __getattr__(self, name):
                return getattr(self._f, name)

        def fake_open(p, *a, **kw):
            faults._tick('open')
            f = FaultyFile(open(p, *a, **kw))
            faults.last_file = f
            return f

        cs.isfile = isfile
        os.path.getmtime = getmtime
        os.path.getsize = getsize
        cs.open = fake_open  # module global shadows the builtin

    def uninstall(self):
        cs.isfile = self.real['isfile']
        os.path.getmtime = self.real['getmtime']
        os.path.getsize = self.real['getsize']
        del cs.open

    def arm(self, n, exc):
        self.calls = []
        self.fail_at = n
        self.exc = exc
        self.last_file = None

    def disarm(self):
        self.arm(None, None)


def make_excs():
    return [OSError(errno.ENOENT, 'gone'), OSError(errno.EACCES, 'denied'),
            OSError(errno.EIO, 'io'), OSError(errno.EISDIR, 'isdir'),
            IOError('plain IOError'), PermissionError(errno.EPERM, 'perm'),
            FileNotFoundError(errno.ENOENT, 'fnf'), ValueError('embedded null byte')]


def check_direct(root):
    """build_file_response called directly: exception types and cleanup."""
    path = os.path.join(root, 'noext')  # needs the sniffing peek
    faults = Faults()
    faults.install()
    try:
        # fault-free trace of calls, plain and conditional
        faults.disarm()
        resp = build_file_response(path)
        assert faults.calls == ['isfile', 'open', 'getmtime', 'getsize', 'peek-read'], faults.calls
        assert resp.status_code == 200 and resp.content_length == 10
        assert resp.last_modified.replace(tzinfo=None) == MTIME_DT
        assert resp.mimetype == 'text/plain'
        assert b''.join(resp.response) == b'plain text'
        faults.disarm()
        resp = build_file_response(path, cache_timeout=60, cached_modify_time=MTIME_DT)
        assert faults.calls == ['getmtime'], faults.calls
        assert resp.status_code == 304 and resp.cache_control.max_age == 60
        assert resp.cache_control.public
        faults.disarm()
        older = MTIME_DT - timedelta(seconds=1)
        resp = build_file_response(path, cache_timeout=60, cached_modify_time=older)
        assert faults.calls == ['getmtime', 'isfile', 'open', 'getmtime', 'getsize',
                                'peek-read'], faults.calls
        assert resp.status_code == 200 and resp.cache_control.public
        # cache_timeout falsy => the conditional branch is skipped entirely
        for ct in (None, 0):
            faults.disarm()
            resp = build_file_response(path, cache_timeout=ct, cached_modify_time=MTIME_DT)
            assert faults.calls[0] == 'isfile' and resp.status_code == 200

        # which failure maps to which exception
        for kwargs, n_calls in (({}, 5),
                                ({'cache_timeout': 60, 'cached_modify_time': older}, 6)):
            for n in range(n_calls):
                for exc in make_excs():
                    faults.arm(n, exc)
                    name = None
                    try:
                        build_file_response(path, **kwargs)
                    except Forbidden as e:
                        name = faults.calls[-1]
                        assert e.is_breaking is False
                        assert e.code == 403
                        assert e.__context__ is exc
                        if name == 'peek-read':
                            assert not isinstance(exc, ValueError)
                            assert faults.last_file.closed_by_server
                    except NotFound as e:
                        # a failing stat inside isfile() reads as "no such file"
                        assert faults.calls[-1] == 'isfile', faults.calls
                        assert e.is_breaking is False and e.code == 404
                    except ValueError as e:
                        # the peek lets a ValueError (only) through -- as before
                        assert e is exc and faults.calls[-1] == 'peek-read'
                    else:
                        raise AssertionError('fault %d %r went unnoticed' % (n, exc))
        # missing file / directory: non-breaking NotFound
        faults.disarm()
        for missing in (os.path.join(root, 'nope'), root):
            try:
                build_file_response(missing)
            except NotFound as e:
                assert e.is_breaking is False and e.code == 404
            else:
                raise AssertionError('expected NotFound')
        # conditional request for a missing file: getmtime fails => Forbidden
        try:
            build_file_response(os.path.join(root, 'nope'), cache_timeout=1,
                                cached_modify_time=MTIME_DT)
        except Forbidden as e:
            assert e.is_breaking is False
            assert isinstance(e.__context__, FileNotFoundError)
        else:
            raise AssertionError('expected Forbidden')
    finally:
        faults.uninstall()


def check_http(root, root2):
    front = StaticApplication([root])
    back = StaticApplication([root2])
    single = Application([('/s/', front)])
    overlap = Application([('/s/', front), ('/s/', back)])
    route_app = Application([StaticFileRoute('/one', os.path.join(root, 'noext'))])
    body = {'a.txt': b'alpha\n', 'noext': b'plain text', 'blob': b'\x00\x01' * 700}

    faults = Faults()
    faults.install()
    try:
        for name in sorted(body):
            for headers in ({}, {'If-Modified-Since': 'Thu, 13 Jul 2017 02:40:00 GMT'},
                            {'If-Modified-Since': LAST_MODIFIED}):
                # how many calls does the fault-free request make?
                faults.disarm()
                resp = single.get_local_client().get('/s/' + name, headers=headers)
                n_calls = len(faults.calls)
                if headers.get('If-Modified-Since') == LAST_MODIFIED:
                    assert resp.status_code == 304 and resp.data == b''
                    assert faults.calls == ['isfile', 'getmtime'], faults.calls
                else:
                    assert resp.status_code == 200 and resp.data == body[name]
                assert n_calls >= 2
                for n in range(n_calls):
                    for exc in make_excs():
                        # a ValueError in the peek is not handled by clastic
                        # (neither before nor after): not part of the property
                        faults.disarm()
                        faults.arm(n, exc)
                        resp = single.get_local_client().get('/s/' + name, headers=headers)
                        where = faults.calls[-1]
                        if where == 'peek-read' and isinstance(exc, ValueError):
                            assert resp.status_code == 500
                            continue
                        assert resp.status_code in (403, 404), (name, n, exc, resp.status_code)
                        assert body[name] not in resp.data or not body[name]
                        if where == 'isfile':
                            assert resp.status_code == 404  # reads as "no such file"
                        # overlapping applications: the second one still answers,
                        # its own calls come after the failed ones => fault-free
                        faults.arm(n, exc)
                        resp = overlap.get_local_client().get('/s/' + name, headers=headers)
                        if headers.get('If-Modified-Since') == LAST_MODIFIED:
                            assert resp.status_code == 304 and resp.data == b''
                        else:
                            assert resp.status_code == 200, (name, n, exc, resp.status_code)
                            assert resp.data == body[name]
                            assert resp.headers['Content-Length'] == str(len(body[name]))
                            assert resp.headers['Last-Modified'] == LAST_MODIFIED
                # and everything is back to normal without faults
                faults.disarm()
                resp = single.get_local_client().get('/s/' + name)
                assert resp.status_code == 200 and resp.data == body[name]

        # StaticFileRoute goes through the same guards
        faults.disarm()
        resp = route_app.get_local_client().get('/one')
        assert resp.status_code == 200 and resp.data == b'plain text'
        n_calls = len(faults.calls)
        assert faults.calls == ['isfile', 'open', 'getmtime', 'getsize', 'peek-read']
        for n in range(n_calls):
            for exc in make_excs()[:4]:
                faults.arm(n, exc)
                resp = route_app.get_local_client().get('/one')
                if faults.calls[-1] == 'isfile':
                    assert resp.status_code == 404
                else:
                    assert resp.status_code == 403, (n, exc, resp.status_code)
    finally:
        faults.uninstall()

    # a file that really vanishes / becomes unreadable between requests
    client = single.get_local_client()
    victim = os.path.join(root, 'victim.txt')
    write(victim, b'now you see me')
    assert client.get('/s/victim.txt').data == b'now you see me'
    os.remove(victim)
    assert client.get('/s/victim.txt').status_code == 404
    assert client.get('/s/victim.txt',
                      headers={'If-Modified-Since': LAST_MODIFIED}).status_code == 404
    # vanishing between lookup and open: lookup says yes, then the file is gone
    real_isfile = cs.isfile
    seen = []

    def isfile_then_remove(p):
        ret = real_isfile(p)
        if ret and not seen:
            seen.append(p)
            os.remove(p)
        return ret
    write(victim, b'now you see me')
    cs.isfile = isfile_then_remove
    try:
        resp = client.get('/s/victim.txt')
        assert resp.status_code == 404 and seen == [victim]
        write(victim, b'now you see me')
        del seen[:]
        resp = client.get('/s/victim.txt', headers={'If-Modified-Since': LAST_MODIFIED})
        assert resp.status_code == 403 and seen == [victim]  # getmtime fails first
    finally:
        cs.isfile = real_isfile
    if os.geteuid() != 0:
        write(victim, b'now you see me')
        os.chmod(victim, 0)
        assert client.get('/s/victim.txt').status_code == 403
        os.chmod(victim, 0o644)


def main():
    top = tempfile.mkdtemp(prefix='c14demo2_')
    try:
        root = os.path.join(top, 'root')
        root2 = os.path.join(top, 'root2')
        for r in (root, root2):
            write(os.path.join(r, 'a.txt'), b'alpha\n')
            write(os.path.join(r, 'noext'), b'plain text')
            write(os.path.join(r, 'blob'), b'\x00\x01' * 700)
        check_direct(root)
        check_http(root, root2)
    finally:
        shutil.rmtree(top, ignore_errors=True)
    print('PASS')


if __name__ == '__main__':
    main()
