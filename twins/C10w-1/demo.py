# -*- coding: utf-8 -*-
"""demo1: embedding == flat declaration, with the focus on error rendering.

The error renderer of the serving (outermost) application is re-bound onto
every embedded route; ``check_render_error`` validates its signature against
the request builtins, the merged resources of the binding and ``_error``.
"""
import itertools

from clastic import Application, SubApplication, Route, GET, POST
from clastic.errors import ErrorHandler, NotFound, Forbidden, BadRequest
from clastic.middleware import Middleware
from clastic.route import check_render_error, _REQUEST_BUILTINS
from werkzeug.wrappers import Response


# ------------------------------------------------------------------ helpers

def text_render(context):
    return Response(repr(context), mimetype='text/plain')


def ep_res(res_a, res_b='dflt-b'):
    return {'a': res_a, 'b': res_b}


def ep_forbidden(res_a):
    raise Forbidden('no: %s' % res_a)


def ep_returns_404(res_a):
    return NotFound(detail='gone-%s' % res_a, is_breaking=False)


def ep_boom():
    raise ValueError('boom')


def ep_item(item_id, res_a):
    return {'item': item_id, 'a': res_a}


class TraceMW(Middleware):
    def __init__(self, tag):
        self.tag = tag

    def request(self, next, request):
        resp = next()
        resp.headers.add('X-Trace', self.tag)
        return resp


class MWOne(TraceMW):
    pass


class MWTwo(TraceMW):
    pass


class TagErrorHandler(ErrorHandler):
    """Error handler whose render_error asks for a resource and builtins."""
    def __init__(self, tag, **kw):
        super(TagErrorHandler, self).__init__(**kw)
        self.tag = tag

    def render_error(self, request, _error, _route, _application, res_a):
        body = 'ERR[%s] %s res_a=%s app_is_serving=%s pattern=%s' % (
            self.tag, _error.code, res_a,
            _application is _route.bound_apps[-1], _route.pattern)
        return Response(body, status=_error.code, mimetype='text/plain')


def inner_routes():
    return [GET('/res', ep_res, text_render),
            Route('/forbidden/', ep_forbidden, text_render),
            GET('/soft404', ep_returns_404, text_render),
            GET('/boom', ep_boom, text_render),
            POST('/item/<item_id:int>', ep_item, text_render)]


def flat_routes(prefix, resources, middlewares):
    # Route / GET / POST re-declared with the prefixed pattern; what the
    # inner levels contributed is declared per route
    return [type(r)(prefix + r.pattern, r.endpoint, r.render,
                    resources=resources, middlewares=middlewares)
            for r in inner_routes()]


REQUESTS = [('GET', '/res'), ('GET', '/res/'), ('POST', '/res'),
            ('GET', '/forbidden/'), ('GET', '/forbidden'),
            ('GET', '/soft404'), ('GET', '/boom'),
            ('POST', '/item/3'), ('GET', '/item/3'), ('POST', '/item/x'),
            ('GET', '/nothing'), ('GET', '/')]


def snapshot(app, paths):
    cl = app.get_local_client()
    out = []
    for method, path in paths:
        resp = cl.open(path, method=method)
        out.append((method, path, resp.status_code,
                    resp.get_data(True) if resp.status_code != 500 else '500',
                    resp.headers.get('Location'),
                    tuple(resp.headers.getlist('X-Trace')),
                    resp.headers.get('Allow')))
    return out


# ------------------------------------------------------------------- checks

def check_embedding(prefix, depth, outer_res, inner_res, mid_res):
    eh_outer = TagErrorHandler('outer')
    eh_inner = TagErrorHandler('inner')
    eh_mid = TagErrorHandler('mid')

    inner = Application(inner_routes(), resources=inner_res,
                        middlewares=[MWTwo('inner2')], error_handler=eh_inner)
    embedded = inner
    full_prefix = prefix.rstrip('/')
    if depth == 2:
        embedded = Application([('/mid', inner)], resources=mid_res,
                               middlewares=[MWOne('mid1')], error_handler=eh_mid)
        full_prefix = full_prefix + '/mid'
    nested = Application([(prefix, embedded), GET('/outside', ep_res, text_render)],
                         resources=outer_res, middlewares=[MWOne('outer1')],
                         error_handler=eh_outer)

    # resources of the inner levels (names shared by inner levels only are
    # not used here); the outermost value wins for every name it defines.
    # MWOne is unique: the mid level's instance gives way to the outer one.
    lower_res = dict(inner_res)
    if depth == 2:
        assert not (set(mid_res) & set(inner_res)) - set(outer_res)
        lower_res.update(mid_res)
    flat = Application(flat_routes(full_prefix, lower_res, [MWTwo('inner2')])
                       + [GET('/outside', ep_res, text_render)],
                       resources=outer_res,
                       middlewares=[MWOne('outer1')],
                       error_handler=TagErrorHandler('outer'))

    paths = [(m, full_prefix + p) for m, p in REQUESTS]
    paths += [('GET', '/outside'), ('GET', '/elsewhere'), ('GET', '/')]
    got, want = snapshot(nested, paths), snapshot(flat, paths)
    assert got == want, (prefix, depth, [(g, w) for g, w in zip(got, want) if g != w])

    # every embedded route carries the OUTER application's error renderer
    for rt in nested.routes:
        assert rt.render_error.__self__ is eh_outer, rt
    # ... and error bodies name the outer handler and the outer res_a
    by_path = dict(((m, p), (s, b)) for m, p, s, b, _, _, _ in got)
    status, body = by_path[('GET', full_prefix + '/forbidden/')]
    assert status == 403 and body.startswith('ERR[outer] 403 res_a=%s ' % outer_res['res_a']), body
    assert 'app_is_serving=True' in body
    status, body = by_path[('GET', full_prefix + '/nothing')]
    assert status == 404 and body.startswith('ERR[outer] 404'), body
    status, body = by_path[('GET', full_prefix + '/item/3')]
    assert status == 405, (status, body)
    return len(paths)


def check_render_error_contract():
    def ok_plain(request, _error):
        pass

    def ok_all(request, _application, _route, _dispatch_state, _error, res_a):
        pass

    def bad_one(request, _error, zeta):
        pass

    def bad_many(request, _error, zeta, alpha, context):
        pass

    def bad_next(next, request, _error):
        pass

    assert check_render_error(ok_plain, {}) is True
    assert check_render_error(ok_all, {'res_a': 0}) is True
    assert check_render_error(ok_plain, ()) is True            # any iterable of names
    assert check_render_error(ok_all, ['res_a']) is True
    assert check_render_error(ok_all, iter(['res_a'])) is True  # consumed once
    for func, res, msg in [
            (bad_one, {}, "unresolved render_error() arguments: ['zeta']"),
            (bad_one, {'res_a': 1}, "unresolved render_error() arguments: ['zeta']"),
            (bad_many, {'zeta': None}, "unresolved render_error() arguments: ['alpha', 'context']"),
            (bad_many, {}, "unresolved render_error() arguments: ['alpha', 'context', 'zeta']"),
            (bad_next, {}, "unresolved render_error() arguments: ['next']"),
            (ok_all, {}, "unresolved render_error() arguments: ['res_a']")]:
        try:
            check_render_error(func, res)
        except NameError as ne:
            assert type(ne) is NameError and ne.args == (msg,), ne.args
        else:
            raise AssertionError('expected NameError for %r' % func)
    # non-iterable / unhashable resources are TypeErrors, raised before
    # the renderer is even looked at
    for bad_res in (None, 5, [[]]):
        try:
            check_render_error(object(), bad_res)
        except TypeError:
            pass
        else:
            raise AssertionError('expected TypeError')
    # the builtins tuple is not touched
    assert _REQUEST_BUILTINS == ('request', '_application', '_route', '_dispatch_state')


def check_bind_time_rejection():
    # the handler needs res_a: installing it on an application without that
    # resource is rejected
    inner = Application(inner_routes(), resources={'res_a': 'in'})
    try:
        Application([('/p', Application([GET('/x', ep_boom, text_render)]))],
                    resources={}).set_error_handler(TagErrorHandler('late'))
    except NameError as ne:
        assert ne.args == ("unresolved render_error() arguments: ['res_a']",), ne.args
    else:
        raise AssertionError('expected NameError')
    # a handler put in place behind the application's back is checked per
    # embedded route against the MERGED resources: fine when the inner level
    # provides res_a, rejected at bind time when no level does
    sneaky = Application()
    sneaky.error_handler = TagErrorHandler('sneaky')
    sneaky.add(('/p', inner))
    resp = sneaky.get_local_client().get('/p/forbidden/')
    assert resp.status_code == 403 and resp.get_data(True).startswith('ERR[sneaky] 403 res_a=in '), resp.get_data(True)
    n_routes = len(sneaky.routes)
    try:
        sneaky.add(('/q', Application([GET('/x', ep_boom, text_render)])))
    except NameError as ne:
        assert ne.args == ("unresolved render_error() arguments: ['res_a']",), ne.args
    else:
        raise AssertionError('expected NameError')
    assert len(sneaky.routes) == n_routes
    # handler installed on an app lacking res_a is rejected at construction
    try:
        Application([('/p', inner)], error_handler=TagErrorHandler('outer'))
    except NameError as ne:
        assert ne.args == ("unresolved render_error() arguments: ['res_a']",), ne.args
    else:
        raise AssertionError('expected NameError')

    # rebind_render_error=False keeps the inner route's own (None) renderer
    rt = inner.routes[0]
    rebound = rt.bind(Application(resources={'res_a': 1}), rebind_render_error=False)
    assert rebound.render_error is rt.render_error


def main():
    n = 0
    resource_sets = [({'res_a': 'OUT'}, {'res_a': 'in', 'res_b': 'in-b'}, {'res_a': 'mid'}),
                     ({'res_a': 0, 'res_b': ''}, {'res_a': 'in'}, {'res_a': 'mid', 'res_b': 'mid-b'}),
                     ({'res_a': None}, {'res_a': 'in'}, {'res_a': 'mid'})]
    for prefix, depth, (o, i, m) in itertools.product(
            ['/api', '/api/', '/', '/a/b', '/a/b/'], [1, 2], resource_sets):
        n += check_embedding(prefix, depth, o, i, m)
    check_render_error_contract()
    check_bind_time_rejection()
    print('compared %d responses' % n)
    print('PASS')


if __name__ == '__main__':
    main()
