# -*- coding: utf-8 -*-
"""demo1: middlewares nest in the documented M-shaped order (C03).

Focus of this demo: the generated ``process_request`` (endpoint chain, then
-- unless a Response came back -- render chain), including the exact source
text that ends up in linecache.
"""
import os
import sys
import linecache

sys.path.insert(0, os.path.dirname(os.path.abspath(__file__)))

from clastic import Application, Route, Response
from clastic.middleware import Middleware
from clastic.middleware.core import (make_middleware_chain, merge_middlewares,
                                     _create_request_inner, _named_arg_str)

TRACE = []


class Boom(Exception):
    pass


class Tracer(Middleware):
    """Traces every stage; *plan* maps stage -> behaviour."""
    unique = False

    def __init__(self, label, plan=None):
        self.label = label
        self.plan = plan or {}

    def _run(self, stage, next):
        what = self.plan.get(stage)
        TRACE.append('>%s.%s' % (self.label, stage))
        if what == 'raise_before':
            TRACE.append('!%s.%s' % (self.label, stage))
            raise Boom('%s.%s' % (self.label, stage))
        if what == 'short':
            TRACE.append('<%s.%s' % (self.label, stage))
            return Response('short:%s.%s' % (self.label, stage))
        if what == 'swallow':
            try:
                ret = next()
            except Boom as e:
                TRACE.append('~%s.%s' % (self.label, stage))
                ret = Response('swallowed:%s' % e)
        else:
            try:
                ret = next()
            except Boom:
                TRACE.append('^%s.%s' % (self.label, stage))
                raise
        if what == 'raise_after':
            TRACE.append('!%s.%s' % (self.label, stage))
            raise Boom('%s.%s' % (self.label, stage))
        TRACE.append('<%s.%s' % (self.label, stage))
        return ret

    def request(self, next, request):
        return self._run('request', next)

    def endpoint(self, next):
        return self._run('endpoint', next)

    def render(self, next, context):
        return self._run('render', next)


def make_endpoint(plan=None):
    def endpoint(request):
        TRACE.append('>ep')
        if plan == 'raise':
            TRACE.append('!ep')
            raise Boom('ep')
        TRACE.append('<ep')
        if plan == 'response':
            return Response('direct')
        return {'k': 'v'}
    return endpoint


def make_render(plan=None):
    def render(context):
        TRACE.append('>rn')
        if plan == 'raise':
            TRACE.append('!rn')
            raise Boom('rn')
        TRACE.append('<rn')
        return Response('rendered:%s' % sorted(context.items()))
    return render


def run(mws, ep_plan=None, rn_plan=None):
    del TRACE[:]
    chain = make_middleware_chain(mws, make_endpoint(ep_plan), make_render(rn_plan),
                                  ['request'])
    try:
        resp = chain(request='REQ')
        out = resp.get_data(as_text=True)
    except Boom as e:
        out = 'Boom:%s' % e
    return out, list(TRACE)


def expect_full(labels):
    t = ['>%s.request' % l for l in labels]
    t += ['>%s.endpoint' % l for l in labels]
    t += ['>ep', '<ep']
    t += ['<%s.endpoint' % l for l in reversed(labels)]
    t += ['>%s.render' % l for l in labels]
    t += ['>rn', '<rn']
    t += ['<%s.render' % l for l in reversed(labels)]
    t += ['<%s.request' % l for l in reversed(labels)]
    return t


def main():
    # 1. plain M shape for 0..4 middlewares
    for n in range(5):
        labels = ['m%d' % i for i in range(n)]
        out, trace = run([Tracer(l) for l in labels])
        assert out == "rendered:[('k', 'v')]", out
        assert trace == expect_full(labels), (n, trace)

    # 2. endpoint returns a Response: render side skipped entirely
    out, trace = run([Tracer('a'), Tracer('b')], ep_plan='response')
    assert out == 'direct'
    assert trace == ['>a.request', '>b.request', '>a.endpoint', '>b.endpoint', '>ep', '<ep',
                     '<b.endpoint', '<a.endpoint', '<b.request', '<a.request'], trace

    # 3. endpoint middleware short-circuits with a Response: endpoint and render skipped
    out, trace = run([Tracer('a'), Tracer('b', {'endpoint': 'short'}), Tracer('c')])
    assert out == 'short:b.endpoint'
    assert trace == ['>a.request', '>b.request', '>c.request', '>a.endpoint', '>b.endpoint',
                     '<b.endpoint', '<a.endpoint', '<c.request', '<b.request', '<a.request'], trace

    # 4. request middleware short-circuits: nothing inside runs
    out, trace = run([Tracer('a'), Tracer('b', {'request': 'short'}), Tracer('c')])
    assert out == 'short:b.request'
    assert trace == ['>a.request', '>b.request', '<b.request', '<a.request'], trace

    # 5. render middleware short-circuits: render function skipped
    out, trace = run([Tracer('a', {'render': 'short'}), Tracer('b')])
    assert out == 'short:a.render'
    assert trace[-4:] == ['>a.render', '<a.render', '<b.request', '<a.request'], trace
    assert '>rn' not in trace and '>b.render' not in trace

    # 6. every single raising position unwinds through every enclosing layer
    labels = ['a', 'b', 'c']
    for who in labels:
        for stage in ('request', 'endpoint', 'render'):
            for when in ('raise_before', 'raise_after'):
                mws = [Tracer(l, {stage: when} if l == who else None) for l in labels]
                out, trace = run(mws)
                assert out == 'Boom:%s.%s' % (who, stage), out
                idx = labels.index(who)
                outer = labels[:idx]
                # enclosing layers of the same stage see the exception in reverse order
                tail = ['^%s.%s' % (l, stage) for l in reversed(outer)]
                if stage != 'request':
                    tail += ['^%s.request' % l for l in reversed(labels)]
                assert trace[-len(tail):] == tail if tail else True, (who, stage, when, trace)
                bang = trace.index('!%s.%s' % (who, stage))
                assert trace[bang + 1:] == tail, (who, stage, when, trace)
                if when == 'raise_before':
                    assert trace[bang - 1] == '>%s.%s' % (who, stage)
                if stage == 'endpoint':
                    assert '>rn' not in trace and '>a.render' not in trace

    # 7. endpoint / render raising, and swallowing at each layer
    out, trace = run([Tracer('a'), Tracer('b')], ep_plan='raise')
    assert out == 'Boom:ep'
    assert trace == ['>a.request', '>b.request', '>a.endpoint', '>b.endpoint', '>ep', '!ep',
                     '^b.endpoint', '^a.endpoint', '^b.request', '^a.request'], trace
    out, trace = run([Tracer('a'), Tracer('b')], rn_plan='raise')
    assert out == 'Boom:rn'
    assert trace[-6:] == ['>rn', '!rn', '^b.render', '^a.render', '^b.request', '^a.request'], trace

    out, trace = run([Tracer('a'), Tracer('b', {'endpoint': 'swallow'}), Tracer('c')], ep_plan='raise')
    assert out == 'swallowed:ep'
    assert trace == ['>a.request', '>b.request', '>c.request',
                     '>a.endpoint', '>b.endpoint', '>c.endpoint', '>ep', '!ep',
                     '^c.endpoint', '~b.endpoint', '<b.endpoint', '<a.endpoint',
                     '<c.request', '<b.request', '<a.request'], trace
    out, trace = run([Tracer('a', {'request': 'swallow'}), Tracer('b')], rn_plan='raise')
    assert out == 'swallowed:rn'
    assert trace[-6:] == ['!rn', '^b.render', '^a.render', '^b.request', '~a.request', '<a.request'], trace

    # 8. process_request: exact generated source, argument plumbing, laziness of render
    calls = []

    def ep(a, b):
        calls.append(('ep', a, b))
        return a

    def rn(context, b):
        calls.append(('rn', context, b))
        return 'R(%r,%r)' % (context, b)

    assert _named_arg_str(['a', 'b']) == 'a=a, b=b'
    assert _named_arg_str([]) == ''
    assert _named_arg_str(('x',)) == 'x=x'
    pr = _create_request_inner(ep, rn, ['a', 'b'], ['a', 'b'], ['context', 'b'])
    assert pr.__name__ == 'process_request'
    assert pr.__code__.co_varnames[:2] == ('a', 'b')
    src = ''.join(linecache.cache[pr.__code__.co_filename][2])
    assert src == ('\ndef process_request(a,b):\n'
                   '    __traceback_hide__ = True\n'
                   '    context = endpoint(a=a, b=b)\n'
                   '    if isinstance(context, BaseResponse):\n'
                   '        resp = context\n'
                   '    else:\n'
                   '        resp = render(context=context, b=b)\n'
                   '    return resp\n'), src
    assert pr.__code__.co_filename.startswith('<sinter generated process_request ')
    assert set(pr.__globals__) >= {'endpoint', 'render', 'BaseResponse'}
    assert pr.__globals__['endpoint'] is ep and pr.__globals__['render'] is rn
    assert pr(1, 2) == 'R(1,2)'
    assert pr(b=5, a=0) == 'R(0,5)'       # falsy context still rendered
    assert pr(None, '') == "R(None,'')"
    r = Response('x')
    assert pr(r, 2) is r                  # Response passes through untouched, render not called
    assert calls == [('ep', 1, 2), ('rn', 1, 2), ('ep', 0, 5), ('rn', 0, 5),
                     ('ep', None, ''), ('rn', None, ''), ('ep', r, 2)], calls
    pr0 = _create_request_inner(lambda: 'c', lambda context: context * 2, [], [], ['context'])
    assert pr0() == 'cc'
    # two builds do not share their globals
    pr2 = _create_request_inner(rn, ep, ['b'], [], [])
    assert pr2.__globals__ is not pr.__globals__ and pr.__globals__['endpoint'] is ep

    # 9. through a real application: app-level, then route-level middlewares
    del TRACE[:]
    route = Route('/', make_endpoint(), make_render(), middlewares=[Tracer('r1'), Tracer('r2')])
    app = Application([route], middlewares=[Tracer('A1'), Tracer('A2')])
    resp = app.get_local_client().get('/')
    assert resp.status_code == 200 and resp.data == b"rendered:[('k', 'v')]"
    assert TRACE == expect_full(['A1', 'A2', 'r1', 'r2']), TRACE
    merged = merge_middlewares([Tracer('x')], [Tracer('y')])
    assert [m.label for m in merged] == ['y', 'x']

    print('PASS')


if __name__ == '__main__':
    main()
