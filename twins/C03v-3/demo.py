# -*- coding: utf-8 -*-
"""demo3: middlewares nest in the documented M-shaped order (C03).

Focus of this demo: make_middleware_chain itself -- which middleware takes
part in which stage, how provides flow from stage to stage, and the errors
(type, message, precedence) raised while the three chains are built.
"""
import os
import sys

sys.path.insert(0, os.path.dirname(os.path.abspath(__file__)))

from clastic import Application, Route, Response
from clastic.middleware import Middleware
from clastic.middleware.core import make_middleware_chain, merge_middlewares

TRACE = []


class Boom(Exception):
    pass


class Tracer(Middleware):
    """Traces every stage; *plan* maps stage -> behaviour."""
    unique = False

    def __init__(self, label, plan=None):
        self.label = label
        self.plan = plan or {}

    def _run(self, stage, next):
        what = self.plan.get(stage)
        TRACE.append('>%s.%s' % (self.label, stage))
        if what == 'raise_before':
            TRACE.append('!%s.%s' % (self.label, stage))
            raise Boom('%s.%s' % (self.label, stage))
        if what == 'short':
            TRACE.append('<%s.%s' % (self.label, stage))
            return Response('short:%s.%s' % (self.label, stage))
        if what == 'swallow':
            try:
                ret = next()
            except Boom as e:
                TRACE.append('~%s.%s' % (self.label, stage))
                ret = Response('swallowed:%s' % e)
        else:
            try:
                ret = next()
            except Boom:
                TRACE.append('^%s.%s' % (self.label, stage))
                raise
        if what == 'raise_after':
            TRACE.append('!%s.%s' % (self.label, stage))
            raise Boom('%s.%s' % (self.label, stage))
        TRACE.append('<%s.%s' % (self.label, stage))
        return ret

    def request(self, next, request):
        return self._run('request', next)

    def endpoint(self, next):
        return self._run('endpoint', next)

    def render(self, next, context):
        return self._run('render', next)


def make_endpoint(plan=None):
    def endpoint(request):
        TRACE.append('>ep')
        if plan == 'raise':
            TRACE.append('!ep')
            raise Boom('ep')
        TRACE.append('<ep')
        if plan == 'response':
            return Response('direct')
        return {'k': 'v'}
    return endpoint


def make_render(plan=None):
    def render(context):
        TRACE.append('>rn')
        if plan == 'raise':
            TRACE.append('!rn')
            raise Boom('rn')
        TRACE.append('<rn')
        return Response('rendered:%s' % sorted(context.items()))
    return render


def run(mws, ep_plan=None, rn_plan=None):
    del TRACE[:]
    chain = make_middleware_chain(mws, make_endpoint(ep_plan), make_render(rn_plan),
                                  ['request'])
    try:
        resp = chain(request='REQ')
        out = resp.get_data(as_text=True)
    except Boom as e:
        out = 'Boom:%s' % e
    return out, list(TRACE)


def expect_full(labels):
    t = ['>%s.request' % l for l in labels]
    t += ['>%s.endpoint' % l for l in labels]
    t += ['>ep', '<ep']
    t += ['<%s.endpoint' % l for l in reversed(labels)]
    t += ['>%s.render' % l for l in labels]
    t += ['>rn', '<rn']
    t += ['<%s.render' % l for l in reversed(labels)]
    t += ['<%s.request' % l for l in reversed(labels)]
    return t


def main():
    # 1. plain M shape for 0..4 middlewares
    for n in range(5):
        labels = ['m%d' % i for i in range(n)]
        out, trace = run([Tracer(l) for l in labels])
        assert out == "rendered:[('k', 'v')]", out
        assert trace == expect_full(labels), (n, trace)

    # 2. endpoint returns a Response: render side skipped entirely
    out, trace = run([Tracer('a'), Tracer('b')], ep_plan='response')
    assert out == 'direct'
    assert trace == ['>a.request', '>b.request', '>a.endpoint', '>b.endpoint', '>ep', '<ep',
                     '<b.endpoint', '<a.endpoint', '<b.request', '<a.request'], trace

    # 3. endpoint middleware short-circuits with a Response: endpoint and render skipped
    out, trace = run([Tracer('a'), Tracer('b', {'endpoint': 'short'}), Tracer('c')])
    assert out == 'short:b.endpoint'
    assert trace == ['>a.request', '>b.request', '>c.request', '>a.endpoint', '>b.endpoint',
                     '<b.endpoint', '<a.endpoint', '<c.request', '<b.request', '<a.request'], trace

    # 4. request middleware short-circuits: nothing inside runs
    out, trace = run([Tracer('a'), Tracer('b', {'request': 'short'}), Tracer('c')])
    assert out == 'short:b.request'
    assert trace == ['>a.request', '>b.request', '<b.request', '<a.request'], trace

    # 5. render middleware short-circuits: render function skipped
    out, trace = run([Tracer('a', {'render': 'short'}), Tracer('b')])
    assert out == 'short:a.render'
    assert trace[-4:] == ['>a.render', '<a.render', '<b.request', '<a.request'], trace
    assert '>rn' not in trace and '>b.render' not in trace

    # 6. every single raising position unwinds through every enclosing layer
    labels = ['a', 'b', 'c']
    for who in labels:
        for stage in ('request', 'endpoint', 'render'):
            for when in ('raise_before', 'raise_after'):
                mws = [Tracer(l, {stage: when} if l == who else None) for l in labels]
                out, trace = run(mws)
                assert out == 'Boom:%s.%s' % (who, stage), out
                idx = labels.index(who)
                outer = labels[:idx]
                # enclosing layers of the same stage see the exception in reverse order
                tail = ['^%s.%s' % (l, stage) for l in reversed(outer)]
                if stage != 'request':
                    tail += ['^%s.request' % l for l in reversed(labels)]
                assert trace[-len(tail):] == tail if tail else True, (who, stage, when, trace)
                bang = trace.index('!%s.%s' % (who, stage))
                assert trace[bang + 1:] == tail, (who, stage, when, trace)
                if when == 'raise_before':
                    assert trace[bang - 1] == '>%s.%s' % (who, stage)
                if stage == 'endpoint':
                    assert '>rn' not in trace and '>a.render' not in trace

    # 7. endpoint / render raising, and swallowing at each layer
    out, trace = run([Tracer('a'), Tracer('b')], ep_plan='raise')
    assert out == 'Boom:ep'
    assert trace == ['>a.request', '>b.request', '>a.endpoint', '>b.endpoint', '>ep', '!ep',
                     '^b.endpoint', '^a.endpoint', '^b.request', '^a.request'], trace
    out, trace = run([Tracer('a'), Tracer('b')], rn_plan='raise')
    assert out == 'Boom:rn'
    assert trace[-6:] == ['>rn', '!rn', '^b.render', '^a.render', '^b.request', '^a.request'], trace

    out, trace = run([Tracer('a'), Tracer('b', {'endpoint': 'swallow'}), Tracer('c')], ep_plan='raise')
    assert out == 'swallowed:ep'
    assert trace == ['>a.request', '>b.request', '>c.request',
                     '>a.endpoint', '>b.endpoint', '>c.endpoint', '>ep', '!ep',
                     '^c.endpoint', '~b.endpoint', '<b.endpoint', '<a.endpoint',
                     '<c.request', '<b.request', '<a.request'], trace
    out, trace = run([Tracer('a', {'request': 'swallow'}), Tracer('b')], rn_plan='raise')
    assert out == 'swallowed:rn'
    assert trace[-6:] == ['!rn', '^b.render', '^a.render', '^b.request', '~a.request', '<a.request'], trace

    # 8. make_middleware_chain: provides plumbing between the stages, partial
    #    middlewares, containers accepted, and every error it can raise
    log = []

    class ReqOnly(Middleware):
        provides = ('user',)

        def request(self, next, request):
            log.append('>req_only')
            try:
                return next(user='u:%s' % request)
            finally:
                log.append('<req_only')

    class EpOnly(Middleware):
        endpoint_provides = ('extra',)

        def endpoint(self, next, user):
            log.append('>ep_only:%s' % user)
            ret = next(extra=user.upper())
            log.append('<ep_only')
            return ret

    class RnOnly(Middleware):
        render_provides = ('suffix',)

        def render(self, next, context, user):
            log.append('>rn_only:%s:%s' % (context, user))
            ret = next(suffix='!')
            log.append('<rn_only')
            return ret

    class Inert(Middleware):
        pass

    def ep(user, extra, request, opt='dflt'):
        log.append('ep')
        return (user, extra, request, opt)

    def rn(context, suffix, extra=None, res=None):
        log.append('rn')
        return '%r%s%r%r' % (context, suffix, extra, res)

    expected_log = ['>req_only', '>ep_only:u:R', 'ep', '<ep_only', '>rn_only:%s:u:R'
                    % (('u:R', 'U:R', 'R', 'dflt'),), 'rn', '<rn_only', '<req_only']
    stack = [Inert(), RnOnly(), ReqOnly(), Inert(), EpOnly()]
    for mws in (stack, tuple(stack)):
        for pre in (['request', 'res'], ('res', 'request'), {'request', 'res', 'next', 'context'},
                    iter(['request', 'res'])):
            del log[:]
            chain = make_middleware_chain(mws, ep, rn, pre)
            assert chain.__name__ == 'next'
            argnames = chain.__code__.co_varnames[:chain.__code__.co_argcount]
            assert sorted(argnames) == ['request', 'res'], argnames
            # endpoint-provided 'extra' does not reach render; preprovided 'res' does
            assert chain(request='R', res=7) == "('u:R', 'U:R', 'R', 'dflt')!None7"
            assert log == expected_log, log

    # empty stacks, falsy contexts, Response from the endpoint
    for empty in ([], (), [Inert()]):
        chain = make_middleware_chain(empty, lambda: 0, lambda context: 'r%r' % (context,), [])
        assert chain() == 'r0'
        chain = make_middleware_chain(empty, lambda: None, lambda context: 'r%r' % (context,), ())
        assert chain() == 'rNone'
    resp = Response('x')
    chain = make_middleware_chain([], lambda: resp, lambda context: 1 / 0, [])
    assert chain() is resp

    def raises_name_error(msg, *a):
        try:
            make_middleware_chain(*a)
        except NameError as e:
            assert type(e) is NameError and str(e) == msg, (str(e), msg)
        else:
            raise AssertionError('NameError expected: %s' % msg)

    def ep_next(next, request):
        pass

    def rn_next(context, next):
        pass

    def rn_ok(context):
        pass

    def ep_ok():
        pass

    tmpl = "argument 'next' reserved for middleware use only (%r)"
    raises_name_error(tmpl % ep_next, [], ep_next, rn_ok, ['request'])
    raises_name_error(tmpl % rn_next, [], ep_ok, rn_next, ['request'])
    # endpoint is checked before render, and both before anything is resolved
    raises_name_error(tmpl % ep_next, [ReqOnly()], ep_next, rn_next, [])
    raises_name_error(tmpl % rn_next, [EpOnly()], ep_ok, rn_next, [])
    # stage by stage: endpoint first, then render, then request
    raises_name_error("unresolved endpoint middleware arguments: ['user']",
                      [EpOnly()], ep_ok, rn_ok, ['request'])
    raises_name_error("unresolved endpoint middleware arguments: ['nope']",
                      [RnOnly()], lambda nope: 0, lambda context, nope2: 0, ['request'])
    raises_name_error("unresolved render middleware arguments: ['user']",
                      [RnOnly()], ep_ok, rn_ok, ['request'])
    raises_name_error("unresolved render middleware arguments: ['extra']",
                      [ReqOnly(), EpOnly()], ep_ok, lambda context, extra: 0, ['request'])
    raises_name_error("unresolved request middleware arguments: ['request']",
                      [ReqOnly()], ep_ok, rn_ok, ['res'])
    # 'context' is never available to the endpoint side, 'next'/'context' never preprovided
    raises_name_error("unresolved endpoint middleware arguments: ['context']",
                      [], lambda context: 0, rn_ok, ['context', 'request'])
    try:
        make_middleware_chain([], lambda a, b: 0, rn_ok, [])
    except NameError as e:
        head, _, tail = str(e).partition(': ')
        assert head == 'unresolved endpoint middleware arguments' and sorted(eval(tail)) == ['a', 'b']
    else:
        raise AssertionError('NameError expected')
    # a middleware object without the stage attributes is an AttributeError, as ever
    try:
        make_middleware_chain([object()], ep_ok, rn_ok, [])
    except AttributeError as e:
        assert 'request' in str(e), e
    else:
        raise AssertionError('AttributeError expected')

    # 9. through a real application: app-level, then route-level middlewares
    del TRACE[:]
    route = Route('/', make_endpoint(), make_render(), middlewares=[Tracer('r1'), Tracer('r2')])
    app = Application([route], middlewares=[Tracer('A1'), Tracer('A2')])
    resp = app.get_local_client().get('/')
    assert resp.status_code == 200 and resp.data == b"rendered:[('k', 'v')]"
    assert TRACE == expect_full(['A1', 'A2', 'r1', 'r2']), TRACE
    merged = merge_middlewares([Tracer('x')], [Tracer('y')])
    assert [m.label for m in merged] == ['y', 'x']

    print('PASS')


if __name__ == '__main__':
    main()
