# -*- coding: utf-8 -*-
"""demo1 -- C02: each injected argument comes from its one declared source.

Standalone: prints PASS and exits 0 on unmodified code and with
patch1.diff applied (build_converter branches inverted).

Sections
  A. full-stack wiring with distinct sentinels (URL values, resources,
     built-ins, middleware-provided values in all three phases)
  B. defaults / never passed an undeclared name / BaseResponse skips render
  C. URL segment converters (focus of refactoring 1), incl. edge cases
  D. static argument: the generated chain source only contains name=name
  E. bind-time rejections (NameError messages)
  F. private import paths of the process_request generator
  G. re-run A-F under several PYTHONHASHSEED values
"""
import os
import re
import sys
import linecache
import subprocess

HERE = os.path.dirname(os.path.abspath(__file__))
sys.path.insert(0, HERE)

import warnings
warnings.simplefilter('ignore')

import clastic
assert os.path.abspath(clastic.__file__).startswith(HERE), clastic.__file__

from werkzeug.wrappers import Response, BaseResponse

from clastic import Application, Route, SubApplication
from clastic.middleware import Middleware
from clastic.route import build_converter, BoundRoute, RESERVED_ARGS
from clastic import sinter
from clastic.sinter import inject, make_chain, build_chain_str, get_arg_names


class S(object):
    "a distinct, identity-compared sentinel"
    def __init__(self, label):
        self.label = label

    def __repr__(self):
        return '<S %s>' % self.label


CALLS = []
CUR = {}  # per-request sentinels, refreshed before each request


def rec(label, kw):
    kw = dict(kw)
    kw.pop('self', None)
    kw.pop('next', None)
    CALLS.append((label, kw))


def fresh(n):
    CUR.clear()
    for k in ('req_val', 'req_val2', 'ep_val', 'rn_val', 'ctx'):
        CUR[k] = S('%s#%s' % (k, n))


class ProviderMW(Middleware):
    provides = ('req_val', 'req_val2')
    endpoint_provides = ('ep_val',)
    render_provides = ('rn_val',)

    def request(self, next, request, _application, _route, _dispatch_state,
                res_a, item_id):
        rec('mw.request', locals())
        return next(req_val=CUR['req_val'], req_val2=CUR['req_val2'])

    def endpoint(self, next, request, res_b, req_val, name):
        rec('mw.endpoint', locals())
        return next(ep_val=CUR['ep_val'])

    def render(self, next, context, res_a, req_val2, _route):
        rec('mw.render', locals())
        return next(rn_val=CUR['rn_val'])


class OuterMW(Middleware):
    "consumes nothing but next and a resource; must not see provided names"
    def request(self, next, res_b):
        rec('outer.request', locals())
        return next()

    def endpoint(self, next, req_val2, item_id):
        rec('outer.endpoint', locals())
        return next()


def endpoint(request, _application, _route, _dispatch_state, res_a, res_b,
             item_id, name, req_val, ep_val, nosrc='DEFAULT', res_c='unused',
             req_val2='unused2'):
    rec('endpoint', locals())
    return CUR['ctx']


def render(context, request, res_a, rn_val, req_val, _route, item_id,
           nosrc2=17, _application=None):
    rec('render', locals())
    return Response('rendered')


def resp_endpoint(res_a, item_id=None):
    rec('resp_endpoint', locals())
    return Response('direct')


def never_render(context):
    rec('never_render', locals())
    raise AssertionError('render must be skipped for a Response')


def by_label(label):
    found = [kw for (l, kw) in CALLS if l == label]
    assert len(found) == 1, (label, CALLS)
    return found[0]


def section_a_b():
    RES_A, RES_B, RES_C = S('res_a'), S('res_b'), S('res_c')
    route_res = S('route_res_b')
    mws = [OuterMW(), ProviderMW()]
    app = Application([Route('/item/<item_id:int>/<name>', endpoint, render,
                             resources={'res_b': RES_B},
                             middlewares=mws),
                       Route('/direct/<item_id:int>', resp_endpoint,
                             never_render),
                       Route('/over/<item_id:int>/<name>', endpoint, render,
                             resources={'res_b': route_res},
                             middlewares=mws)],
                      resources={'res_a': RES_A, 'res_c': RES_C})
    cl = app.get_local_client()
    seen_requests = []
    for n, (path, item_id, name, res_b) in enumerate([
            ('/item/7/alice', 7, u'alice', RES_B),
            ('/item/0/0', 0, u'0', RES_B),
            ('/item/-3/res_a', -3, u'res_a', RES_B),
            ('/over/12/req_val', 12, u'req_val', route_res)]):
        del CALLS[:]
        fresh(n)
        resp = cl.get(path)
        assert resp.status_code == 200, (path, resp.status_code, resp.data)
        assert resp.data == b'rendered'
        route = [r for r in app.routes
                 if r.pattern.startswith(path[:5])][0]

        kw = by_label('outer.request')
        assert set(kw) == {'res_b'} and kw['res_b'] is res_b, (kw, res_b, path)

        kw = by_label('mw.request')
        assert set(kw) == {'request', '_application', '_route',
                           '_dispatch_state', 'res_a', 'item_id'}
        request = kw['request']
        assert request.path == path
        assert all(request is not r for r in seen_requests)
        seen_requests.append(request)
        dstate = kw['_dispatch_state']
        assert kw['_application'] is app and kw['_route'] is route
        assert kw['res_a'] is RES_A
        assert kw['item_id'] == item_id and type(kw['item_id']) is int

        kw = by_label('outer.endpoint')
        assert set(kw) == {'req_val2', 'item_id'}
        assert kw['req_val2'] is CUR['req_val2'] and kw['item_id'] == item_id

        kw = by_label('mw.endpoint')
        assert set(kw) == {'request', 'res_b', 'req_val', 'name'}
        assert kw['request'] is request and kw['res_b'] is res_b
        assert kw['req_val'] is CUR['req_val']
        assert kw['name'] == name and type(kw['name']) is type(u'')

        kw = by_label('endpoint')
        assert set(kw) == {'request', '_application', '_route',
                           '_dispatch_state', 'res_a', 'res_b', 'item_id',
                           'name', 'req_val', 'ep_val', 'nosrc', 'res_c',
                           'req_val2'}
        assert kw['request'] is request and kw['_application'] is app
        assert kw['_route'] is route and kw['_dispatch_state'] is dstate
        assert kw['res_a'] is RES_A and kw['res_b'] is res_b
        assert kw['item_id'] == item_id and kw['name'] == name
        assert kw['req_val'] is CUR['req_val']
        assert kw['ep_val'] is CUR['ep_val']
        # B: default only when no source offers the name
        assert kw['nosrc'] == 'DEFAULT'
        assert kw['res_c'] is RES_C
        assert kw['req_val2'] is CUR['req_val2']

        kw = by_label('mw.render')
        assert set(kw) == {'context', 'res_a', 'req_val2', '_route'}
        assert kw['context'] is CUR['ctx'] and kw['res_a'] is RES_A
        assert kw['req_val2'] is CUR['req_val2'] and kw['_route'] is route

        kw = by_label('render')
        assert set(kw) == {'context', 'request', 'res_a', 'rn_val',
                           'req_val', '_route', 'item_id', 'nosrc2',
                           '_application'}
        assert kw['context'] is CUR['ctx'] and kw['request'] is request
        assert kw['res_a'] is RES_A and kw['rn_val'] is CUR['rn_val']
        assert kw['req_val'] is CUR['req_val'] and kw['_route'] is route
        assert kw['item_id'] == item_id and kw['nosrc2'] == 17
        assert kw['_application'] is app
        assert len(CALLS) == 7, CALLS

    # B: a Response from the endpoint skips render
    del CALLS[:]
    fresh('direct')
    resp = cl.get('/direct/41')
    assert resp.status_code == 200 and resp.data == b'direct'
    kw = by_label('resp_endpoint')
    assert set(kw) == {'res_a', 'item_id'}
    assert kw['res_a'] is RES_A and kw['item_id'] == 41
    assert not [c for c in CALLS if c[0] == 'never_render']

    # B: inject() itself -- filtering, defaults, **kwargs, falsy values
    def f(a, b=2, c=None):
        return (a, b, c)
    obj = S('obj')
    assert inject(f, {'a': obj, 'zzz': 1}) == (obj, 2, None)
    assert inject(f, {'a': 0, 'b': '', 'c': 0, 'd': 5}) == (0, '', 0)
    assert inject(f, {'a': None, 'b': None}) == (None, None, None)

    def g(a, b=3, **kw):
        return (a, b, kw)
    assert inject(g, {'a': 1, 'x': obj}) == (1, 3, {'x': obj})
    try:
        inject(f, {'b': 1})
    except TypeError:
        pass
    else:
        raise AssertionError('missing required arg must be a TypeError')

    # sub-application: the innermost bound app's route, resources layered
    sub = Application([Route('/s/<item_id:int>', resp_endpoint)],
                      resources={'res_a': S('sub_res_a')})
    outer_a = S('outer_res_a')
    outer = Application([SubApplication('/pre', sub)],
                        resources={'res_a': outer_a})
    del CALLS[:]
    resp = outer.get_local_client().get('/pre/s/5')
    assert resp.status_code == 200, resp.data
    kw = by_label('resp_endpoint')
    assert kw['item_id'] == 5
    assert kw['res_a'] is outer_a  # the dispatching app's resources win


def section_c():
    # direct: every (optional, multi) combination and every kind of value
    marks = []

    def conv(v):
        marks.append(v)
        return ('conv', v)

    for optional in (False, True, 0, 1, '', 'yes', None):
        sc = build_converter(conv, optional=optional, multi=False)
        mc = build_converter(conv, optional=optional, multi=True)
        assert sc.__name__ == 'single_converter'
        assert mc.__name__ == 'multi_converter'
        assert sc('/abc') == ('conv', 'abc')
        assert sc('abc') == ('conv', 'abc')
        assert sc('//a/b') == ('conv', 'ab')
        assert mc('/a/b') == [('conv', 'a'), ('conv', 'b')]
        assert mc('/a') == [('conv', 'a')]
        assert mc('a') == []          # nothing after the first slash
        assert mc('/') == [('conv', '')]
        del marks[:]
        if optional:
            assert sc('') is None and sc(None) is None
            assert mc('') == [] and mc(None) == []
            assert marks == []        # converter not consulted
        else:
            assert sc('') == ('conv', '')
            assert marks == ['']
            assert mc('') == []
            for c in (sc, mc):
                try:
                    c(None)
                except AttributeError:
                    pass
                else:
                    raise AssertionError('None for a mandatory binding')
    # a fresh list each time (no aliasing between calls)
    mc = build_converter(int, optional=True, multi=True)
    l1, l2 = mc(''), mc('')
    assert l1 == [] and l2 == [] and l1 is not l2
    # default flags
    assert build_converter(int)('/12') == 12
    try:
        build_converter(int)('')
    except ValueError:
        pass
    else:
        raise AssertionError('int("") must raise')
    try:
        build_converter(int, optional=True, multi=True)('/1/x')
    except ValueError:
        pass
    else:
        raise AssertionError('int("x") must raise')

    # through the URL: what the endpoint receives
    got = []

    def ep(a=S, b=S, c=S, d=S, e=S):
        got.append((a, b, c, d, e))
        return Response('ok')

    app = Application([
        Route('/one/<a:int>/<b?float>', ep),
        Route('/many/<c*int>', ep),
        Route('/plus/<d+>', ep),
        Route('/mix/<a>/<e*unicode>', ep),
        Route('/optstr/<b?>', ep),
    ])
    cl = app.get_local_client()

    def get(path, status=200):
        del got[:]
        resp = cl.get(path)
        assert resp.status_code == status, (path, resp.status_code)
        return got[0] if got else None

    assert get('/one/5/2.5') == (5, 2.5, S, S, S)
    assert get('/one/5') == (5, None, S, S, S)
    assert get('/one/0/0') == (0, 0.0, S, S, S)
    assert get('/one/x/1.0', 404) is None
    assert get('/many/1/2/3') == (S, S, [1, 2, 3], S, S)
    assert get('/many') == (S, S, [], S, S)
    assert get('/many/0') == (S, S, [0], S, S)
    assert get('/plus/a/b') == (S, S, S, [u'a', u'b'], S)
    assert get('/plus', 404) is None
    assert get('/mix/q/r/s') == (u'q', S, S, S, [u'r', u's'])
    assert get('/mix/q') == (u'q', S, S, S, [])
    assert get('/optstr/zz') == (S, u'zz', S, S, S)
    assert get('/optstr') == (S, None, S, S, S)

    # match_path: converted values keyed by binding name; None on failure
    br = app.routes[0]
    assert isinstance(br, BoundRoute)
    assert br.match_path('/one/5/2.5') == {'a': 5, 'b': 2.5}
    assert br.match_path('/one/5') == {'a': 5, 'b': None}
    assert br.match_path('/nope') is None
    assert app.routes[1].match_path('/many') == {'c': []}


CALL_RE = re.compile(r'funcs\[(\d+)\]\((.*)\)$')


def section_d():
    RES = S('res')

    class MW(Middleware):
        provides = ('p',)
        endpoint_provides = ('q',)

        def request(self, next, request, res):
            return next(p=1)

        def endpoint(self, next, p, zeta, alpha):
            return next(q=2)

    def ep(zeta, alpha, p, q, res, request, dflt=1):
        return Response('x')

    app = Application([Route('/<alpha>/<zeta>', ep, middlewares=[MW()])],
                      resources={'res': RES})
    chain = app.routes[0]._execute
    lines = linecache.getlines(chain.__code__.co_filename)
    assert lines, 'generated source is registered with linecache'
    calls = [CALL_RE.search(l.rstrip()) for l in lines]
    calls = [m for m in calls if m]
    assert len(calls) == 2  # mw.request + process_request
    for m in calls:
        for pair in [p for p in m.group(2).split(', ') if p]:
            k, _, v = pair.partition('=')
            assert k == v and k.isidentifier(), pair

    # build_chain_str on its own: sorted name=name, only in-scope names
    def f0(next, a, b=1):
        pass

    def f1(next, c, a):
        pass

    def f2(b, c, zz=0):
        pass
    src = build_chain_str([f0, f1, f2], [['a'], ['c'], ['b']], 'next')
    assert src == ('def next(a):\n'
                   '    def next(c):\n'
                   '        def next(b):\n'
                   '            __traceback_hide__ = True\n'
                   '            return funcs[2](b=b, c=c)\n'
                   '        __traceback_hide__ = True\n'
                   '        return funcs[1](a=a, c=c, next=next)\n'
                   '    __traceback_hide__ = True\n'
                   '    return funcs[0](a=a, next=next)\n'), src

    # make_chain: values flow to the right level
    log = []

    def m0(next, a, b=1):
        log.append(('m0', a, b))
        return next(c=('c', a))

    def m1(next, c, a):
        log.append(('m1', c, a))
        return next(b=('b', c))

    def fin(b, c, zz=0):
        log.append(('fin', b, c, zz))
        return 'done'
    chain, args, unres = make_chain([m0, m1], [['c'], ['b']], fin,
                                    ['a', 'zz'], 'next')
    # zz is optional but preprovided, so the chain takes (and forwards) it
    assert unres == set() and args == {'a', 'zz'}, (args, unres)
    A, ZZ = S('A'), S('ZZ')
    assert chain(a=A, zz=ZZ) == 'done'
    assert log == [('m0', A, 1), ('m1', ('c', A), A),
                   ('fin', ('b', ('c', A)), ('c', A), ZZ)]

    # the process_request source: keyword calls for endpoint and render
    pr_lines = None
    for fname in list(linecache.cache):
        if fname.startswith('<sinter generated process_request '):
            pr_lines = linecache.cache[fname][2]
            text = ''.join(pr_lines)
            for inner in re.findall(r'(?:endpoint|render)\((.*)\)', text):
                for pair in [p for p in inner.split(', ') if p]:
                    k, _, v = pair.partition('=')
                    assert k == v and k.isidentifier(), pair
            assert 'isinstance(context, BaseResponse)' in text
    assert pr_lines is not None


def expect_name_error(build, fragment):
    try:
        build()
    except NameError as ne:
        assert fragment in str(ne), (fragment, str(ne))
    else:
        raise AssertionError('expected NameError with %r' % fragment)


def section_e():
    def ep_next(next):
        return Response('')

    def ep_ok():
        return {}

    def rn_next(context, next):
        return Response('')

    def ep_unknown(mystery):
        return Response('')

    def rn_unknown(context, enigma):
        return Response('')

    class ReqNeeds(Middleware):
        def request(self, next, riddle):
            return next()

    class EpNeedsRender(Middleware):
        def endpoint(self, next, context):
            return next()

    def bind(ep, rn=None, mws=()):
        # route-level middlewares: the app's NullRoute stays unaffected
        return lambda: Application([Route('/', ep, rn, middlewares=list(mws))])

    expect_name_error(bind(ep_next),
                      "argument 'next' reserved for middleware use only (%r)"
                      % ep_next)
    expect_name_error(bind(ep_ok, rn_next),
                      "argument 'next' reserved for middleware use only (%r)"
                      % rn_next)
    # both offend: the endpoint is reported
    expect_name_error(bind(ep_next, rn_next), '(%r)' % ep_next)
    expect_name_error(bind(ep_unknown),
                      "unresolved endpoint middleware arguments: ['mystery']")
    expect_name_error(bind(ep_ok, rn_unknown),
                      "unresolved render middleware arguments: ['enigma']")
    expect_name_error(bind(ep_ok, None, [ReqNeeds()]),
                      "unresolved request middleware arguments: ['riddle']")
    # context is not available to the endpoint phase
    expect_name_error(bind(ep_ok, None, [EpNeedsRender()]),
                      "unresolved endpoint middleware arguments: ['context']")
    # endpoint problems are reported before render problems
    expect_name_error(bind(ep_unknown, rn_unknown),
                      "unresolved endpoint middleware arguments")
    # render problems are reported before request problems
    expect_name_error(bind(ep_ok, rn_unknown, [ReqNeeds()]),
                      "unresolved render middleware arguments")
    # 'next' misuse is reported before anything unresolved
    expect_name_error(bind(ep_unknown, rn_next, [ReqNeeds()]),
                      "argument 'next' reserved")


def section_f():
    from clastic.middleware import core
    from clastic.middleware.core import (_create_request_inner,
                                         _REQ_INNER_TMPL,
                                         _named_arg_str,
                                         _INNER_NAME,
                                         make_middleware_chain)
    from clastic.middleware import make_middleware_chain as mmc2
    assert mmc2 is make_middleware_chain
    assert core.BaseResponse is BaseResponse
    assert _INNER_NAME == 'next'
    assert _named_arg_str(['b', 'a']) == 'b=b, a=a'
    assert _named_arg_str([]) == '' and _named_arg_str(()) == ''
    assert _named_arg_str(iter(['x'])) == 'x=x'
    assert 'def process_request({all_args}):' in _REQ_INNER_TMPL
    assert 'endpoint({endpoint_args})' in _REQ_INNER_TMPL
    assert 'render({render_args})' in _REQ_INNER_TMPL

    seen = []
    CTX, R = S('ctx'), Response('r')

    def ep(a, b):
        seen.append(('ep', a, b))
        return CTX if a != 'resp' else R

    def rn(context, b):
        seen.append(('rn', context, b))
        return 'rendered'

    pr = _create_request_inner(ep, rn, ['a', 'b'], ['a', 'b'],
                               ['context', 'b'])
    assert pr.__name__ == 'process_request'
    assert tuple(get_arg_names(pr)) == ('a', 'b')
    assert pr.__code__.co_filename.startswith(
        '<sinter generated process_request ')
    assert set(pr.__globals__) - {'__builtins__'} == {
        'endpoint', 'render', 'BaseResponse', 'process_request'}
    assert pr.__globals__['endpoint'] is ep and pr.__globals__['render'] is rn
    B = S('B')
    assert pr(a=1, b=B) == 'rendered'
    assert seen == [('ep', 1, B), ('rn', CTX, B)]
    del seen[:]
    assert pr(a='resp', b=B) is R
    assert seen == [('ep', 'resp', B)]
    # no arguments at all
    pr0 = _create_request_inner(lambda: R, lambda: 1 / 0, [], [], [])
    assert pr0() is R

    # make_middleware_chain directly, mixed phases, preprovided names
    class M(Middleware):
        provides = ('p',)
        render_provides = ('r',)

        def request(self, next, u):
            return next(p=('p', u))

        def render(self, next, context, p):
            return next(r=('r', context, p))

    def ep2(p, u, v='vdef'):
        return ('ctx', p, u, v)

    def rn2(context, r, u):
        return (context, r, u)
    chain = make_middleware_chain([M()], ep2, rn2,
                                  ['u', 'next', 'context', 'request'])
    assert sorted(get_arg_names(chain)) == ['u']
    U = S('U')
    ctx = ('ctx', ('p', U), U, 'vdef')
    assert chain(u=U) == (ctx, ('r', ctx, ('p', U)), U)


def run_all():
    section_a_b()
    section_c()
    section_d()
    section_e()
    section_f()


def main():
    if '--child' in sys.argv:
        run_all()
        print('CHILD-OK')
        return 0
    run_all()
    for seed in ('0', '1', '7', '123', '4242'):
        env = dict(os.environ, PYTHONHASHSEED=seed)
        out = subprocess.run([sys.executable, os.path.abspath(__file__),
                              '--child'], env=env, cwd=HERE,
                             stdout=subprocess.PIPE, stderr=subprocess.STDOUT)
        text = out.stdout.decode('utf8', 'replace')
        assert out.returncode == 0 and 'CHILD-OK' in text, (seed, text[-3000:])
    print('PASS')
    return 0


if __name__ == '__main__':
    sys.exit(main())
