# -*- coding: utf-8 -*-
"""demo1: render_error dependency checking (clastic.route.check_render_error)
and its role in C11: a bind / add() / constructor that fails because a
render_error cannot be satisfied leaves every existing application untouched,
and successful binds never modify the route / embedded application.
"""
import os
import sys

sys.path.insert(0, os.path.dirname(os.path.abspath(__file__)))

from werkzeug.wrappers import Response

from clastic import Application, Route, SubApplication
from clastic.errors import ErrorHandler, NotFound
from clastic.route import check_render_error, BoundRoute


def text(app, path, method='GET'):
    resp = app.get_local_client().open(path, method=method)
    return resp.status_code, resp.get_data(as_text=True)


def patterns(app):
    return [r.pattern for r in app.routes]


def snapshot(app, paths):
    return (patterns(app), [id(r) for r in app.routes],
            [text(app, p) for p in paths])


# ---------------------------------------------------------------- direct calls

def re_plain(request, _error):
    return _error


def re_all_builtins(request, _application, _route, _dispatch_state, _error):
    return _error


def re_needs_db(request, _error, db):
    return _error


def re_needs_many(zeta, request, alpha, _error, mid, db):
    return _error


def re_defaults(request, _error, flavour='plain'):
    return _error


def re_context(_error, context):
    return _error


def re_next(next, _error):
    return _error


def re_varkw(_error, **kw):
    return _error


def re_noargs():
    return None


class CallableRenderError(object):
    def __call__(self, request, _error, cache):
        return _error


def expect_name_error(func, resources, expected_missing):
    try:
        check_render_error(func, resources)
    except NameError as ne:
        msg = str(ne)
        assert msg == ('unresolved render_error() arguments: %r'
                       % expected_missing), msg
    else:
        raise AssertionError('expected NameError for %r' % (func,))


def direct_checks():
    for resources in ({}, [], (), {'db': 1}, ['db'], ('db', 'db'), set(['db']),
                      {'_error': 1, 'request': 2}):
        assert check_render_error(re_plain, resources) is True
        assert check_render_error(re_all_builtins, resources) is True
        assert check_render_error(re_noargs, resources) is True
        assert check_render_error(re_varkw, resources) is True
        # defaulted arguments still count as arguments
        expect_name_error(re_defaults, resources, ['flavour'])

    assert check_render_error(re_needs_db, {'db': None}) is True
    assert check_render_error(re_needs_db, ['db', 'other']) is True
    assert check_render_error(re_defaults, {'flavour': 0}) is True
    assert check_render_error(CallableRenderError(), {'cache': {}}) is True
    assert check_render_error(re_needs_many,
                              dict(zeta=1, alpha=2, mid=3, db=4)) is True

    expect_name_error(re_needs_db, {}, ['db'])
    expect_name_error(re_needs_db, {'DB': 1}, ['db'])
    expect_name_error(CallableRenderError(), {}, ['cache'])
    # sorted, duplicates impossible
    expect_name_error(re_needs_many, {}, ['alpha', 'db', 'mid', 'zeta'])
    expect_name_error(re_needs_many, {'mid': 1}, ['alpha', 'db', 'zeta'])
    # 'context' and 'next' are not available to render_error functions
    expect_name_error(re_context, {}, ['context'])
    expect_name_error(re_next, {}, ['next'])
    assert check_render_error(re_context, {'context': 1}) is True

    # the resources argument is only read
    res = {'db': 1}
    check_render_error(re_needs_db, res)
    assert res == {'db': 1}
    res_list = ['db']
    check_render_error(re_needs_db, res_list)
    assert res_list == ['db']

    # non-iterable / unhashable resources
    for bad in (None, 5):
        try:
            check_render_error(re_plain, bad)
        except TypeError:
            pass
        else:
            raise AssertionError('expected TypeError')
    try:
        check_render_error(re_plain, [['unhashable']])
    except TypeError:
        pass
    else:
        raise AssertionError('expected TypeError')
    # not a callable with an inspectable signature
    for bad_func in (None, 3):
        try:
            check_render_error(bad_func, {})
        except Exception as e:
            assert not isinstance(e, NameError), e
        else:
            raise AssertionError('expected an error')


# ------------------------------------------------------------ applications

def ep_ok():
    return Response('ok')


def ep_db(db):
    return Response('db=%s' % (db,))


def ep_missing():
    raise NotFound()


def render_error_db(request, _error, db, **kwargs):
    return Response('custom error via %s: %s' % (db, _error.code), status=_error.code)


class DBErrorHandler(ErrorHandler):
    def render_error(self, request, _error, db, **kwargs):
        return Response('handler error via %s: %s' % (db, _error.code),
                        status=_error.code)


PATHS = ['/', '/ok', '/db', '/missing', '/nowhere', '/sub/ok', '/sub/missing']


def app_checks():
    # route-level render_error checked against route resources at construction
    try:
        Route('/x', ep_ok, render_error=render_error_db)
    except NameError as ne:
        assert "['db']" in str(ne)
    else:
        raise AssertionError('expected NameError')
    rt_own = Route('/missing', ep_missing, render_error=render_error_db,
                   resources={'db': 'route-db'})
    # a non-callable render_error is not checked at all
    Route('/x', ep_ok, render_error='not callable')

    plain = Application([('/ok', ep_ok), ('/missing', ep_missing)])
    with_db = Application([('/ok', ep_ok), ('/db', ep_db), ('/missing', ep_missing)],
                          resources={'db': 'app-db'})
    live = [plain, with_db]
    before = [snapshot(a, PATHS) for a in live]

    # error handler needing a resource: constructor fails without it ...
    try:
        Application([('/ok', ep_ok)], error_handler=DBErrorHandler())
    except NameError as ne:
        assert str(ne) == "unresolved render_error() arguments: ['db']", str(ne)
    else:
        raise AssertionError('expected NameError')
    assert [snapshot(a, PATHS) for a in live] == before

    # ... and works with it
    handled = Application([('/ok', ep_ok), ('/missing', ep_missing)],
                          resources={'db': 'handled-db'},
                          error_handler=DBErrorHandler())
    assert text(handled, '/missing') == (404, 'handler error via handled-db: 404')
    assert text(handled, '/nowhere') == (404, 'handler error via handled-db: 404')
    live.append(handled)
    before = [snapshot(a, PATHS) for a in live]

    # binding a route whose resources satisfy its own render_error:
    # rebind_render_error=False keeps the route's render_error
    rt_snapshot = dict(vars(rt_own))
    br = rt_own.bind(plain, rebind_render_error=False)
    assert isinstance(br, BoundRoute)
    assert br.render_error is render_error_db
    assert br.resources == {'db': 'route-db'}
    assert vars(rt_own) == rt_snapshot
    assert [snapshot(a, PATHS) for a in live] == before  # bind() alone adds nothing

    # embedding `handled` (its routes need nothing special) into `plain`
    # rebinding the error renderer to plain's handler works, and leaves
    # `handled` alone
    plain.add(('/sub', handled), index=0)
    assert patterns(plain) == ['/sub/ok', '/sub/missing', '/ok', '/missing']
    assert text(plain, '/sub/ok') == (200, 'ok')
    assert text(plain, '/sub/missing')[0] == 404
    assert 'handler error' not in text(plain, '/sub/missing')[1]
    assert snapshot(handled, PATHS) == before[2]
    assert snapshot(with_db, PATHS) == before[1]
    before = [snapshot(a, PATHS) for a in live]

    # embedding `handled` WITHOUT rebinding the error renderer: its bound
    # routes carry DBErrorHandler.render_error and their own merged
    # resources (db), so the check passes in an application without 'db'
    target = Application([('/', ep_ok)], resources={'cache': 1})
    live.append(target)
    before = [snapshot(a, PATHS) for a in live]
    target.add(SubApplication('/h', handled), rebind_render_error=False)
    assert patterns(target) == ['/', '/h/ok', '/h/missing']
    assert text(target, '/h/missing') == (404, 'handler error via handled-db: 404')
    assert text(target, '/nowhere')[0] == 404
    assert 'handler error' not in text(target, '/nowhere')[1]
    assert snapshot(handled, PATHS) == before[2]
    before = [snapshot(a, PATHS) for a in live]

    # a failing add: a route whose render_error (assigned after construction,
    # so never checked) needs 'db', added without rebinding to apps lacking 'db'
    loose = Route('/loose', ep_missing)
    loose.render_error = render_error_db
    for app in (plain, target):
        for index in (0, 1, None):
            try:
                app.add(loose, index=index, rebind_render_error=False)
            except NameError as ne:
                assert str(ne) == "unresolved render_error() arguments: ['db']", str(ne)
            else:
                raise AssertionError('expected NameError')
            assert [snapshot(a, PATHS) for a in live] == before
    # the same route binds fine where 'db' exists, at the requested index
    with_db.add(loose, index=1, rebind_render_error=False)
    assert patterns(with_db) == ['/ok', '/loose', '/db', '/missing']
    assert text(with_db, '/loose') == (404, 'custom error via app-db: 404')
    assert loose.render_error is render_error_db and loose.resources == {}
    # and with the default (rebinding to the application's handler) anywhere
    target.add(loose)
    assert patterns(target) == ['/', '/h/ok', '/h/missing', '/loose']
    assert text(target, '/loose')[0] == 404

    # failing as the k-th route of an embedded application
    def render_error_zzz(request, _error, zzz, aaa):
        return _error
    inner = Application([('/a', ep_ok), ('/loose', ep_missing), ('/c', ep_ok)],
                        resources={'db': 'inner'})
    inner.routes[1].render_error = render_error_zzz
    live.append(inner)
    more_paths = PATHS + ['/a', '/loose', '/c', '/in/a', '/in/c']
    before = [snapshot(a, more_paths) for a in live]
    for app in (plain, target, with_db):
        for index in (0, 2, None):
            try:
                app.add(('/in', inner), index=index, rebind_render_error=False)
            except NameError as ne:
                assert str(ne) == ("unresolved render_error() arguments: "
                                   "['aaa', 'zzz']"), str(ne)
            else:
                raise AssertionError('expected NameError')
            assert [snapshot(a, more_paths) for a in live] == before
    # with rebinding (the default) the embedding succeeds, contiguously
    target.add(('/in', inner), index=1)
    assert patterns(target) == ['/', '/in/a', '/in/loose', '/in/c',
                                '/h/ok', '/h/missing', '/loose']
    assert text(target, '/in/a') == (200, 'ok')
    assert snapshot(inner, more_paths) == before[-1]
    assert inner.routes[1].render_error is render_error_zzz

    # set_error_handler with an unsatisfiable handler fails and keeps the old one
    old_handler = plain.error_handler
    snap = snapshot(plain, PATHS)
    try:
        plain.set_error_handler(DBErrorHandler())
    except NameError:
        pass
    else:
        raise AssertionError('expected NameError')
    assert plain.error_handler is old_handler
    assert snapshot(plain, PATHS) == snap


if __name__ == '__main__':
    direct_checks()
    app_checks()
    print('PASS')
