# -*- coding: utf-8 -*-
"""demo3: Application.dispatch always ends in a complete response.

Behaviours (return Response / non-Response, raise anything, raise or return an
HTTPException, breaking or not) x position in the middleware stack x error
handler (default, contextual, re-raising, broken render_error, render_error
returning another error) x Accept headers, plus slash redirects, 404/405 and
sequences of failing / succeeding requests against one application.

Prints PASS and exits 0 on success.
"""
import json
import itertools

from werkzeug.test import EnvironBuilder
from werkzeug.wrappers import BaseResponse

from clastic import (Application, SubApplication, Route, GET, POST, render_basic, Response,
                     S_STRICT, S_REDIRECT, S_REWRITE)
from clastic.application import RerouteWSGI
from clastic.middleware import Middleware
from clastic.errors import (HTTPException, ErrorHandler, ContextualErrorHandler, InternalServerError,
                            BadGateway, NotFound, Forbidden, ImATeapot, MIME_SUPPORT_MAP)
import clastic.errors as errors_mod


class CustomError(Exception):
    pass


class Unprintable(Exception):
    def __str__(self):
        raise RuntimeError('no str for you')
    __repr__ = __str__


RAISED = [ValueError('plain'), KeyError(u'k\xe9y ☃'), ZeroDivisionError(), RuntimeError('x' * 20000),
          OSError(13, 'denied'), AssertionError(), StopIteration('stop'), UnicodeEncodeError('ascii', u'\xe9', 0, 1, 'x'),
          NotImplementedError(), CustomError({'a': object()}), Unprintable(), RecursionError('deep'),
          TypeError(None), AttributeError(b'\xff\xfe')]

ACCEPTS = [None, 'text/html', 'application/json', 'application/xml', 'text/plain', 'x/y, */*;q=0.1', ';;']


# --------------------------------------------------------------------------
# behaviours: name -> (callable doing it, expectation)
# expectation: ('ok', body) | ('500',) | ('http', code)
# --------------------------------------------------------------------------
def behave(kind, payload=None):
    if kind == 'response':
        return Response('fine')
    if kind == 'value':
        return payload
    if kind == 'raise':
        raise payload
    if kind == 'return_http':
        return payload
    raise AssertionError(kind)


class ActingMiddleware(Middleware):
    """Misbehaves in one of its three hooks when the request asks for it."""
    def __init__(self, name):
        self.tag = name

    def _act(self, where, request, plan):
        mine = plan.get((self.tag, where))
        if mine is not None:
            return True, behave(*mine)
        return False, None

    def request(self, next, request, plan):
        acted, ret = self._act('request', request, plan)
        return ret if acted else next()

    def endpoint(self, next, request, plan):
        acted, ret = self._act('endpoint', request, plan)
        return ret if acted else next()

    def render(self, next, request, plan, context):
        acted, ret = self._act('render', request, plan)
        return ret if acted else next()


class PlanMiddleware(Middleware):
    provides = ('plan',)

    def __init__(self, holder):
        self.holder = holder

    def request(self, next):
        return next(plan=self.holder['plan'])


def endpoint(plan):
    mine = plan.get(('endpoint', 'endpoint'))
    if mine is not None:
        return behave(*mine)
    return {'ctx': 1}


def render(plan, context):
    mine = plan.get(('render', 'render'))
    if mine is not None:
        return behave(*mine)
    return Response('rendered')


POSITIONS = ([(mw, hook) for mw in ('outer', 'middle', 'inner') for hook in ('request', 'endpoint', 'render')]
             + [('endpoint', 'endpoint'), ('render', 'render')])


# --------------------------------------------------------------------------
# error handlers
# --------------------------------------------------------------------------
class BrokenRenderHandler(ErrorHandler):
    def render_error(self, request, _error, **kwargs):
        raise LookupError('render_error is broken')


class HTTPRaisingRenderHandler(ContextualErrorHandler):
    def render_error(self, request, _error, **kwargs):
        raise Forbidden('render_error raised an http error')


class SwappingHandler(ErrorHandler):
    def render_error(self, request, _error, **kwargs):
        return ImATeapot('swapped for %s' % _error.code)


class NonResponseRenderHandler(ErrorHandler):
    def render_error(self, request, _error, **kwargs):
        return 'whatever'   # dispatch hands this on, as is


class TeapotHandler(ErrorHandler):
    class server_error_type(InternalServerError):
        code = 599
        message = 'custom server error'


HANDLERS = [lambda: None, ErrorHandler, ContextualErrorHandler, BrokenRenderHandler,
            HTTPRaisingRenderHandler, SwappingHandler, TeapotHandler]


def mimetype_of(resp):
    return resp.headers['Content-Type'].split(';')[0].strip().lower()


def fetch(app, path='/', accept=None, method='GET', **kw):
    headers = {} if accept is None else {'Accept': accept}
    resp = app.get_local_client().open(path, method=method, headers=headers, **kw)
    assert isinstance(resp, BaseResponse)
    body = resp.get_data()   # iterates the body to the end
    assert isinstance(body, bytes)
    code, _, reason = resp.status.partition(' ')
    assert code.isdigit() and int(code) == resp.status_code
    return resp


def build_app(handler, holder, debug=None):
    mws = [PlanMiddleware(holder)] + [ActingMiddleware(n) for n in ('outer', 'middle', 'inner')]
    routes = [('/', endpoint, render),
              ('/plain', lambda: Response('plain ok'))]
    return Application(routes, middlewares=mws, error_handler=handler, debug=debug)


def check_matrix():
    for mk_handler in HANDLERS:
        holder = {'plan': {}}
        app = build_app(mk_handler(), holder)
        handler = app.error_handler
        se_code = handler.server_error_type.code
        swapped = isinstance(handler, SwappingHandler)
        # (the contextual pages are expensive to render)
        stride = 6 if isinstance(handler, ContextualErrorHandler) else 3
        served = 0

        def expect_error(resp, code, needle=None):
            if swapped:
                assert resp.status_code == 418 and ('swapped for %s' % code) in resp.get_data(True)
                return
            assert resp.status_code == code, (handler, resp.status, code)
            assert mimetype_of(resp) in MIME_SUPPORT_MAP
            if needle is not None and mimetype_of(resp) == 'text/plain':
                assert needle in resp.get_data(True), (needle, resp.get_data(True)[:300])

        for (pi, pos), (ai, accept) in itertools.product(enumerate(POSITIONS), enumerate(ACCEPTS)):
            # the full spread of behaviours without Accept header; a thinner
            # spread for a rotating third of the other position/Accept pairs
            small = accept is None
            if not small and (pi + ai) % stride:
                continue
            # 1. returning a Response from anywhere is that response
            holder['plan'] = {pos: ('response',)}
            resp = fetch(app, '/', accept)
            assert resp.status_code == 200 and resp.get_data() == b'fine'

            # 2. non-Response values surfacing from the chain -> server error
            for value in ((None, 0, '', 'text', 3.5, {'a': 1}, [Response('in a list')], object()) if small
                          else (None, 'text')):
                holder['plan'] = {pos: ('value', value)}
                resp = fetch(app, '/', accept)
                if pos[1] == 'endpoint':
                    # an endpoint-level value is the render context; render answers
                    assert resp.status_code == 200 and resp.get_data() == b'rendered'
                    continue
                expect_error(resp, se_code, 'expected Response, received')
                if type(handler) is ErrorHandler and mimetype_of(resp) == 'text/plain':
                    text = resp.get_data(True)
                    assert "(1 frames, last=Callpoint('dispatch'" in text, text[:300]
                    assert "raise TypeError(msg)" in text
                    assert 'exceptions.TypeError' in text

            # 3. raising anything -> server error (never an escaping exception)
            for exc in (RAISED[::stride // 3] if small else RAISED[:3]):
                holder['plan'] = {pos: ('raise', exc)}
                resp = fetch(app, '/', accept)
                expect_error(resp, se_code, type(exc).__name__)
                if mimetype_of(resp) == 'application/json' and not swapped:
                    data = json.loads(resp.get_data(True))
                    assert data['code'] == se_code

            # 4. raising / returning HTTPExceptions -> their own status
            for kind in ('raise', 'return_http'):
                for mk in (lambda: BadGateway('gw detail'), lambda: NotFound('nf detail'),
                           lambda: InternalServerError('ise detail'), lambda: ImATeapot(),
                           lambda: Forbidden('soft', is_breaking=False)):
                    err = mk()
                    holder['plan'] = {pos: (kind, err)}
                    resp = fetch(app, '/', accept)
                    if swapped:
                        assert resp.status_code == 418
                    elif not err.is_breaking:
                        # no other route matches '/', so the null route reports the stored error
                        assert resp.status_code == 403, resp.status
                    else:
                        assert resp.status_code == err.code, (pos, kind, err, resp.status)
                        if mimetype_of(resp) == 'text/plain' and err.code != 418:
                            assert 'detail' in resp.get_data(True)
                    assert err.source_route is not None

            # 5. and the very same application still works
            holder['plan'] = {}
            resp = fetch(app, '/', accept)
            assert resp.status_code == 200 and resp.get_data() == b'rendered'
            resp = fetch(app, '/plain', accept)
            assert resp.status_code == 200 and resp.get_data() == b'plain ok'
            resp = fetch(app, '/nope', accept)
            assert resp.status_code == (418 if swapped else 404)
            served += 1
        assert served >= len(POSITIONS) * len(ACCEPTS) // stride


def check_nonresponse_render_error():
    # a render_error returning a non-Response is not dispatch's business: the
    # WSGI layer then fails calling it. (documented oddity, must stay as is)
    app = Application([('/', lambda: None)], error_handler=NonResponseRenderHandler())
    env = EnvironBuilder(path='/').get_environ()
    from werkzeug.wrappers import Request
    assert app.dispatch(Request(env)) == 'whatever'


def check_reraise():
    for exc in RAISED:
        holder = {'plan': {}}
        app = build_app(ErrorHandler(reraise_uncaught=True), holder)
        for pos in POSITIONS:
            holder['plan'] = {pos: ('raise', exc)}
            try:
                fetch(app, '/')
            except Exception as e:
                assert e is exc, (e, exc)
                # the escaping traceback still ends where the exception was raised
                tb = e.__traceback__
                while tb.tb_next is not None:
                    tb = tb.tb_next
                assert tb.tb_frame.f_code.co_name == 'behave'
            else:
                raise AssertionError('%r did not escape' % (exc,))
            # non-Response: a TypeError made by dispatch escapes
            holder['plan'] = {pos: ('value', None)}
            if pos[1] != 'endpoint':
                try:
                    fetch(app, '/')
                except TypeError as e:
                    assert 'expected Response, received' in str(e)
                else:
                    raise AssertionError('TypeError did not escape')
            # HTTPExceptions never escape
            holder['plan'] = {pos: ('raise', BadGateway())}
            assert fetch(app, '/').status_code == 502
            holder['plan'] = {}
            assert fetch(app, '/').get_data() == b'rendered'
            assert fetch(app, '/missing').status_code == 404


def check_routing_errors_and_redirects():
    def soft_404():
        raise NotFound('first route passes', is_breaking=False)

    def soft_403():
        return Forbidden('second route passes', is_breaking=False)

    def boom():
        raise CustomError('boom')

    for mk_handler, debug in [(lambda: None, None), (lambda: None, True), (ErrorHandler, None),
                              (BrokenRenderHandler, None), (HTTPRaisingRenderHandler, True)]:
        routes = [GET('/fall', soft_404), GET('/fall', soft_403), GET('/fall', lambda: Response('third')),
                  GET('/fall2', soft_404), GET('/fall2', soft_403),
                  GET('/fall3', soft_403), GET('/fall3', boom),
                  POST('/post', lambda: Response('posted')),
                  Route('/dir/', lambda: Response('dir')),
                  Route('/dir/<name>/', lambda name: Response('name=' + name)),
                  ('/num/<n:int>', lambda n: Response('n=%s' % n)),
                  ('/boom', boom)]
        app = Application(routes, error_handler=mk_handler(), debug=debug)
        strict_app = Application([Route('/strict/', lambda: Response('strict')), ('/boom/', boom)],
                                 error_handler=mk_handler(), debug=debug, slash_mode=S_STRICT)
        rewrite_app = Application([Route('/rewrite/', lambda: Response('rewrite')), ('/boom/', boom)],
                                  error_handler=mk_handler(), debug=debug, slash_mode=S_REWRITE)
        for accept in ACCEPTS:
            assert fetch(app, '/fall', accept).get_data() == b'third'
            assert fetch(app, '/fall2', accept).status_code == 403      # the last stored one
            assert fetch(app, '/fall3', accept).status_code == 500
            assert fetch(app, '/post', accept).status_code == 405
            resp = fetch(app, '/post', accept, method='DELETE')
            assert resp.status_code == 405
            assert fetch(app, '/post', accept, method='POST').get_data() == b'posted'
            assert fetch(app, '/num/12', accept).get_data() == b'n=12'
            assert fetch(app, '/num/twelve', accept).status_code == 404
            assert fetch(app, '/boom', accept).status_code == 500
            assert fetch(app, '/', accept).status_code == 404
            assert fetch(app, '//..//%00', accept).status_code == 404

            # slashes
            assert fetch(app, '/dir/', accept).get_data() == b'dir'
            assert fetch(strict_app, '/strict/', accept).get_data() == b'strict'
            for path in ('/strict', '/strict//', '/boom', '/boom//'):
                assert fetch(strict_app, path, accept).status_code == 404
            assert fetch(strict_app, '/boom/', accept).status_code == 500
            for path in ('/rewrite', '/rewrite/', '/rewrite//'):
                assert fetch(rewrite_app, path, accept).get_data() == b'rewrite'
            for path in ('/boom', '/boom/', '/boom//'):
                assert fetch(rewrite_app, path, accept).status_code == 500
            for path, qs, location in [
                    ('/dir', '', 'http://localhost/dir/'),
                    ('/dir', 'a=1&b=2', 'http://localhost/dir/?a=1&b=2'),
                    ('//dir//', 'q=%20x', 'http://localhost/dir/?q=%20x'),
                    ('/dir/a%3Fb', 'z', 'http://localhost/dir/a%3Fb/?z'),
                    ('/dir/h%23sh', '', 'http://localhost/dir/h%23sh/'),
                    ('/dir/p%25c', 'x=%ff', 'http://localhost/dir/p%25c/?x=%ff'),
                    ('/dir/sp%20ace', u'☃'.encode('utf8'), 'http://localhost/dir/sp%20ace/?%E2%98%83'),
                    ('/dir/x', b'\xff\xfe=1', 'http://localhost/dir/x/?%FF%FE=1')]:
                env = EnvironBuilder(path='/').get_environ()
                from urllib.parse import unquote_to_bytes
                env['PATH_INFO'] = unquote_to_bytes(path).decode('latin1')
                env['QUERY_STRING'] = qs if isinstance(qs, str) else qs.decode('latin1')
                if accept is not None:
                    env['HTTP_ACCEPT'] = accept
                resp = app.get_local_client().open(env)
                assert resp.status_code == 302, (path, resp.status)
                loc = resp.headers['Location']
                assert loc.startswith('http://localhost/dir/'), loc
                if location is not None:
                    assert loc == location, (loc, location)
                assert isinstance(resp.get_data(), bytes)


def check_subapp_and_reroute():
    def boom():
        raise CustomError('sub boom')

    inner = Application([('/boom', boom), ('/teapot', lambda: ImATeapot('short and stout')),
                         ('/ok', lambda: Response('inner ok'))])
    outer = Application([('/in', inner), ('/ok', lambda: Response('outer ok'))], error_handler=SwappingHandler())
    assert fetch(outer, '/in/ok').get_data() == b'inner ok'
    # routes re-bound into the outer app render errors the outer app's way
    assert fetch(outer, '/in/boom').status_code == 418
    assert fetch(outer, '/in/teapot').status_code == 418
    assert fetch(inner, '/boom').status_code == 500
    assert fetch(inner, '/teapot').status_code == 418

    def other_wsgi(environ, start_response):
        start_response('200 OK', [('Content-Type', 'text/plain')])
        return [b'rerouted']

    def rerouter():
        raise RerouteWSGI(other_wsgi)

    app = Application([('/r', rerouter), ('/r2', RerouteWSGI(other_wsgi)), ('/boom', boom)])
    for _ in range(2):
        assert fetch(app, '/r').get_data() == b'rerouted'
        assert fetch(app, '/r2').get_data() == b'rerouted'
        assert fetch(app, '/boom').status_code == 500


def check_handler_swapped_mid_request():
    # dispatch consults the error handler it saw when the request came in
    holder = {}

    def swap_and_boom(_application):
        _application.error_handler = holder['other']
        raise CustomError('swapped mid-flight')

    app = Application([('/', swap_and_boom)])
    first = app.error_handler
    holder['other'] = TeapotHandler()
    resp = fetch(app, '/')
    # uncaught_to_response is called on the handler captured at the start of
    # dispatch, which then looks up the *application's* current handler for the type
    assert resp.status_code == 599
    holder['other'] = first
    app.error_handler = ErrorHandler(reraise_uncaught=True)
    try:
        fetch(app, '/')
    except CustomError:
        pass
    else:
        raise AssertionError('the handler captured at the start of dispatch re-raises')
    assert app.error_handler is first
    assert fetch(app, '/').status_code == 500


def check_sequences():
    holder = {'plan': {}}
    app = build_app(None, holder, debug=True)
    plans = [{}, {('inner', 'render'): ('raise', KeyError('a'))}, {}, {('outer', 'request'): ('value', 7)},
             {('endpoint', 'endpoint'): ('return_http', BadGateway())}, {},
             {('render', 'render'): ('raise', Unprintable())}, {}]
    expected = [200, 500, 200, 500, 502, 200, 500, 200]
    n_routes = len(app.routes)
    for _ in range(3):
        for plan, code in zip(plans, expected):
            holder['plan'] = plan
            for accept in ACCEPTS:
                assert fetch(app, '/', accept).status_code == code
        assert len(app.routes) == n_routes and app.error_handler is not None


def main():
    check_matrix()
    check_nonresponse_render_error()
    check_reraise()
    check_routing_errors_and_redirects()
    check_subapp_and_reroute()
    check_handler_swapped_mid_request()
    check_sequences()
    print('PASS')


if __name__ == '__main__':
    main()
