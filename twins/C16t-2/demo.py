# -*- coding: utf-8 -*-
"""demo2: SignedCookieMiddleware.request -- load, provide, stamp the expiry,
save -- under the three kinds of expiry settings, custom names and cookie
flags, with a controllable clock.

Prints PASS and exits 0 when every assertion holds.
"""
import os
import sys
import json
import math
import time

sys.path.insert(0, os.path.dirname(os.path.abspath(__file__)))

from werkzeug.http import cookie_date as http_date
from werkzeug.test import Client
from werkzeug.wrappers import Response
import secure_cookie.cookie as sc_module

import clastic
from clastic import Application, render_basic
from clastic.middleware.cookie import (JSONCookie, SignedCookieMiddleware,
                                       NEVER, SESSION, DEFAULT_EXPIRY)

HERE = os.path.dirname(os.path.abspath(__file__))
assert os.path.abspath(clastic.__file__).startswith(HERE), clastic.__file__

KEY = b'demo2 secret'


class Clock(object):
    def __init__(self):
        self.t = float(int(time.time()))  # real "now", so dates are sane

    def __call__(self):
        return self.t


CLOCK = Clock()
time.time = CLOCK            # clastic reads time.time()
sc_module.time = CLOCK       # secure_cookie did ``from time import time``


def handle(request, cookie):
    before = dict(cookie)
    op = request.args.get('op', 'read')
    if op == 'set':
        cookie[request.args['k']] = json.loads(request.args['v'])
    elif op == 'del':
        cookie.pop(request.args['k'], None)
    elif op == 'clear':
        cookie.clear()
    elif op == 'expire_now':
        cookie.set_expires()
    elif op == 'expire_at':
        cookie.set_expires(float(request.args['at']))
    else:
        assert op == 'read'
    return json.dumps({'before': before, 'after': dict(cookie), 'new': cookie.new})


def ep_cookie(request, cookie):
    return handle(request, cookie)


def ep_sess(request, sess):
    return handle(request, sess)


class Browser(object):
    def __init__(self, app, cookie_name):
        self.client = Client(app, Response, use_cookies=False)
        self.cookie_name = cookie_name
        self.jar = None          # raw cookie value as the server sent it
        self.last_header = None

    def call(self, op='read', send='jar', keep=True, **params):
        headers = []
        value = self.jar if send == 'jar' else send
        if value is not None:
            headers.append(('Cookie', '%s=%s' % (self.cookie_name, value)))
        params['op'] = op
        resp = self.client.get('/', query_string=params, headers=headers)
        assert resp.status_code == 200, (resp.status_code, value, resp.data[:300])
        set_cookie = resp.headers.getlist('Set-Cookie')
        assert len(set_cookie) <= 1, set_cookie
        self.last_header = set_cookie[0] if set_cookie else None
        if set_cookie:
            name, _, rest = set_cookie[0].partition('=')
            if keep:
                assert name == self.cookie_name, set_cookie
            if keep and send == 'jar':
                self.jar = rest.split(';', 1)[0]
        return json.loads(resp.data.decode('utf8'))

    def attrs(self):
        "attributes of the last Set-Cookie header, lower-cased names"
        if self.last_header is None:
            return None
        ret = {}
        for part in self.last_header.split(';')[1:]:
            k, _, v = part.strip().partition('=')
            ret[k.lower()] = v
        return ret

    def stored(self, key=KEY):
        "what is really inside the jar (including the expiry stamp)"
        return _peek(self.jar, key)


def _peek(raw, key):
    # decode without expiry handling: verify with JSONCookie at a frozen early time
    saved = CLOCK.t
    CLOCK.t = 0.0
    try:
        signed = JSONCookie.unserialize(raw.strip('"'), key)
    finally:
        CLOCK.t = saved
    # (at t=0 no stamp has passed; the stamp itself is consumed by unserialize)
    return dict(signed)


def make(ep=ep_cookie, **kw):
    kw.setdefault('secret_key', KEY)
    mw = SignedCookieMiddleware(**kw)
    app = Application([('/', ep, render_basic)], middlewares=[mw])
    return mw, app


def check_never_and_session():
    assert SESSION == 0 and DEFAULT_EXPIRY == SESSION and NEVER == 'never'
    for kw in [dict(expiry=NEVER), dict(expiry=SESSION), dict(), dict(expiry=0.0),
               dict(expiry=False)]:
        mw, app = make(**kw)
        assert mw.provides == ('cookie',) and mw.cookie_name == 'clastic_cookie'
        b = Browser(app, 'clastic_cookie')
        body = b.call()
        assert body == {'before': {}, 'after': {}, 'new': True}
        assert b.last_header is None             # nothing to save
        body = b.call('set', k='n', v='[1, {"a": null}]')
        assert body['before'] == {} and body['after'] == {'n': [1, {'a': None}]}
        at = b.attrs()
        assert at == {'path': '/'}, at            # session cookie: no Expires, no flags
        first = b.jar
        CLOCK.t += 10 ** 7                        # months later: still there
        body = b.call()
        assert body == {'before': {'n': [1, {'a': None}]},
                        'after': {'n': [1, {'a': None}]}, 'new': False}
        assert b.last_header is None and b.jar == first
        # setting the same value again still counts as a modification
        b.call('set', k='n', v='[1, {"a": null}]')
        assert b.last_header is not None and b.jar == first
        b.call('set', k='m', v='""')
        assert b.call()['before'] == {'n': [1, {'a': None}], 'm': ''}
        b.call('del', k='n')
        assert b.call()['before'] == {'m': ''}
        b.call('clear')
        assert b.last_header is not None
        assert b.call() == {'before': {}, 'after': {}, 'new': False}
        # the old cookie is still validly signed: a replay shows the old data
        assert b.call(send=first)['before'] == {'n': [1, {'a': None}]}

        # application-chosen expiry is honoured, for data and for the header
        b.call('set', k='x', v='1')
        when = CLOCK.t + 50
        body = b.call('expire_at', at=repr(when))
        assert body['after'] == {'x': 1, '_expires': when}
        assert b.attrs() == {'path': '/', 'expires': http_date(when)}, b.attrs()
        CLOCK.t = when                            # not yet *past* the stamp
        assert b.call()['before'] == {'x': 1}
        assert b.last_header is None
        CLOCK.t = math.nextafter(when, math.inf)
        assert b.call() == {'before': {}, 'after': {}, 'new': False}
        CLOCK.t = when - 1
        assert b.call()['before'] == {'x': 1}
        # the stamp was consumed on load; saving now yields a stamp-less cookie
        b.call('set', k='y', v='2')
        assert b.attrs() == {'path': '/'}
        CLOCK.t = when + 1000
        assert b.call()['before'] == {'x': 1, 'y': 2}
        # expire "now" = long ago
        body = b.call('expire_now')
        assert body['after'] == {'x': 1, 'y': 2, '_expires': 123456}
        assert b.attrs() == {'path': '/', 'expires': http_date(123456)}
        assert b.call() == {'before': {}, 'after': {}, 'new': False}


def check_numeric():
    # (secure_cookie truncates stamps to whole seconds, so the clock and the
    # settings used here are whole numbers)
    mw, app = make(expiry=True)    # compared with ``!=``, so this is "1 second"
    b = Browser(app, 'clastic_cookie')
    b.call()
    assert b.attrs() == {'path': '/', 'expires': http_date(CLOCK.t + 1)}, b.attrs()

    for E in [100, 4, 86400.0]:
        mw, app = make(expiry=E)
        b = Browser(app, 'clastic_cookie')
        t0 = CLOCK.t
        body = b.call()
        # even a read stamps (and therefore saves) the cookie
        assert body == {'before': {}, 'after': {}, 'new': True}
        assert b.attrs() == {'path': '/', 'expires': http_date(t0 + E)}, b.attrs()
        body = b.call('set', k='who', v=json.dumps(u'Kurt ☃'))
        assert body['before'] == {} and body['after'] == {'who': u'Kurt ☃'}
        assert b.attrs() == {'path': '/', 'expires': http_date(t0 + E)}
        original = b.jar
        # sliding window: every request re-stamps relative to "now"
        CLOCK.t = t0 + 0.75 * E
        assert b.call()['before'] == {'who': u'Kurt ☃'}
        assert b.attrs()['expires'] == http_date(t0 + 0.75 * E + E)
        CLOCK.t = t0 + 1.5 * E
        assert b.call()['before'] == {'who': u'Kurt ☃'}
        slid = b.jar
        # ...but the cookie from t0 carries its own (signed) stamp
        assert b.call(send=original) == {'before': {}, 'after': {}, 'new': False}
        CLOCK.t = t0 + E            # exactly at the stamp: not yet passed
        assert b.call(send=original)['before'] == {'who': u'Kurt ☃'}
        CLOCK.t = math.nextafter(t0 + E, math.inf)
        assert b.call(send=original)['before'] == {}
        # the stamp cannot be pushed back by the client
        CLOCK.t = t0 + 1.5 * E + E + 1
        assert b.call(send=slid)['before'] == {}
        sig = slid.strip('"').split('?', 1)[0]
        later = JSONCookie({'who': u'Kurt ☃', '_expires': CLOCK.t + 999}, b'guess')
        payload = later.serialize().decode('ascii').split('?', 1)[1]
        assert b.call(send='"%s?%s"' % (sig, payload))['before'] == {}
        b.jar = slid
        body = b.call()
        assert body == {'before': {}, 'after': {}, 'new': False}
        # starting over after expiry works and is stamped afresh
        assert b.attrs() == {'path': '/', 'expires': http_date(CLOCK.t + E)}
        assert b.stored() == {}

        # an application-provided stamp overrides the middleware's
        b.call('set', k='a', v='1')
        when = CLOCK.t + 3 * E
        body = b.call('expire_at', at=repr(when))
        assert body['after'] == {'a': 1, '_expires': when}
        assert b.attrs()['expires'] == http_date(when)
        CLOCK.t += 2 * E
        assert b.call()['before'] == {'a': 1}
        body = b.call('expire_now')
        assert b.attrs()['expires'] == http_date(123456)
        assert b.call()['before'] == {}


def check_names_and_flags():
    mw, app = make(ep=ep_sess, arg_name='sess', cookie_name='sid', domain='example.org',
                   path='/app', secure=True, http_only=True, expiry=60)
    assert mw.provides == ('sess',) and mw.arg_name == 'sess' and mw.cookie_name == 'sid'
    assert repr(mw) == "SignedCookieMiddleware(arg_name='sess', cookie_name='sid')"
    b = Browser(app, 'sid')
    t0 = CLOCK.t
    b.call('set', k='k', v='{"deep": [[], {}]}')
    at = b.attrs()
    assert at == {'domain': 'example.org', 'path': '/app', 'secure': '', 'httponly': '',
                  'expires': http_date(t0 + 60)}, at
    assert b.call()['before'] == {'k': {'deep': [[], {}]}}
    # a cookie of the same content under the default name is not looked at
    other = Browser(app, 'clastic_sess')
    assert other.call(send=b.jar, keep=False) == {'before': {}, 'after': {}, 'new': True}

    mw, app = make(ep=ep_sess, arg_name='sess', expiry=NEVER)
    assert mw.cookie_name == 'clastic_sess'
    b2 = Browser(app, 'clastic_sess')
    b2.call('set', k='k', v='0')
    assert b2.attrs() == {'path': '/'}
    assert b2.call()['before'] == {'k': 0}

    # deprecated spelling of expiry
    import io
    import contextlib
    out = io.StringIO()
    with contextlib.redirect_stdout(out):
        mw, app = make(data_expiry=30, expiry=NEVER)
    assert mw.expiry == 30 and 'deprecated' in out.getvalue()
    b3 = Browser(app, 'clastic_cookie')
    t0 = CLOCK.t
    b3.call()
    assert b3.attrs() == {'path': '/', 'expires': http_date(t0 + 30)}

    # two middlewares / applications with different secrets do not trust each other
    _, app_a = make(secret_key=b'A' * 20, expiry=NEVER)
    _, app_b = make(secret_key=b'B' * 20, expiry=NEVER)
    _, app_r1 = make(secret_key=None, expiry=NEVER)
    _, app_r2 = make(secret_key='', expiry=NEVER)      # falsy: random key as well
    ba, bb = Browser(app_a, 'clastic_cookie'), Browser(app_b, 'clastic_cookie')
    ba.call('set', k='from', v='"a"')
    bb.call('set', k='from', v='"b"')
    assert ba.call()['before'] == {'from': 'a'} and bb.call()['before'] == {'from': 'b'}
    assert ba.call(send=bb.jar)['before'] == {}
    assert bb.call(send=ba.jar)['before'] == {}
    for app_r in (app_r1, app_r2):
        br = Browser(app_r, 'clastic_cookie')
        assert br.call(send=ba.jar)['before'] == {}
        br.call('set', k='r', v='1')
        assert br.call()['before'] == {'r': 1}
        assert ba.call(send=br.jar)['before'] == {}

    # several clients of one application are independent
    _, app = make(expiry=NEVER)
    clients = [Browser(app, 'clastic_cookie') for _ in range(4)]
    for i, c in enumerate(clients):
        c.call('set', k='id', v=str(i))
    for i, c in enumerate(clients):
        assert c.call()['before'] == {'id': i}
    # swapping payloads between two clients' cookies
    s0, p0 = clients[0].jar.strip('"').split('?', 1)
    s1, p1 = clients[1].jar.strip('"').split('?', 1)
    assert clients[0].call(send='"%s?%s"' % (s0, p1))['before'] == {}
    assert clients[0].call(send='"%s?%s"' % (s1, p0))['before'] == {}
    assert clients[0].call(send='"%s?%s"' % (s1, p1))['before'] == {'id': 1}


def check_broken_expiry_setting():
    # an expiry that cannot be added to a time is a configuration error, surfacing
    # only once the middleware tries to stamp (i.e. after the endpoint ran)
    mw, app = make(expiry='tomorrow')
    ran = []
    def ep(cookie):
        ran.append(1)
        return 'ok'
    app = Application([('/', ep, render_basic)], middlewares=[mw])
    cl = Client(app, Response, use_cookies=False)
    try:
        resp = cl.get('/')
        status = resp.status_code
    except TypeError:
        status = 500
    assert status == 500 and ran == [1], (status, ran)


if __name__ == '__main__':
    check_never_and_session()
    check_numeric()
    check_names_and_flags()
    check_broken_expiry_setting()
    print('PASS')
