# -*- coding: utf-8 -*-
"""demo1: uncaught failures become the handler's 500, with focus on how the
InternalServerError (the server_error_type) derives its ``error_type``.

Prints PASS and exits 0 on success.
"""
import sys
import json

from clastic import Application, Route, render_basic, Response
from clastic.errors import (InternalServerError, ContextualInternalServerError,
                            NotImplemented, BadGateway, ServiceUnavailable,
                            GatewayTimeout, HTTPVersionNotSupported,
                            ErrorHandler, ContextualErrorHandler,
                            STDLIB_EXC_URL)
from boltons.tbutils import ExceptionInfo, ContextualExceptionInfo


class CustomError(Exception):
    pass


class print(Exception):  # noqa -- same name as a builtin that is no exception
    pass


class Unprintable(Exception):
    def __str__(self):
        raise RuntimeError('cannot print me')
    __repr__ = __str__


BUILTIN_EXCS = [ValueError('v'), KeyError('k'), ZeroDivisionError(), RuntimeError(u'☃ snow'),
                OSError(2, 'nope'), LookupError('x' * 5000), AssertionError(), NotImplementedError(),
                UnicodeDecodeError('utf8', b'\xff', 0, 1, 'bad'), StopIteration(), MemoryError(),
                AttributeError('a'), TypeError(''), IndexError(0)]


def make_raiser(exc):
    def raiser():
        raise exc
    return raiser


def exc_info_of(exc, ei_type=ExceptionInfo):
    try:
        raise exc
    except Exception:
        return ei_type.from_current()


def check_direct_construction():
    # no exc_info, no error_type -> stays None
    for cls in (InternalServerError, NotImplemented, BadGateway, ServiceUnavailable,
                GatewayTimeout, HTTPVersionNotSupported, ContextualInternalServerError):
        e = cls()
        assert e.error_type is None, (cls, e.error_type)
        assert e.exc_info is None
        assert e.code == cls.code and e.status_code == cls.code
        assert 'Error type' not in e.get_data(True)
        e = cls('some detail', exc_info=None)
        assert e.error_type is None

    # builtin exception -> stdlib link, for both exc info flavours
    for ei_type in (ExceptionInfo, ContextualExceptionInfo):
        for exc in BUILTIN_EXCS:
            ei = exc_info_of(exc, ei_type)
            e = InternalServerError(repr(ei), exc_info=ei)
            expected = STDLIB_EXC_URL + type(exc).__name__
            if type(exc) is OSError and ei.exc_type != 'OSError':
                expected = STDLIB_EXC_URL + getattr(__import__('builtins'), ei.exc_type).__name__
            assert e.error_type == expected, (exc, e.error_type)
            assert e.exc_info is ei
            # the text body was produced before the link was derived
            assert 'Error type' not in e.get_data(True)
            e.adapt('text/plain')
            assert ('Error type: ' + expected) in e.get_data(True)

    # non-stdlib exceptions -> None
    for exc in (CustomError('c'), Unprintable()):
        ei = exc_info_of(exc)
        e = InternalServerError('d', exc_info=ei)
        assert e.error_type is None, e.error_type

    # name clash with a builtin that is not an exception: still "linked"
    ei = exc_info_of(print('p'))
    e = InternalServerError('d', exc_info=ei)
    assert e.error_type == STDLIB_EXC_URL + 'print', e.error_type

    # explicit error_type wins, also when falsy-but-not-None
    ei = exc_info_of(ValueError('v'))
    for explicit in ('my-type', 'http://example.com/t', '', 0, False, (), 12):
        e = InternalServerError('d', exc_info=ei, error_type=explicit)
        assert e.error_type == explicit and type(e.error_type) is type(explicit), (explicit, e.error_type)
        e = ContextualInternalServerError('d', exc_info=ei, error_type=explicit, request=None)
        assert e.error_type == explicit and type(e.error_type) is type(explicit)
    e = InternalServerError('d', exc_info=ei, error_type=None)
    assert e.error_type == STDLIB_EXC_URL + 'ValueError'

    # bogus exc_info objects are tolerated
    for bogus in (object(), 'string', 42, {'exc_type': 'ValueError'}):
        e = InternalServerError('d', exc_info=bogus)
        assert e.error_type is None and e.exc_info is bogus

    class FakeInfo(object):
        exc_type = 'KeyError'
    e = InternalServerError('d', exc_info=FakeInfo())
    assert e.error_type == STDLIB_EXC_URL + 'KeyError'

    class NonStrInfo(object):
        exc_type = 13
    e = InternalServerError('d', exc_info=NonStrInfo())
    assert e.error_type is None

    # constructor returns normally / subclass constructors still run to completion
    class Sub(InternalServerError):
        def __init__(self, *a, **kw):
            super(Sub, self).__init__(*a, **kw)
            self.after = True
    assert Sub(error_type='x').after and Sub().after and Sub(exc_info=ei).after

    # to_dict
    d = InternalServerError('d', exc_info=ei).to_dict()
    assert d['error_type'] == STDLIB_EXC_URL + 'ValueError' and d['exc_info']['exc_type'] == 'ValueError'
    assert InternalServerError().to_dict()['exc_info'] is None


ACCEPTS = [None, 'text/plain', 'text/html', 'application/json', 'application/xml',
           '*/*', 'image/png', 'text/html;q=0.1, application/json', 'garbage;;;', '']


def get(app, path='/', accept=None, method='GET'):
    cl = app.get_local_client()
    headers = {} if accept is None else {'Accept': accept}
    resp = cl.open(path, method=method, headers=headers)
    body = resp.get_data()      # iterates the body completely
    assert isinstance(body, bytes)
    assert resp.status.split()[0].isdigit()
    return resp


def check_via_application():
    class TypedHandler(ErrorHandler):
        class server_error_type(InternalServerError):
            def __init__(self, detail=None, **kw):
                kw.setdefault('error_type', 'custom-typed')
                InternalServerError.__init__(self, detail, **kw)

    class TeapotHandler(ErrorHandler):
        class server_error_type(InternalServerError):
            code = 503

    handlers = [lambda: None, ErrorHandler, ContextualErrorHandler, TypedHandler, TeapotHandler]
    excs = BUILTIN_EXCS + [CustomError('custom'), Unprintable(), print('p')]
    for mk_handler in handlers:
        for exc in excs:
            app = Application([('/', make_raiser(exc), render_basic),
                               ('/ok', lambda: 'fine', render_basic),
                               ('/none', lambda: None),
                               ('/num', lambda: 3)],
                              error_handler=mk_handler())
            for accept in ACCEPTS:
                resp = get(app, '/', accept)
                handler = app.error_handler
                want_code = handler.server_error_type.code
                assert resp.status_code == want_code, (exc, accept, resp.status)
                text = resp.get_data(True)
                is_ctx = isinstance(handler, ContextualErrorHandler)
                if isinstance(handler, TypedHandler):
                    want_type = 'custom-typed'
                elif isinstance(exc, (CustomError, Unprintable)):
                    want_type = None
                else:
                    want_type = STDLIB_EXC_URL + type(exc).__name__
                ctype = resp.headers['Content-Type']
                if ctype.startswith('application/json'):
                    data = json.loads(text)
                    assert data['error_type'] == want_type, (exc, data['error_type'])
                    assert data['code'] == want_code
                elif ctype.startswith('text/plain'):
                    if want_type:
                        assert ('Error type: ' + want_type) in text
                    else:
                        assert 'Error type' not in text
                elif ctype.startswith('application/xml'):
                    assert ('<error_type>%s</error_type>' % (want_type or '')) in text
                elif ctype.startswith('text/html') and not is_ctx:
                    if want_type and want_type.startswith('http'):
                        assert ('href="%s"' % want_type) in text
                    elif want_type:
                        assert ('<p>Error type: %s</p>' % want_type) in text
                    else:
                        assert 'Error type' not in text
                else:
                    assert is_ctx and ctype.startswith('text/html')
            # non-Response results are TypeErrors -> linked to TypeError docs
            for path in ('/none', '/num'):
                resp = get(app, path, 'application/json')
                assert resp.status_code == app.error_handler.server_error_type.code
                data = json.loads(resp.get_data(True))
                if isinstance(app.error_handler, TypedHandler):
                    assert data['error_type'] == 'custom-typed'
                else:
                    assert data['error_type'] == STDLIB_EXC_URL + 'TypeError'
            # the app still serves after the failures
            resp = get(app, '/ok')
            assert resp.status_code == 200 and resp.get_data() == b'fine'


def check_returned_and_raised_500s():
    ei = exc_info_of(KeyError('kk'))

    def ret_plain():
        return InternalServerError('returned')

    def raise_plain():
        raise BadGateway('raised')

    def ret_with_info():
        return InternalServerError('with info', exc_info=ei)

    def raise_typed():
        raise ServiceUnavailable('typed', error_type='maintenance')

    app = Application([('/a', ret_plain), ('/b', raise_plain), ('/c', ret_with_info), ('/d', raise_typed)])
    for path, code, etype in [('/a', 500, None), ('/b', 502, None),
                              ('/c', 500, STDLIB_EXC_URL + 'KeyError'), ('/d', 503, 'maintenance')]:
        for _ in range(2):
            resp = get(app, path, 'application/json')
            assert resp.status_code == code
            assert json.loads(resp.get_data(True))['error_type'] == etype


def check_reraise():
    marker = ValueError('original')
    app = Application([('/', make_raiser(marker), render_basic), ('/ok', lambda: Response('ok'))],
                      error_handler=ErrorHandler(reraise_uncaught=True))
    try:
        get(app, '/')
    except ValueError as e:
        assert e is marker
    else:
        raise AssertionError('expected the original exception to escape')
    assert get(app, '/ok').get_data() == b'ok'


def main():
    check_direct_construction()
    check_via_application()
    check_returned_and_raised_500s()
    check_reraise()
    sys.stdout.write('PASS\n')


if __name__ == '__main__':
    main()
