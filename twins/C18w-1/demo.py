# -*- coding: utf-8 -*-
"""demo1 -- C18: the meta application never reveals secrets and always renders.

Focus of this demo: get_render_info (the 'render' entry of every route row), next
to the general property checks (redaction of secret-named resources, cookie signing
key, 200 for odd hosts).  Prints PASS and exits 0.
"""
import json
import sys

from clastic import (Application, MetaApplication, Route, GET, POST,
                     StaticApplication, StaticFileRoute, render_basic, Response)
from clastic.middleware import Middleware
from clastic.middleware.cookie import SignedCookieMiddleware
from clastic import meta
from clastic.meta import MetaPeripheral

SECRET = 'hunter2-TOPSECRET-9f3a'
SECRET_NUM = 9182736455463728
SIGNING_KEY = 'cookie-signing-KEY-77aa'
MARK = '[REDACTED]'


class Leaky(object):
    def __repr__(self):
        return '<Leaky holding %s>' % SECRET


class Unreprable(object):
    def __repr__(self):
        raise RuntimeError('no repr for you')


SECRET_RESOURCES = {
    'secret_token': SECRET,                       # prefix
    'db_secret': SECRET.encode('ascii'),          # suffix, bytes
    'my_secret_value': [1, {'x': SECRET}],        # infix, nested container
    'xsecretx': Leaky(),                          # object whose repr leaks
    'secret': SECRET_NUM,                         # exact name, number
    'secret_none': None,
    'secret_unreprable': Unreprable(),            # repr must not even be called
}
VISIBLE_RESOURCES = {
    'visible_str': 'plain-visible-value',
    'visible_bytes': b'vis-bytes',
    'visible_num': 424242,
    'visible_long': 'L' * 200,                    # truncated to 70 chars
    'visible_69': 'a' * 67,                       # repr is 69 chars: untouched
    'visible_70': 'b' * 68,                       # repr is 70 chars: untouched
    'visible_71': 'c' * 69,                       # repr is 71 chars: truncated
    'visible_nested': {'a': [1, 2, (3, 4)]},
    'visible_none': None,
    'visible_empty': '',
    'visible_zero': 0,
    'Secret_caps': 'caps-are-not-redacted',       # match is case sensitive
}


def expected_display(val):
    text = repr(val)
    if len(text) > 70:
        text = text[:67] + '...'
    return text


# ---------------------------------------------------------------- endpoints

def ep_func(request, name, visible_str, cookie, opt=3):
    return {'name': name}


def ep_plain():
    return {}


class EPObj(object):
    def __call__(self, request):
        return {}

    def method_ep(self, request, visible_num):
        return {}


class EPMiddleware(Middleware):
    endpoint_provides = ('ep_only', 'ep_only_default')

    def endpoint(self, next):
        return next(ep_only=1, ep_only_default=2)


def ep_epmw(ep_only, ep_only_default=5):
    return {}


# ------------------------------------------------------------------ renders

class FuncNameRender(object):
    func_name = 'legacy_named_render'

    def __call__(self, context):
        return Response('x')


class EmptyFuncNameRender(object):
    func_name = ''          # falsy but present: must be reported as ''

    def __call__(self, context):
        return Response('x')


class NoneFuncNameRender(object):
    func_name = None        # present and None

    def __call__(self, context):
        return Response('x')


class AttrErrRender(object):
    @property
    def func_name(self):
        raise AttributeError('computed, and missing')

    def __call__(self, context):
        return Response('x')


class ValueErrRender(object):
    @property
    def func_name(self):
        raise ValueError('render introspection exploded')

    def __call__(self, context):
        return Response('x')


class GetattrRender(object):
    def __getattr__(self, name):
        if name == 'func_name':
            return 'dynamic_' + name
        raise AttributeError(name)

    def __call__(self, context):
        return Response('x')


def simple_render_factory(arg):
    def _render(context):
        return Response('%s:%r' % (arg, context))
    return _render


class FactoryObj(object):
    def __call__(self, arg):
        return simple_render_factory(arg)


def plain_render(context):
    return Response('plain')


# --------------------------------------------------------------- peripherals

class BrokenContextPeripheral(MetaPeripheral):
    title = 'Broken context'
    group_key = 'broken_ctx'

    def get_context(self):
        raise ValueError('context cannot be computed')


class BrokenRenderPeripheral(MetaPeripheral):
    title = 'Broken render'
    group_key = 'broken_render'

    def get_context(self):
        return {'fine': 1}

    def render_main_page_html(self, context):
        raise KeyError('render cannot be computed')


class OddItemsPeripheral(MetaPeripheral):
    title = 'Odd items'
    group_key = 'odd'

    def get_general_items(self):
        return [('k1', 'v1'), ('k2', ('v2', 'v2 detail')), (('k3', 'k3d'), 7),
                ('k4', 'a', 'b'), 5]


class GeneralKeyPeripheral(MetaPeripheral):
    title = 'Clashes with the general list'
    group_key = 'general'

    def get_context(self):
        return {'x': 1}


# -------------------------------------------------------------------- tools

def get_pages(app, prefix):
    cl = app.get_local_client()
    html_resp = cl.get(prefix + '/')
    assert html_resp.status_code == 200, (prefix, html_resp.status_code)
    json_resp = cl.get(prefix + '/json/')
    assert json_resp.status_code == 200, (prefix, json_resp.status_code)
    html = html_resp.get_data(as_text=True)
    json_text = json_resp.get_data(as_text=True)
    return html, json_text, json.loads(json_text)


def check_no_leak(*texts):
    for text in texts:
        assert SECRET not in text
        assert str(SECRET_NUM) not in text
        assert SIGNING_KEY not in text
        assert 'no repr for you' not in text


def check_resources(html, data, secret_names, visible):
    listed = dict((r['key'], r['value']) for r in data['app']['resources'])
    assert [r['key'] for r in data['app']['resources']] == \
        list(secret_names) + list(visible), 'order of the listing changed'
    for name in secret_names:
        assert listed[name] == MARK, (name, listed[name])
        assert name in html
    for name, val in visible.items():
        assert listed[name] == expected_display(val), (name, listed[name])
        assert len(listed[name]) <= 70
    assert html.count(MARK) == len(secret_names)
    assert 'plain-visible-value' in html and 'caps-are-not-redacted' in html


def build_host(meta_prefix, peripherals=None):
    resources = dict(SECRET_RESOURCES)
    resources.update(VISIBLE_RESOURCES)
    obj = EPObj()
    routes = [
        (meta_prefix, MetaApplication(peripherals=peripherals)),
        ('/func/<name>', ep_func, render_basic),
        GET('/plain', ep_plain, plain_render),
        POST('/norender', ep_plain),
        Route('/none', ep_plain, None),
        ('/obj', obj, FuncNameRender()),
        ('/method', obj.method_ep, EmptyFuncNameRender()),
        ('/nonefn', ep_plain, NoneFuncNameRender()),
        ('/attrerr', ep_plain, AttrErrRender()),
        ('/getattr', ep_plain, GetattrRender()),
        ('/tmpl', ep_plain, 'some_template.html'),
        ('/tmpl_num', ep_plain, 0),
        ('/tmpl_empty', ep_plain, ''),
        Route('/epmw', ep_epmw, render_basic, middlewares=[EPMiddleware()]),
        StaticFileRoute('/thisfile', __file__),
        ('/static/', StaticApplication(meta._ASSET_PATH)),
        ('/sub', Application([('/leaf', ep_plain, render_basic)])),
    ]
    return Application(routes, resources,
                       middlewares=[SignedCookieMiddleware(secret_key=SIGNING_KEY)],
                       render_factory=simple_render_factory)


EXPECTED_RENDER = {
    '/func/<name>': {'type': None, 'arg': 'BasicRender'},
    '/plain': {'type': None, 'arg': 'function'},
    '/norender': {'type': None, 'arg': None},
    '/none': {'type': None, 'arg': None},
    '/obj': {'type': None, 'arg': 'legacy_named_render'},
    '/method': {'type': None, 'arg': ''},
    '/nonefn': {'type': None, 'arg': None},
    '/attrerr': {'type': None, 'arg': 'AttrErrRender'},
    '/getattr': {'type': None, 'arg': 'dynamic_func_name'},
    '/tmpl': {'type': 'function', 'arg': 'some_template.html'},
    '/tmpl_num': {'type': 'function', 'arg': 0},
    '/tmpl_empty': {'type': 'function', 'arg': ''},
    '/epmw': {'type': None, 'arg': 'BasicRender'},
    '/sub/leaf': {'type': None, 'arg': 'BasicRender'},
}


def check_render_infos(data, meta_prefix):
    seen = {}
    for r_info in data['app']['routes']:
        assert list(sorted(r_info)) == ['args', 'endpoint', 'render',
                                        'url_pattern', 'url_regex_pattern']
        seen[r_info['url_pattern']] = r_info['render']
    for pattern, expected in EXPECTED_RENDER.items():
        assert seen[pattern] == expected, (pattern, seen[pattern], expected)
    # the meta application's own routes
    root = meta_prefix.rstrip('/')
    assert seen[root + '/'] == {'type': None, 'arg': 'method'}
    assert seen[root + '/json/'] == {'type': None, 'arg': 'JSONRender'}


class FakeRoute(object):
    def __init__(self, render_arg, render_factory=None):
        self.render_arg = render_arg
        self.render_factory = render_factory


def check_get_render_info_unit():
    gri = meta.get_render_info
    # key order (type before arg) is what the JSON view / template receive
    for fake, expected in [
        (FakeRoute(None), [('type', None), ('arg', None)]),
        (FakeRoute(None, simple_render_factory), [('type', 'function'), ('arg', None)]),
        (FakeRoute('t.html', FactoryObj()), [('type', 'FactoryObj'), ('arg', 't.html')]),
        (FakeRoute('t.html', None), [('type', None), ('arg', 'str')]),
        (FakeRoute(0, None), [('type', None), ('arg', 'int')]),
        (FakeRoute(plain_render, simple_render_factory), [('type', None), ('arg', 'function')]),
        (FakeRoute(FuncNameRender(), FactoryObj()), [('type', None), ('arg', 'legacy_named_render')]),
        (FakeRoute(EmptyFuncNameRender()), [('type', None), ('arg', '')]),
        (FakeRoute(NoneFuncNameRender()), [('type', None), ('arg', None)]),
        (FakeRoute(AttrErrRender()), [('type', None), ('arg', 'AttrErrRender')]),
        (FakeRoute(GetattrRender()), [('type', None), ('arg', 'dynamic_func_name')]),
    ]:
        got = gri(fake)
        assert list(got.items()) == expected, (got, expected)
        assert gri(fake) is not got       # a fresh dict per call
    # the same object that was passed as render argument is reported (no copy)
    arg = ['a', 'list', 'argument']
    assert gri(FakeRoute(arg, FactoryObj()))['arg'] is arg
    # exceptions other than AttributeError propagate unchanged
    try:
        gri(FakeRoute(ValueErrRender()))
    except ValueError as e:
        assert 'exploded' in str(e)
    else:
        raise AssertionError('ValueError was swallowed')


def main():
    check_get_render_info_unit()

    extra = [BrokenContextPeripheral(), BrokenRenderPeripheral(),
             OddItemsPeripheral(), GeneralKeyPeripheral()]
    for meta_prefix in ('/meta', '/_admin/deep/meta', '/m/'):
        for peripherals in (None, extra):
            app = build_host(meta_prefix, peripherals)
            html, json_text, data = get_pages(app, meta_prefix.rstrip('/'))
            check_no_leak(html, json_text)
            check_resources(html, data, SECRET_RESOURCES, VISIBLE_RESOURCES)
            check_render_infos(data, meta_prefix)
            assert 'legacy_named_render' in html
            assert "function('some_template.html')" in html.replace('&#39;', "'")
            mws = data['app']['middlewares']
            assert [m['type_name'] for m in mws] == ['SignedCookieMiddleware']
            assert mws[0]['provides'] == ['cookie']
            assert 'exc_content' not in data['app']
            if peripherals:
                assert 'context cannot be computed' in data['broken_ctx']['exc_content']
                assert 'context cannot be computed' in html
                assert 'render cannot be computed' in html
                assert 'v2 detail' in html

    # a render whose introspection raises: the route section is reported, page is 200
    app = Application([('/meta', MetaApplication()),
                       ('/boom', ep_plain, ValueErrRender())],
                      {'a_secret': SECRET, 'ok': 'bokay'},
                      middlewares=[SignedCookieMiddleware(secret_key=SIGNING_KEY)])
    html, json_text, data = get_pages(app, '/meta')
    check_no_leak(html, json_text)
    assert 'render introspection exploded' in data['app']['exc_content']
    assert 'render introspection exploded' in html
    assert 'routes' not in data['app']
    assert data['app']['resources'] == [{'key': 'a_secret', 'value': MARK},
                                        {'key': 'ok', 'value': "'bokay'"}]

    # a visible resource without repr: the resource section is reported, page is 200
    app = Application([('/meta', MetaApplication())],
                      {'a_secret': SECRET, 'broken': Unreprable()})
    html, json_text, data = get_pages(app, '/meta')
    assert SECRET not in html and SECRET not in json_text
    assert 'no repr for you' in data['app']['exc_content']
    assert 'resources' not in data['app']

    # meta embedded two levels deep
    inner = Application([('/inner', MetaApplication())])
    outer = Application([('/outer', inner), ('/f/<name>', ep_func, render_basic)],
                        dict(SECRET_RESOURCES, **VISIBLE_RESOURCES),
                        middlewares=[SignedCookieMiddleware(secret_key=SIGNING_KEY)])
    html, json_text, data = get_pages(outer, '/outer/inner')
    check_no_leak(html, json_text)
    check_resources(html, data, SECRET_RESOURCES, VISIBLE_RESOURCES)

    # no resources, no middlewares, only the meta application, at the root
    app = Application([('/', MetaApplication())])
    html, json_text, data = get_pages(app, '')
    assert data['app']['resources'] == [] and data['app']['middlewares'] == []

    print('PASS')
    return 0


if __name__ == '__main__':
    sys.exit(main())
