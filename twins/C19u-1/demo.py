# -*- coding: utf-8 -*-
"""demo1: the sample store (Reservoir / fast_randint / resize) against an
independent model, under many seeds, capacities and operation sequences."""
import random
import sys
import warnings

warnings.simplefilter('ignore')

from clastic.middleware.stats import (Reservoir, RouteStatReservoir, Hit,
                                      fast_randint)


class Model(object):
    """Straight-line re-statement of the documented behaviour."""
    def __init__(self, cap):
        self.cap = cap
        self.data = []
        self.total = 0

    def add(self, val):
        self.total += 1
        if len(self.data) < self.cap:
            self.data.append(val)
            return
        idx = 0 + int(random.random() * (self.total + 1 - 0))
        if idx < self.cap:
            self.data[idx] = val

    def resize(self, new_size):
        self.cap = new_size
        if new_size < len(self.data):
            self.data = self.data[:new_size]


def gen_ops(rng, n_ops, max_cap):
    ops = []
    for _ in range(n_ops):
        r = rng.random()
        if r < 0.85:
            ops.append(('add', None))
        elif r < 0.95:
            ops.append(('resize', rng.randint(0, max_cap)))
        else:
            ops.append(('iter', None))
    return ops


def run(target, ops, seed, is_model):
    random.seed(seed)
    trace = []
    counter = 0
    for op, arg in ops:
        if op == 'add':
            counter += 1
            ret = target.add(counter)
            assert ret is None
        elif op == 'resize':
            ret = target.resize(arg)
            assert ret is None
        else:
            trace.append(list(target.data if is_model else target))
    final = list(target.data if is_model else target)
    total = target.total if is_model else target.total_count
    return trace, final, total, counter


def check_sequences():
    gen = random.Random(20191)
    for seed in range(60):
        for cap in (1, 2, 3, 5, 8, 13):
            ops = gen_ops(gen, 400, 16)
            res = Reservoir(cap=cap)
            real = run(res, ops, seed, False)
            model = run(Model(cap), ops, seed, True)
            assert real == model, (seed, cap)
            trace, final, total, n_added = real
            assert total == n_added == res.total_count
            assert res.to_list() == final == list(res)
            # bounded at every observation and only ever-added values
            cur_cap = cap
            for snap in trace + [final]:
                assert len(set(snap)) == len(snap)
                assert all(1 <= v <= n_added for v in snap)
            assert len(final) <= res._cap


def check_bound_during_run():
    for seed in range(25):
        random.seed(seed)
        for cap in (1, 4, 7):
            res = Reservoir(cap=cap)
            cur_cap = cap
            for i in range(1, 600):
                res.add(i)
                if i % 97 == 0:
                    cur_cap = (i // 97 * 3) % 11
                    res.resize(cur_cap)
                assert len(list(res)) <= cur_cap
                assert res.total_count == i
                assert set(res) <= set(range(1, i + 1))


def check_resize_details():
    backing = []
    res = Reservoir(cap=10, container=backing)
    for i in range(10):
        res.add(i)
    assert res._data is backing and backing == list(range(10))
    # enlarging or same size: the very same list object is kept
    assert res.resize(10) is None and res._data is backing
    assert res.resize(50) is None and res._data is backing and res._cap == 50
    assert res.resize(float('inf')) is None and res._data is backing
    # shrinking: a new list, the caller's container is left alone
    assert res.resize(4) is None
    assert res._data == [0, 1, 2, 3] and res._data is not backing
    assert backing == list(range(10))
    assert res._cap == 4 and res.total_count == 10
    # the cap is stored even when the slice then fails
    for bad in (float('nan'), 2.5, '3'):
        r2 = Reservoir(cap=10, data=range(5))
        try:
            r2.resize(bad)
        except TypeError:
            pass
        else:
            raise AssertionError('expected TypeError for %r' % (bad,))
        assert r2._cap is bad or r2._cap == bad
        assert r2.to_list() == list(range(5))
    # float that still fits: accepted untouched
    r3 = Reservoir(cap=10, data=range(5))
    r3.resize(5.0)
    assert r3._cap == 5.0 and r3.to_list() == list(range(5))
    # shrink to zero, then keep adding: never raises, stays empty, counts
    r4 = Reservoir(cap=3, data='abc')
    r4.resize(0)
    for i in range(200):
        r4.add(i)
    assert r4.to_list() == [] and r4.total_count == 203
    # negative size slices from the end, as it always did
    r5 = Reservoir(cap=10, data=range(6))
    r5.resize(-2)
    assert r5.to_list() == [0, 1, 2, 3] and r5._cap == -2
    assert repr(r5) == '<Reservoir cap=-2, data_count=4, total_count=6>'


def check_constructor_and_subclass():
    assert Reservoir()._cap == 2 ** 14
    assert Reservoir(cap=False)._cap == float('inf')
    assert Reservoir(cap='5')._cap == 5
    assert Reservoir(cap=1)._cap == 1
    try:
        Reservoir(cap=2, container=[1, 2])
    except AssertionError as ae:
        assert 'initial count 2 must be lower than cap 2' in str(ae)
    else:
        raise AssertionError('expected AssertionError')
    unbounded = Reservoir(cap=False, data=range(1000))
    assert unbounded.to_list() == list(range(1000))
    rsr = RouteStatReservoir()
    assert rsr.last_hit is None and rsr.total_duration == 0.0
    rsr.resize(2)
    random.seed(5)
    total = 0.0
    for i in range(50):
        hit = Hit(100.0 + i, '/u', '/u', '200', 0.25 * i, 'text/plain')
        total += 0.25 * i
        rsr.add(hit)
        assert rsr.last_hit == 100.0 + i
    assert rsr.total_count == 50 and len(list(rsr)) == 2
    assert rsr.total_duration == total
    assert repr(rsr) == '<RouteStatReservoir cap=2, data_count=2, total_count=50>'


def check_fast_randint():
    for seed in range(200):
        for start, stop in ((0, 0), (0, 1), (0, 9), (3, 7), (-5, 5), (0, 10 ** 6)):
            random.seed(seed)
            frac = random.random()
            follow = random.random()
            random.seed(seed)
            got = fast_randint(start, stop)
            assert got == start + int(frac * (stop + 1 - start))
            assert start <= got <= stop and isinstance(got, int)
            # exactly one draw was consumed
            assert random.random() == follow
    # a draw is consumed before bad arguments are noticed
    random.seed(9)
    random.random()
    follow = random.random()
    random.seed(9)
    try:
        fast_randint(0, 'x')
    except TypeError:
        pass
    else:
        raise AssertionError('expected TypeError')
    assert random.random() == follow
    # float arguments behave as before
    random.seed(3)
    frac = random.random()
    random.seed(3)
    assert fast_randint(0.5, 4) == 0.5 + int(frac * (4 + 1 - 0.5))


def main():
    check_sequences()
    check_bound_during_run()
    check_resize_details()
    check_constructor_and_subclass()
    check_fast_randint()
    print('PASS')
    return 0


if __name__ == '__main__':
    sys.exit(main())
