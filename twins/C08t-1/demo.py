# -*- coding: utf-8 -*-
"""demo1: every request gets a response (focus: Application.dispatch).

Exercises behaviour x middleware position x error handler x Accept header
through the raw WSGI callable and checks status / headers / body, or the
escaping exception when the handler is configured to re-raise.
"""
import re
import sys
import json
import itertools

from werkzeug.test import EnvironBuilder
from werkzeug.wrappers import Response

import clastic
from clastic import Application, Route, SubApplication, render_basic
from clastic import errors
from clastic.errors import (ErrorHandler, ContextualErrorHandler,
                            REPLErrorHandler, HTTPException, NotFound,
                            BadRequest, Forbidden, BadGateway,
                            InternalServerError, MethodNotAllowed)
from clastic.middleware import Middleware
from clastic.application import RerouteWSGI


def call(app, path='/', method='GET', accept=None, query=None):
    """Call the WSGI callable directly; return (status, headers, body)."""
    headers = {}
    if accept is not None:
        headers['Accept'] = accept
    env = EnvironBuilder(path=path, method=method, headers=headers,
                         query_string=query).get_environ()
    started = []

    def start_response(status, hdrs, exc_info=None):
        started.append((status, hdrs))
        return lambda data: None

    app_iter = app(env, start_response)
    try:
        body = b''.join(app_iter)
    finally:
        close = getattr(app_iter, 'close', None)
        if close:
            close()
    assert len(started) == 1, started
    status, hdrs = started[0]
    assert re.match(r'^\d{3} \S', status), status
    hdrs = dict((k.lower(), v) for k, v in hdrs)
    assert 'content-type' in hdrs or status.startswith('3'), hdrs
    return int(status[:3]), hdrs, body


class Unprintable(Exception):
    def __str__(self):
        raise RuntimeError('cannot print me')
    __repr__ = __str__


class WeirdBase(Exception):
    pass


EXC_FACTORIES = [
    lambda: ValueError('plain'),
    lambda: RuntimeError(),
    lambda: KeyError('k'),
    lambda: IndexError(3),
    lambda: ZeroDivisionError('division by zero'),
    lambda: TypeError(u'sn\xf6wman ☃'),
    lambda: AttributeError('x' * 100000),
    lambda: UnicodeDecodeError('utf8', b'\xff', 0, 1, 'bad'),
    lambda: OSError(2, 'nope'),
    lambda: AssertionError(),
    lambda: NotImplementedError('ni'),
    lambda: StopIteration('si'),
    lambda: LookupError(0),
    lambda: WeirdBase(None),
    lambda: Unprintable(),
]

HTTP_EXC_TYPES = [getattr(errors, name) for name in errors.__all__]
assert len(HTTP_EXC_TYPES) > 20

ACCEPTS = [None, 'text/html', 'application/json', 'text/plain',
           'application/xml', '*/*', 'image/png', 'garbage;;q=',
           'text/html;q=0.1, application/json;q=0.9', '']
CT_FOR = {'text/html': 'text/html', 'application/json': 'application/json',
          'text/plain': 'text/plain', 'application/xml': 'application/xml',
          'image/png': 'text/plain'}


def make_raiser(factory):
    def endpoint():
        raise factory()
    return endpoint


def make_returner(value):
    def endpoint():
        return value
    return endpoint


class Boom(Middleware):
    """Fails (or returns junk) in one of request/endpoint/render."""
    def __init__(self, where, action):
        self.where = where
        self.action = action

    def _act(self, next, *a):
        return self.action(next)

    def request(self, next):
        if self.where == 'request':
            return self.action(next)
        return next()

    def endpoint(self, next):
        if self.where == 'endpoint':
            return self.action(next)
        return next()

    def render(self, next, context):
        if self.where == 'render':
            return self.action(next)
        return next()


class Passthrough(Middleware):
    def request(self, next):
        return next()


def check_500(status, hdrs, body, accept=None):
    assert status == 500, status
    assert body, 'empty 500 body'
    want = CT_FOR.get(accept)
    if want:
        assert hdrs['content-type'].startswith(want), (accept, hdrs)


def test_basic_behaviours(handler_factory, contextual):
    ok = lambda: Response('fine')
    routes = [('/ok', ok),
              ('/str', make_returner('just a string')),
              ('/none', make_returner(None)),
              ('/num', make_returner(42)),
              ('/zero', make_returner(0)),
              ('/dict', make_returner({'a': 1})),
              ('/dict_rendered', make_returner({'a': 1}), render_basic),
              ('/list', make_returner([1, 2])),
              ('/exc_instance', make_returner(ValueError('returned, not raised'))),
              ('/exc_class', make_returner(ValueError))]
    for i, fac in enumerate(EXC_FACTORIES):
        routes.append(('/raise/%d' % i, make_raiser(fac)))
    app = Application(routes, error_handler=handler_factory())

    for accept in ACCEPTS:
        assert call(app, '/ok', accept=accept)[::2] == (200, b'fine')
        status, hdrs, body = call(app, '/dict_rendered', accept=accept)
        assert status == 200 and body
        for path in ('/str', '/none', '/num', '/zero', '/dict', '/list',
                     '/exc_instance', '/exc_class'):
            status, hdrs, body = call(app, path, accept=accept)
            check_500(status, hdrs, body, accept)
            assert b'TypeError' in body, (path, body[:300])
            if not contextual:
                assert b'expected Response, received' in body
                # the TypeError is raised by dispatch itself: one frame
                assert b'(1 frames' in body, body[:400]
        for i in range(len(EXC_FACTORIES)):
            status, hdrs, body = call(app, '/raise/%d' % i, accept=accept)
            check_500(status, hdrs, body, accept)
            exc = EXC_FACTORIES[i]()
            assert type(exc).__name__.encode('ascii') in body, (i, body[:300])
        # routing errors still work and a failed request leaves the app usable
        assert call(app, '/nope', accept=accept)[0] == 404
        assert call(app, '/ok', method='POST', accept=accept)[0] == 200
        assert call(app, '/ok', accept=accept)[::2] == (200, b'fine')

    # json body of the default handler is well-formed and carries the code
    if not contextual:
        status, hdrs, body = call(app, '/raise/0', accept='application/json')
        data = json.loads(body.decode('utf8'))
        assert data['code'] == 500 and 'ValueError' in data['detail'], data
        assert data['error_type'].endswith('exceptions.ValueError'), data
        status, hdrs, body = call(app, '/raise/5', accept='application/json')
        assert u'sn\xf6wman ☃' in json.loads(body.decode('utf8'))['detail']


def test_http_exceptions(handler_factory, contextual):
    routes = []
    for i, et in enumerate(HTTP_EXC_TYPES):
        routes.append(('/raise/%d' % i, make_raiser(et)))
        routes.append(('/raise_detail/%d' % i,
                       make_raiser(lambda et=et: et('detail <b>&</b> %d' % i))))
        # a *fresh* instance per request is needed, so build it in the endpoint
        def returner(et=et):
            return et()
        routes.append(('/return/%d' % i, returner))
    app = Application(routes, error_handler=handler_factory())
    for i, et in enumerate(HTTP_EXC_TYPES):
        for accept in ACCEPTS:
            for kind in ('raise', 'return', 'raise_detail'):
                status, hdrs, body = call(app, '/%s/%d' % (kind, i), accept=accept)
                assert status == et.code, (kind, et, status)
                want = CT_FOR.get(accept)
                if want:
                    assert hdrs['content-type'].startswith(want), (accept, hdrs)
                if et is MethodNotAllowed:
                    continue  # first positional arg is allowed_methods
                if (kind == 'raise_detail' and accept == 'text/html'
                        and not et.__name__.startswith('Contextual')):
                    assert b'detail &lt;b&gt;&amp;&lt;/b&gt;' in body, body[:300]
                if kind == 'raise_detail' and accept == 'text/plain':
                    assert b'detail <b>&</b>' in body, body[:300]


def test_non_breaking(handler_factory):
    """Non-breaking HTTPExceptions fall through to later routes; if nothing
    else matches, the last one is what the client gets."""
    log = []

    def nb_raise():
        log.append('nb_raise')
        raise Forbidden('first', is_breaking=False)

    def nb_return():
        log.append('nb_return')
        return BadRequest('second', is_breaking=False)

    def final():
        log.append('final')
        return Response('made it')

    def boom():
        log.append('boom')
        raise ValueError('third')

    app = Application([('/a', nb_raise), ('/a', nb_return), ('/a', final),
                       ('/b', nb_raise), ('/b', nb_return),
                       ('/c', nb_return), ('/c', nb_raise),
                       ('/d', nb_raise), ('/d', boom), ('/d', final),
                       Route('/e', nb_raise, methods=['POST']),
                       Route('/e', final, methods=['PUT'])],
                      error_handler=handler_factory())
    assert call(app, '/a')[::2] == (200, b'made it')
    assert log == ['nb_raise', 'nb_return', 'final'], log
    del log[:]
    status, hdrs, body = call(app, '/b', accept='text/plain')
    assert status == 400 and b'second' in body, (status, body)
    status, hdrs, body = call(app, '/c', accept='text/plain')
    assert status == 403 and b'first' in body, (status, body)
    del log[:]
    status, hdrs, body = call(app, '/d')
    assert status == 500 and log == ['nb_raise', 'boom'], (status, log)
    status, hdrs, body = call(app, '/e')
    assert status == 405, status
    assert set(hdrs.get('allow', '').replace(' ', '').split(',')) == set(['POST', 'PUT']), hdrs


def test_middleware_positions(handler_factory):
    def raise_value(next):
        raise ValueError('mw failure')

    def raise_http(next):
        raise BadGateway('mw gateway')

    def return_http(next):
        return Forbidden('mw forbidden')

    def return_junk(next):
        return 12345

    def after_next_raise(next):
        next()
        raise KeyError('after next')

    actions = [(raise_value, 500), (raise_http, 502), (return_http, 403),
               (return_junk, 500), (after_next_raise, 500)]
    for depth in (1, 2, 4):
        for pos in range(depth):
            for where in ('request', 'endpoint', 'render'):
                for action, want in actions:
                    mws = [Passthrough() for _ in range(depth)]
                    mws[pos] = Boom(where, action)
                    app = Application([('/', make_returner({'k': 'v'}), render_basic),
                                       ('/plain', lambda: Response('plain'))],
                                      middlewares=mws,
                                      error_handler=handler_factory())
                    want_root = want
                    if action is return_junk and where == 'endpoint':
                        want_root = 200  # junk from endpoint mw is just render context
                    for accept in (None, 'application/json', 'text/html'):
                        status, hdrs, body = call(app, '/', accept=accept)
                        assert status == want_root, (depth, pos, where, action, status)
                        assert body
                    # '/plain' returns a Response directly so render mw is skipped
                    status, hdrs, body = call(app, '/plain')
                    if where == 'render':
                        assert (status, body) == (200, b'plain')
                    else:
                        assert status == want, (where, action, status)


def test_render_error_variants():
    class Broken(ErrorHandler):
        def render_error(self, **kwargs):
            1 / 0

    class RaisesHTTP(ErrorHandler):
        def render_error(self, _error, **kwargs):
            raise NotFound('from render_error')

    class ReturnsOther(ErrorHandler):
        def render_error(self, _error, **kwargs):
            return BadGateway('swapped')

    class ReturnsJunk(ErrorHandler):
        def render_error(self, _error, **kwargs):
            return None

    class NoRenderError(ErrorHandler):
        pass

    routes = [('/v', make_raiser(lambda: ValueError('orig msg'))),
              ('/f', make_raiser(lambda: Forbidden('orig forbidden'))),
              ('/rf', lambda: Forbidden('orig forbidden')),
              ('/junk', make_returner(7))]
    for eh_type in (Broken, RaisesHTTP, NoRenderError):
        app = Application(routes, error_handler=eh_type())
        if eh_type is NoRenderError:
            # bound routes whose render_error got lost / is not callable
            for bound_route in app.routes + [app._null_route]:
                bound_route.render_error = None
        for accept in ACCEPTS:
            status, hdrs, body = call(app, '/v', accept=accept)
            check_500(status, hdrs, body, accept)
            assert b'orig msg' in body
            for path in ('/f', '/rf'):
                status, hdrs, body = call(app, path, accept=accept)
                assert status == 403 and b'orig forbidden' in body
                want = CT_FOR.get(accept)
                if want:
                    assert hdrs['content-type'].startswith(want)
            assert call(app, '/junk', accept=accept)[0] == 500
            assert call(app, '/missing', accept=accept)[0] == 404
    app = Application(routes, error_handler=ReturnsOther())
    for path in ('/v', '/f', '/rf', '/junk', '/missing'):
        status, hdrs, body = call(app, path)
        assert status == 502 and b'swapped' in body
    # a render_error returning a non-response is the one documented way to
    # hand the server garbage; it must fail identically (TypeError on call)
    app = Application(routes, error_handler=ReturnsJunk())
    try:
        call(app, '/v')
    except TypeError as te:
        assert 'NoneType' in str(te)
    else:
        raise AssertionError('expected TypeError')


def test_reraise():
    seen = {}
    for i, fac in enumerate(EXC_FACTORIES):
        the_exc = fac()

        def endpoint(the_exc=the_exc):
            raise the_exc
        app = Application([('/', endpoint), ('/ok', lambda: Response('ok')),
                           ('/junk', make_returner('junk')),
                           ('/forbidden', make_raiser(Forbidden)),
                           ('/rforbidden', lambda: Forbidden())],
                          error_handler=ErrorHandler(reraise_uncaught=True))
        for _ in range(2):
            try:
                call(app, '/')
            except Exception as e:
                assert e is the_exc, (e, the_exc)
            else:
                raise AssertionError('expected escape')
            assert call(app, '/ok')[::2] == (200, b'ok')
        try:
            call(app, '/junk')
        except TypeError as e:
            assert 'expected Response, received' in str(e)
        else:
            raise AssertionError('expected escape')
        # HTTPExceptions never escape, even with reraise_uncaught
        assert call(app, '/forbidden')[0] == 403
        assert call(app, '/rforbidden')[0] == 403
        assert call(app, '/nowhere')[0] == 404

    # REPLErrorHandler always re-raises (checked without its wsgi wrapper)
    class BareREPL(REPLErrorHandler):
        wsgi_wrapper = None
    marker = ValueError('repl')

    def ep():
        raise marker
    app = Application([('/', ep), ('/f', make_raiser(Forbidden))],
                      error_handler=BareREPL())
    try:
        call(app, '/')
    except ValueError as e:
        assert e is marker
    else:
        raise AssertionError('expected escape')
    assert call(app, '/f')[0] == 403


def test_reroute_wsgi():
    def other_app(environ, start_response):
        start_response('299 Other', [('Content-Type', 'text/x-other')])
        return [b'other']

    def raising():
        raise RerouteWSGI(other_app)

    for eh in (ErrorHandler(), ContextualErrorHandler(),
               ErrorHandler(reraise_uncaught=True)):
        app = Application([('/raise', raising),
                           ('/ep', RerouteWSGI(other_app))],
                          error_handler=eh)
        for path in ('/raise', '/ep'):
            status, hdrs, body = call(app, path)
            assert (status, body) == (299, b'other'), (status, body)
            assert hdrs['content-type'] == 'text/x-other'


def test_sequences():
    counter = itertools.count()

    def flaky():
        n = next(counter)
        if n % 3 == 0:
            raise ValueError('flake %d' % n)
        if n % 3 == 1:
            return 'not a response %d' % n
        return Response('ok %d' % n)

    for eh_factory in (ErrorHandler, ContextualErrorHandler):
        app = Application([('/', flaky)], error_handler=eh_factory())
        routes_before = list(app.routes)
        resources_before = dict(app.resources)
        for _ in range(5):
            statuses = [call(app, '/')[0] for _ in range(3)]
            # which n we are at depends on the shared counter; only the
            # multiset per 3 consecutive calls is fixed
            assert sorted(statuses) == [200, 500, 500], statuses
        assert app.routes == routes_before
        assert app.resources == resources_before


def test_subapp_and_slashes():
    inner = Application([('/boom', make_raiser(lambda: ValueError('inner boom'))),
                         ('/f', make_raiser(Forbidden)),
                         ('/ok', lambda: Response('inner ok'))])
    outer = Application([SubApplication('/sub', inner),
                         ('/branch/', lambda: Response('branch')),
                         ('/outer', make_returner(3))],
                        error_handler=ContextualErrorHandler())
    assert call(outer, '/sub/ok')[::2] == (200, b'inner ok')
    status, hdrs, body = call(outer, '/sub/boom', accept='text/html')
    assert status == 500 and b'inner boom' in body
    assert hdrs['content-type'].startswith('text/html')
    assert call(outer, '/sub/f')[0] == 403
    assert call(outer, '/branch')[0] in (301, 302, 303, 307, 308)
    assert call(outer, '/branch/')[::2] == (200, b'branch')
    assert call(outer, '/outer')[0] == 500
    status, hdrs, body = call(outer, '/zzz', accept='text/html')
    assert status == 404 and b'/sub/boom' in body  # contextual 404 lists routes


def main():
    handler_factories = [
        (ErrorHandler, False),
        (lambda: ErrorHandler(reraise_uncaught=False), False),
        (lambda: ErrorHandler(reraise_uncaught=0), False),
        (ContextualErrorHandler, True),
        (lambda: ContextualErrorHandler(hide_internal_frames=False), True),
    ]
    for factory, contextual in handler_factories:
        test_basic_behaviours(factory, contextual)
        test_http_exceptions(factory, contextual)
        test_non_breaking(factory)
    test_middleware_positions(ErrorHandler)
    test_middleware_positions(ContextualErrorHandler)
    test_render_error_variants()
    test_reraise()
    test_reroute_wsgi()
    test_sequences()
    test_subapp_and_slashes()
    print('PASS')


if __name__ == '__main__':
    main()
