# -*- coding: utf-8 -*-
"""demo2: dispatch property C06 (first match in order, methods, 404/405,
non-breaking fallthrough), with a focus on what the sentinel (null) route
answers when no other route did: the last non-breaking error, else 405 with
the union of the refused method sets, else 404 -- using the error handler's
types and the per-request DispatchState.

Prints PASS and exits 0 when every assertion holds.
"""
import itertools
import random
import sys
import warnings

warnings.simplefilter('ignore')

from werkzeug.test import create_environ, run_wsgi_app

from clastic import Application, Route, Response
from clastic.route import InvalidMethod, HTTP_METHODS
from clastic.errors import (BadRequest, Forbidden, NotFound, Gone,
                            InternalServerError)

# ---------------------------------------------------------------- catalogue

PATHS = ['/', '/a', '/b', '/a/b', '/c/d', '/a/']

# pattern -> request paths (of PATHS) it matches
PATTERNS = {
    '/a': {'/a', '/a/'},
    '/b': {'/b'},
    '/a/b': {'/a/b'},
    '/<name>': {'/a', '/b', '/a/'},
    '/<parts*>': {'/', '/a', '/b', '/a/b', '/c/d', '/a/'},
    '/a/<sub?>': {'/a', '/a/b', '/a/'},
}

METHOD_SETS = [None, ['GET'], ['post'], ['HEAD'], ['PUT', 'delete'],
               ('get', 'POST')]

REQ_METHODS = ['GET', 'HEAD', 'POST', 'PUT', 'DELETE', 'get', 'post',
               'FROB', 'OPTIONS']

BEHAVIOURS = ['answer', 'raise400', 'return410', 'raise500',
              'raise403nb', 'return404nb', 'raise404nb', 'uncaught',
              'notresponse']


def make_endpoint(kind, marker):
    hdr = {'X-Marker': marker}

    def endpoint():
        if kind == 'answer':
            return Response(marker, headers=hdr)
        if kind == 'raise400':
            raise BadRequest(marker, headers=hdr)
        if kind == 'return410':
            return Gone(marker, headers=hdr)
        if kind == 'raise500':
            raise InternalServerError(marker, headers=hdr)
        if kind == 'raise403nb':
            raise Forbidden(marker, headers=hdr, is_breaking=False)
        if kind == 'return404nb':
            return NotFound(marker, headers=hdr, is_breaking=False)
        if kind == 'raise404nb':
            raise NotFound(marker, headers=hdr, is_breaking=False)
        if kind == 'uncaught':
            raise ValueError(marker)
        if kind == 'notresponse':
            return {'marker': marker}
        raise AssertionError(kind)
    return endpoint


STATUS = {'answer': 200, 'raise400': 400, 'return410': 410, 'raise500': 500,
          'raise403nb': 403, 'return404nb': 404, 'raise404nb': 404,
          'uncaught': 500, 'notresponse': 500}
NONBREAKING = {'raise403nb', 'return404nb', 'raise404nb'}
NO_HEADER = {'uncaught', 'notresponse'}


def effective_methods(methods):
    if not methods:
        return None
    ret = set(m.upper() for m in methods)
    if 'GET' in ret:
        ret.add('HEAD')
    return ret


def expected(specs, path, method):
    """The reference model of the property: (status, marker, allow)."""
    last_nb = None
    allowed = set()
    any_path = False
    for marker, pattern, methods, kind in specs:
        if path not in PATTERNS[pattern]:
            continue
        any_path = True
        eff = effective_methods(methods)
        if eff is not None and method.upper() not in eff:
            allowed |= eff
            continue
        if kind in NONBREAKING:
            last_nb = (STATUS[kind], marker, None)
            continue
        return (STATUS[kind], None if kind in NO_HEADER else marker, None)
    if last_nb:
        return last_nb
    if allowed:
        return (405, None, ', '.join(sorted(allowed)))
    assert not any_path or not allowed
    return (404, None, None)


def call(app, path, method):
    environ = create_environ(path=path)
    environ['REQUEST_METHOD'] = method
    app_iter, status, headers = run_wsgi_app(app, environ)
    body = b''.join(app_iter).decode('utf8')
    return int(status.split()[0]), headers, body


def observe(app, path, method):
    status, headers, body = call(app, path, method)
    return status, headers.get('X-Marker'), headers.get('Allow'), body


def build_app(specs, rng, how):
    routes = [Route(pattern, make_endpoint(kind, marker), methods=methods)
              for marker, pattern, methods, kind in specs]
    if how == 'ctor':
        return Application(routes)
    if how == 'tuples':
        # only method-less specs can be given as plain tuples
        return Application([(r.pattern, r.endpoint) if r.methods is None else r
                            for r in routes])
    # 'add': insert in a random order at the index giving the final order
    app = Application()
    order = list(range(len(routes)))
    rng.shuffle(order)
    placed = []
    for i in order:
        index = len([p for p in placed if p < i])
        if index == len(placed) and rng.random() < 0.5:
            app.add(routes[i])
        else:
            app.add(routes[i], index)
        placed.append(i)
        placed.sort()
    return app


def check_table(specs, rng, how):
    app = build_app(specs, rng, how)
    got_patterns = [r.pattern for r in app.routes]
    assert got_patterns == [s[1] for s in specs], (got_patterns, specs)
    count = 0
    for path in PATHS:
        for method in REQ_METHODS:
            exp_status, exp_marker, exp_allow = expected(specs, path, method)
            status, marker, allow, body = observe(app, path, method)
            ctx = (specs, path, method, (status, marker, allow))
            assert status == exp_status, ctx
            assert marker == exp_marker, ctx
            assert allow == exp_allow, ctx
            if method.upper() != 'HEAD':
                if exp_marker is not None:
                    assert exp_marker in body, ctx
                if status == 405:
                    assert repr(sorted(exp_allow.split(', '))) in body, ctx
            count += 1
    return count


def random_tables(seed, n_tables):
    rng = random.Random(seed)
    patterns = sorted(PATTERNS)
    total = 0
    for t in range(n_tables):
        size = rng.choice([0, 1, 2, 2, 3, 3, 4, 4])
        specs = [('M%d.%d' % (t, i), rng.choice(patterns),
                  rng.choice(METHOD_SETS), rng.choice(BEHAVIOURS))
                 for i in range(size)]
        how = rng.choice(['ctor', 'add', 'add', 'tuples'])
        total += check_table(specs, rng, how)
    return total


def handpicked_tables():
    rng = random.Random(0)
    tables = [
        [],
        # method mismatch followed by a non-breaking error
        [('r0', '/a', ['POST'], 'answer'), ('r1', '/<name>', None, 'raise403nb'),
         ('r2', '/<parts*>', ['PUT'], 'answer')],
        # two non-breaking errors: the most recent wins
        [('r0', '/a', None, 'raise403nb'), ('r1', '/<name>', None, 'return404nb')],
        [('r0', '/a', None, 'return404nb'), ('r1', '/<name>', None, 'raise403nb'),
         ('r2', '/b', None, 'answer')],
        # overlapping patterns with different methods: Allow is the union
        [('r0', '/a', ['GET'], 'answer'), ('r1', '/<name>', ['post'], 'answer'),
         ('r2', '/<parts*>', ['DELETE'], 'answer'), ('r3', '/b', ['PUT'], 'answer')],
        # HEAD only route does not admit GET
        [('r0', '/a', ['HEAD'], 'answer'), ('r1', '/a', ['GET'], 'raise400')],
        # a breaking error stops the search, an uncaught one as well
        [('r0', '/a', None, 'raise400'), ('r1', '/a', None, 'answer')],
        [('r0', '/a', None, 'uncaught'), ('r1', '/a', None, 'answer')],
        [('r0', '/a', None, 'notresponse'), ('r1', '/a', None, 'answer')],
        # non-breaking then breaking
        [('r0', '/a', None, 'raise404nb'), ('r1', '/a', None, 'return410'),
         ('r2', '/a', None, 'answer')],
        # same pattern twice: first wins
        [('r0', '/a', None, 'answer'), ('r1', '/a', None, 'answer')],
    ]
    total = 0
    for specs in tables:
        for how in ('ctor', 'add', 'add', 'add'):
            total += check_table(specs, rng, how)
    return total


# --------------------------- focus: what the sentinel (null) route returns

from clastic.application import DispatchState
from clastic.errors import (ErrorHandler, ContextualErrorHandler,
                            MethodNotAllowed, ContextualNotFound)


class MyNotFound(NotFound):
    detail = 'my-not-found'


class MyMethodNotAllowed(MethodNotAllowed):
    message = 'my-mna'


class RecordingHandler(ErrorHandler):
    not_found_type = MyNotFound
    method_not_allowed_type = MyMethodNotAllowed

    def __init__(self, **kw):
        super(RecordingHandler, self).__init__(**kw)
        self.seen = []

    def render_error(self, request, _error, _dispatch_state, _route):
        self.seen.append((_error, _dispatch_state, _route))
        return super(RecordingHandler, self).render_error(request, _error)


class RecordingContextualHandler(ContextualErrorHandler):
    def __init__(self, **kw):
        super(RecordingContextualHandler, self).__init__(**kw)
        self.seen = []

    def render_error(self, request, _error, _dispatch_state):
        self.seen.append((_error, _dispatch_state))
        return super(RecordingContextualHandler, self).render_error(request, _error)


def check_sentinel():
    states = []
    raised = []

    def ok():
        return Response('ok')

    def spy(_dispatch_state):
        states.append(_dispatch_state)
        return Response('spy')

    def nb403():
        exc = Forbidden('nb403', is_breaking=False)
        raised.append(exc)
        raise exc

    def nb404():
        exc = NotFound('nb404', is_breaking=False)
        raised.append(exc)
        return exc

    handler = RecordingHandler()
    app = Application([Route('/a', ok, methods=['GET']),
                       Route('/a', ok, methods=['put', 'POST']),
                       Route('/nb', nb403),
                       Route('/nb', ok, methods=['DELETE']),
                       Route('/nb', nb404, methods=['GET', 'POST']),
                       Route('/spy', ok, methods=['PATCH']),
                       Route('/spy', nb403, methods=['GET']),
                       Route('/spy', spy)],
                      error_handler=handler)
    null_route = app._null_route

    # 404: the handler's type, carrying the dispatch state of this request
    status, headers, body = call(app, '/nowhere', 'GET')
    assert status == 404 and 'my-not-found' in body and 'Allow' not in headers
    (err, state, route), = handler.seen
    assert type(err) is MyNotFound and err.is_breaking is True
    assert type(state) is DispatchState and err.dispatch_state is state
    assert state.exceptions == [] and state.allowed_methods == set()
    assert err.source_route is null_route and route is null_route
    del handler.seen[:]

    # 405: the handler's type, with a copy of the union of the method sets
    for method in ('DELETE', 'delete', 'FROB', 'OPTIONS'):
        status, headers, body = call(app, '/a', method)
        assert status == 405 and headers['Allow'] == 'GET, HEAD, POST, PUT'
        assert body.startswith('405 - my-mna')
        assert "Allowed methods: ['GET', 'HEAD', 'POST', 'PUT']" in body
        (err, state, route), = handler.seen
        assert type(err) is MyMethodNotAllowed and err.is_breaking is True
        assert err.allowed_methods == {'GET', 'HEAD', 'POST', 'PUT'}
        assert err.allowed_methods == state.allowed_methods
        assert err.allowed_methods is not state.allowed_methods
        assert state.exceptions == []
        assert err.source_route is null_route and route is null_route
        del handler.seen[:]
    status, headers, body = call(app, '/a', 'HEAD')
    assert status == 200 and not handler.seen

    # last non-breaking error: the very object the endpoint produced, even
    # though methods were refused on the way
    status, headers, body = call(app, '/nb', 'GET')
    assert status == 404 and 'nb404' in body and 'Allow' not in headers
    (err, state, route), = handler.seen
    assert len(raised) == 2 and err is raised[1] and type(err) is NotFound
    # (the null route returns the non-breaking error once more)
    assert state.exceptions == [raised[0], raised[1], raised[1]]
    assert state.allowed_methods == {'DELETE'}
    assert err.source_route is app.routes[4] and route is app.routes[4]
    del handler.seen[:], raised[:]

    status, headers, body = call(app, '/nb', 'PUT')
    assert status == 403 and 'nb403' in body and 'Allow' not in headers
    (err, state, route), = handler.seen
    assert len(raised) == 1 and err is raised[0]
    assert state.exceptions == [raised[0], raised[0]]
    assert state.allowed_methods == {'DELETE', 'GET', 'HEAD', 'POST'}
    assert err.source_route is app.routes[2]
    del handler.seen[:], raised[:]

    status, headers, body = call(app, '/nb', 'DELETE')
    assert status == 200 and body == 'ok' and len(raised) == 1
    assert not handler.seen
    del raised[:]

    # an answering route sees the state accumulated so far
    status, headers, body = call(app, '/spy', 'GET')
    assert status == 200 and body == 'spy'
    state, = states
    assert state.exceptions == raised and len(raised) == 1
    assert state.allowed_methods == {'PATCH'}
    del states[:], raised[:]
    status, headers, body = call(app, '/spy', 'PATCH')
    assert status == 200 and body == 'ok' and not states

    # the debug handler answers 404 with its contextual type, 405 as usual
    chandler = RecordingContextualHandler()
    capp = Application([Route('/a', ok, methods=['POST'])],
                       error_handler=chandler, debug=True)
    status, headers, body = call(capp, '/zzz', 'GET')
    assert status == 404
    (err, state), = chandler.seen
    assert type(err) is ContextualNotFound and err.dispatch_state is state
    del chandler.seen[:]
    status, headers, body = call(capp, '/a', 'GET')
    assert status == 405 and headers['Allow'] == 'POST'
    (err, state), = chandler.seen
    assert type(err) is MethodNotAllowed
    assert err.allowed_methods == {'POST'} == state.allowed_methods
    dapp = Application([Route('/a', ok, methods=['POST'])], debug=True)
    assert type(dapp.error_handler) is ContextualErrorHandler
    assert call(dapp, '/zzz', 'GET')[0] == 404
    assert call(dapp, '/a', 'PUT')[0] == 405

    # the error handler is looked up on the application at request time
    sapp = Application([Route('/a', ok, methods=['POST'])])
    assert 'my-not-found' not in call(sapp, '/zzz', 'GET')[2]
    sapp.error_handler = RecordingHandler()
    assert 'my-not-found' in call(sapp, '/zzz', 'GET')[2]
    assert call(sapp, '/a', 'GET')[2].startswith('405 - my-mna')

    # the state object itself
    fresh = DispatchState()
    assert fresh.exceptions == [] and fresh.allowed_methods == set()
    fresh.update_methods(None)
    fresh.update_methods(set())
    assert fresh.allowed_methods == set()
    fresh.update_methods({'GET'})
    fresh.update_methods(['POST', 'GET'])
    assert fresh.allowed_methods == {'GET', 'POST'}
    assert repr(fresh).startswith('<DispatchState exceptions=[] allowed_methods=')
    return True


def main():
    n = handpicked_tables()
    n += random_tables(20260602, 260)
    assert n > 10000, n
    check_sentinel()
    print('checked %d requests' % n)
    print('PASS')
    return 0


if __name__ == '__main__':
    sys.exit(main())
